//! C31 — reloading keeps every zone on its own latest good data.
//!
//! Zones {p., c.p., s.}; per zone a file state in {missing, valid-v1,
//! valid-v2, syntax-error, validation-error, valid-with-warning (v3),
//! validation-error-and-warning, record-of-another-class}; events = {set the
//! configured subset (8), set one file's state (24)}, a reload after each event. Every
//! event sequence up to the depth bound is executed on a real directory
//! through config::load_from_path -> zones::reload -> Server::set_catalog,
//! and after every step the installed catalog is queried through
//! Server::handle_message and compared with a reference model.

use crate::run::{verif_access, Server};
use crate::runner::{json, Ctx, Local, Value};
use crate::wire::{self, c, decode_message, t, wname, PtrRule};
use crate::zones::Catalog;
use quandary::server::{ReceivedInfo, Response, Transport};
use std::collections::BTreeSet;
use std::path::{Path, PathBuf};
use std::sync::atomic::{AtomicU64, Ordering};
use std::sync::Arc;
use std::time::{Duration, SystemTime};

const ZONES: [&str; 3] = ["p.", "c.p.", "s."];
const FILES: [&str; 3] = ["p.zone", "c.p.zone", "s.zone"];
const PROBES: [&str; 6] = ["p.", "c.p.", "s.", "x.c.p.", "x.p.", "y.s."];

#[derive(Clone, Copy, Debug, PartialEq, Eq, Hash, PartialOrd, Ord)]
enum FileState {
    Missing,
    V1,
    V2,
    Syntax,
    Invalid,
    /// Loadable although validation reports a warning (generation 3).
    Warned,
    /// Validation reports an error and a warning: not loadable.
    InvalidAndWarned,
    /// A complete, valid zone plus one record of another class (CH in an IN
    /// zone): the zone store rejects that record, so the file is not loadable.
    ForeignClass,
    /// Generation 1 / 2 with the name server's address record in the included
    /// file `s.inc` (include family only): loadable iff that file is good.
    V1Inc,
    V2Inc,
}

/// State of the included file `s.inc` (include family). Its good content is
/// always the same, so it decides only whether the including file loads.
#[derive(Clone, Copy, Debug, PartialEq, Eq, Hash, PartialOrd, Ord)]
enum IncState {
    Missing,
    Good,
    Bad,
}

const FILE_STATES: [FileState; 8] =
    [FileState::Missing, FileState::V1, FileState::V2, FileState::Syntax, FileState::Invalid, FileState::Warned, FileState::InvalidAndWarned, FileState::ForeignClass];

#[derive(Clone, Copy, Debug, PartialEq, Eq)]
enum Event {
    /// bit i set = zone i configured
    Configure(u8),
    File(usize, FileState),
    Inc(IncState),
}

/// The include family's alphabet: zones p. and s. only; s.zone with and
/// without `$INCLUDE s.inc`; the included file good / broken / missing. The
/// cause of a load failure can lie outside the zone's own file, and be
/// repaired without touching that file.
fn inc_events() -> Vec<Event> {
    vec![
        Event::Inc(IncState::Bad),
        Event::Inc(IncState::Good),
        Event::Inc(IncState::Missing),
        Event::File(2, FileState::V1Inc),
        Event::File(2, FileState::V2Inc),
        Event::File(2, FileState::V2),
        Event::File(2, FileState::Missing),
        Event::File(0, FileState::V1),
        Event::File(0, FileState::Syntax),
        Event::Configure(0b001),
        Event::Configure(0b101),
    ]
}

/// Index space of recorded histories: the main alphabet followed by the
/// include family's.
fn all_events() -> Vec<Event> {
    let mut v = events();
    for e in inc_events() {
        if !v.contains(&e) {
            v.push(e);
        }
    }
    v
}

fn events() -> Vec<Event> {
    let mut v = Vec::new();
    for m in 0..8u8 {
        v.push(Event::Configure(m));
    }
    for z in 0..3 {
        for s in FILE_STATES {
            v.push(Event::File(z, s));
        }
    }
    v
}

fn event_json(e: &Event) -> Value {
    match e {
        Event::Configure(m) => json!({"configure": (0..3).filter(|i| m & (1 << i) != 0).map(|i| ZONES[i]).collect::<Vec<_>>()}),
        Event::File(z, s) => json!({"file": FILES[*z], "state": format!("{s:?}")}),
        Event::Inc(s) => json!({"file": "s.inc", "state": format!("{s:?}")}),
    }
}

fn zone_text(zone: usize, gen: u8) -> String {
    // The generation is visible in the SOA serial and in the apex TXT.
    format!(
        "$ORIGIN {origin}\n$TTL 60\n@ IN SOA ns admin {gen} 3600 600 86400 60\n@ NS ns\nns A 192.0.2.{gen}\n@ TXT \"zone={zone} gen={gen}\"\n",
        origin = ZONES[zone]
    )
}

fn file_text(zone: usize, s: FileState) -> Option<String> {
    match s {
        FileState::Missing => None,
        FileState::V1 => Some(zone_text(zone, 1)),
        FileState::V2 => Some(zone_text(zone, 2)),
        FileState::Syntax => Some(format!("$ORIGIN {}\n$TTL 60\n@ IN SOA ns admin ( 9 3600\nthis is not a zone file \"\n", ZONES[zone])),
        // Parses, but validation fails: no NS at the apex.
        FileState::Invalid => Some(format!("$ORIGIN {}\n$TTL 60\n@ IN SOA ns admin 9 3600 600 86400 60\n@ TXT \"zone=broken\"\n", ZONES[zone])),
        // Valid, with a warning-class issue: an in-zone mail exchanger
        // without an address.
        FileState::Warned => Some(format!("{}@ MX 10 mx\n", zone_text(zone, 3))),
        // An error-class issue (in-zone name server without an address) next
        // to the same warning-class issue.
        FileState::ForeignClass => Some(format!("{}www CH TXT \"other class\"\n", zone_text(zone, 4))),
        FileState::V1Inc | FileState::V2Inc => {
            let gen = if s == FileState::V1Inc { 1 } else { 2 };
            Some(format!(
                "$ORIGIN {origin}\n$TTL 60\n@ IN SOA ns admin {gen} 3600 600 86400 60\n@ NS ns\n@ TXT \"zone={zone} gen={gen}\"\n$INCLUDE s.inc\n",
                origin = ZONES[zone]
            ))
        }
        FileState::InvalidAndWarned => Some(format!(
            "$ORIGIN {}\n$TTL 60\n@ IN SOA ns admin 8 3600 600 86400 60\n@ NS ns\n@ MX 10 mx\n@ TXT \"zone=broken-and-warned\"\n",
            ZONES[zone]
        )),
    }
}

fn loadable(s: FileState, inc: IncState) -> Option<u8> {
    match s {
        FileState::V1Inc if inc == IncState::Good => Some(1),
        FileState::V2Inc if inc == IncState::Good => Some(2),
        FileState::V1 => Some(1),
        FileState::V2 => Some(2),
        FileState::Warned => Some(3),
        _ => None,
    }
}

/// The harness's world: a directory, the server and the current catalog.
struct World {
    dir: PathBuf,
    daemon: verif_access::Daemon,
    mtime_counter: u64,
    configured: u8,
    files: [FileState; 3],
    inc: IncState,
    /// The configured zone-file paths are symbolic links into `real/`; edits
    /// rewrite the link's target in place.
    symlinked: bool,
}

/// Reference model: per zone, None = not configured; Some(None) = configured
/// but never loaded (SERVFAIL); Some(Some(g)) = serving generation g.
type Model = [Option<Option<u8>>; 3];

fn model_step(model: &Model, configured: u8, files: &[FileState; 3], inc: IncState) -> Model {
    let mut next: Model = [None; 3];
    for z in 0..3 {
        if configured & (1 << z) == 0 {
            continue; // removed from the configuration: no longer served
        }
        next[z] = Some(match loadable(files[z], inc) {
            Some(g) => Some(g),
            // load failed: previously served data, if this zone itself had any
            None => model[z].unwrap_or(None),
        });
    }
    next
}

#[derive(Debug, PartialEq, Eq, Clone)]
enum Obs {
    Answer { zone: usize, gen: u8 },
    Negative { soa_owner: String, serial: u32, rcode: u8 },
    ServFail,
    Refused,
    Other(String),
}

fn expected_obs(model: &Model, probe: &str) -> Obs {
    // longest configured suffix
    let q = wname(probe);
    let mut best: Option<usize> = None;
    for z in 0..3 {
        if model[z].is_some() && wire::eq_or_subdomain(&q, &wname(ZONES[z])) {
            if best.map_or(true, |b| ZONES[z].len() > ZONES[b].len()) {
                best = Some(z);
            }
        }
    }
    match best {
        None => Obs::Refused,
        Some(z) => match model[z].unwrap() {
            None => Obs::ServFail,
            Some(g) => {
                if wire::eq_ci(&q, &wname(ZONES[z])) {
                    Obs::Answer { zone: z, gen: g }
                } else {
                    Obs::Negative { soa_owner: ZONES[z].to_string(), serial: g as u32, rcode: 3 }
                }
            }
        },
    }
}

impl World {
    fn new(dir: PathBuf, symlinked: bool) -> World {
        let _ = std::fs::remove_dir_all(&dir);
        std::fs::create_dir_all(&dir).expect("scratch dir");
        let daemon = verif_access::Daemon { config_path: dir.join("quandary.toml"), server: Arc::new(Server::new(Arc::new(Catalog::new()))), catalog: Arc::new(Catalog::new()) };
        World { dir, daemon, mtime_counter: 0, configured: 0, files: [FileState::Missing; 3], inc: IncState::Missing, symlinked }
    }

    fn config_path(&self) -> PathBuf {
        self.dir.join("quandary.toml")
    }

    fn write_config(&self) {
        let mut s = String::new();
        if self.configured == 0 {
            s.push_str("zones = []\n");
        }
        for z in 0..3 {
            if self.configured & (1 << z) != 0 {
                s.push_str(&format!("[[zones]]\nname = \"{}\"\npath = \"{}\"\n\n", ZONES[z], FILES[z]));
            }
        }
        std::fs::write(self.config_path(), s).expect("write config");
    }

    fn write_file(&mut self, z: usize, st: FileState) {
        let p = if self.symlinked {
            // quandary.toml names dir/<file>, a link to real/<file>; only the
            // target is ever written or removed (a removed target leaves a
            // dangling link).
            let real = self.dir.join("real");
            std::fs::create_dir_all(&real).expect("real dir");
            let link = self.dir.join(FILES[z]);
            if std::fs::symlink_metadata(&link).is_err() {
                std::os::unix::fs::symlink(Path::new("real").join(FILES[z]), &link).expect("symlink");
            }
            real.join(FILES[z])
        } else {
            self.dir.join(FILES[z])
        };
        match file_text(z, st) {
            None => {
                let _ = std::fs::remove_file(&p);
            }
            Some(text) => {
                std::fs::write(&p, text).expect("write zone file");
                // Every write gets a strictly larger mtime (whole seconds), so
                // the daemon's mtime comparison never depends on timestamp
                // granularity or on how fast the harness runs.
                self.mtime_counter += 1;
                let t = SystemTime::UNIX_EPOCH + Duration::from_secs(1_600_000_000 + self.mtime_counter);
                let f = std::fs::File::options().write(true).open(&p).expect("open zone file");
                f.set_modified(t).expect("set mtime");
            }
        }
        self.files[z] = st;
    }

    fn write_inc(&mut self, st: IncState) {
        let p = self.dir.join("s.inc");
        let text = match st {
            IncState::Missing => {
                let _ = std::fs::remove_file(&p);
                self.inc = st;
                return;
            }
            IncState::Good => "ns A 192.0.2.9\n",
            IncState::Bad => "ns A (\nthis is not a zone file \"\n",
        };
        std::fs::write(&p, text).expect("write included file");
        self.mtime_counter += 1;
        let t = SystemTime::UNIX_EPOCH + Duration::from_secs(1_600_000_000 + self.mtime_counter);
        let f = std::fs::File::options().write(true).open(&p).expect("open included file");
        f.set_modified(t).expect("set mtime");
        self.inc = st;
    }

    fn start(&mut self) -> Result<(), String> {
        self.write_config();
        let cp = self.config_path();
        self.daemon.catalog = verif_access::initial_load(&cp, &self.daemon.server).map_err(|e| format!("{e:#}"))?;
        Ok(())
    }

    fn apply(&mut self, e: &Event) -> Result<(), String> {
        match e {
            Event::Configure(m) => {
                self.configured = *m;
                self.write_config();
            }
            Event::File(z, s) => self.write_file(*z, *s),
            Event::Inc(s) => self.write_inc(*s),
        }
        // The SIGHUP arm logs reload errors and carries on; so does this.
        verif_access::sighup(&mut self.daemon);
        Ok(())
    }

    fn observe(&self, probe: &str) -> Obs {
        let req = wire::simple_query(0x3131, &wname(probe), t::TXT, c::IN);
        let mut buf = vec![0u8; 4096];
        let info = ReceivedInfo::new("127.0.0.1".parse().unwrap(), Transport::Udp);
        let n = match self.daemon.server.handle_message(&req, info, &mut buf) {
            Response::Single(n) => n,
            Response::None => return Obs::Other("no response".into()),
        };
        let m = match decode_message(&buf[..n], PtrRule::BeforePointer, true) {
            Ok(m) => m,
            Err(e) => return Obs::Other(format!("undecodable: {e}")),
        };
        match m.header.rcode {
            2 => Obs::ServFail,
            5 => Obs::Refused,
            0 | 3 => {
                if let Some(rr) = m.answers.iter().find(|r| r.typ == t::TXT) {
                    // "zone=<z> gen=<g>"
                    let text = String::from_utf8_lossy(&rr.rdata[1..]).to_string();
                    let zone = text.split(' ').next().and_then(|s| s.strip_prefix("zone=")).and_then(|s| s.parse::<usize>().ok());
                    let gen = text.split(' ').nth(1).and_then(|s| s.strip_prefix("gen=")).and_then(|s| s.parse::<u8>().ok());
                    match (zone, gen) {
                        (Some(zone), Some(gen)) => Obs::Answer { zone, gen },
                        _ => Obs::Other(format!("unexpected TXT {text}")),
                    }
                } else if let Some(soa) = m.authority.iter().find(|r| r.typ == t::SOA) {
                    let n = soa.rdata.len();
                    let serial = u32::from_be_bytes([soa.rdata[n - 20], soa.rdata[n - 19], soa.rdata[n - 18], soa.rdata[n - 17]]);
                    Obs::Negative { soa_owner: wire::name_text(&wire::lower(&soa.name)), serial, rcode: m.header.rcode }
                } else {
                    Obs::Other(format!("rcode {} without data", m.header.rcode))
                }
            }
            r => Obs::Other(format!("rcode {r}")),
        }
    }
}

fn scratch_root() -> PathBuf {
    let base = if Path::new("/dev/shm").is_dir() { PathBuf::from("/dev/shm") } else { PathBuf::from(std::env::var("QVERIF_WORK").unwrap_or_else(|_| "/var/tmp/qverif".into())) };
    base.join(format!("qverif-c31-{}", std::process::id()))
}

struct Totals {
    transitions: AtomicU64,
    histories: AtomicU64,
}

/// Runs one history; returns false on violation.
fn run_history(l: &mut Local, dir: &Path, symlinked: bool, hist: &[Event], totals: &Totals, states: &mut BTreeSet<(u8, [FileState; 3], IncState, Model)>) {
    let mut w = World::new(dir.to_path_buf(), symlinked);
    let case = || json!({"history": hist.iter().map(event_json).collect::<Vec<_>>(), "history_idx": hist.iter().map(event_index).collect::<Vec<_>>(), "zone_files_are_symlinks": symlinked});
    if let Err(e) = w.start() {
        l.violation("initial-load-failed", json!({"error": e, "case": case()}));
        return;
    }
    let mut model: Model = [None; 3];
    totals.histories.fetch_add(1, Ordering::Relaxed);
    for (step, ev) in hist.iter().enumerate() {
        if let Err(e) = w.apply(ev) {
            let mut j = case();
            j["step"] = json!(step);
            j["error"] = json!(e);
            l.violation("reload-returned-error", j);
            return;
        }
        model = model_step(&model, w.configured, &w.files, w.inc);
        totals.transitions.fetch_add(1, Ordering::Relaxed);
        states.insert((w.configured, w.files, w.inc, model));
        l.tick();
        let mut class = String::new();
        for probe in PROBES {
            let got = w.observe(probe);
            let exp = expected_obs(&model, probe);
            let short = match &got {
                Obs::Answer { gen, .. } => format!("A{gen}"),
                Obs::Negative { serial, .. } => format!("N{serial}"),
                Obs::ServFail => "SF".to_string(),
                Obs::Refused => "RF".to_string(),
                Obs::Other(_) => "??".to_string(),
            };
            class.push_str(&short);
            class.push(' ');
            if got != exp {
                let key = match (&exp, &got) {
                    (Obs::ServFail, _) => "never-loaded-zone-not-servfail",
                    (Obs::Refused, _) => "removed-or-unconfigured-zone-still-served",
                    (Obs::Answer { .. }, Obs::Answer { .. }) | (Obs::Negative { .. }, Obs::Negative { .. }) => "zone-serves-wrong-generation",
                    (_, Obs::ServFail) => "zone-with-good-data-servfail",
                    _ => "wrong-zone-or-outcome",
                };
                let mut j = case();
                j["step"] = json!(step);
                j["probe"] = json!(probe);
                j["expected"] = json!(format!("{exp:?}"));
                j["observed"] = json!(format!("{got:?}"));
                l.violation(key, j);
                return;
            }
        }
        l.outcome(class.trim_end(), || case());
    }
}

fn event_index(e: &Event) -> usize {
    all_events().iter().position(|x| x == e).unwrap()
}

pub fn run(ctx: Ctx) -> ! {
    let evs = events();
    let root = scratch_root();
    let totals = Totals { transitions: AtomicU64::new(0), histories: AtomicU64::new(0) };
    let all_states = std::sync::Mutex::new(BTreeSet::new());
    let rule = "every sequence of <= d events (d = 4 quick, 5 thorough) over {set configured subset of {p., c.p., s.} (8), set one zone file to missing / valid v1 / valid v2 / syntax error / validation error / valid with a validation warning (v3) / validation error together with a warning / valid but for one record of another class (24)}, a reload after each, executed from scratch on a real directory through the daemon's config::load_from_path -> zones::reload -> Server::set_catalog (no state merging: entry metadata - path, mtime - is hidden state); after every step 6 probe names are queried through Server::handle_message and compared with the reference model (longest configured suffix; new data if the file loads and validates, else this zone's previous data, else SERVFAIL; unconfigured => not served). plus the include family: s.zone with its name server's address in an $INCLUDEd file, over {included file good / broken / missing, s.zone v1 / v2 with the include, v2 without, missing, p.zone valid / syntax error, configure {p.} / {p., s.}} (11), every sequence of <= d2 events (3 quick, 5 thorough) from the empty start and from the start where s. is loaded through a good include, with plain zone files and with symlinked ones; plus the main alphabet at depth d - 1 with every configured path a symbolic link whose target is rewritten in place; states = distinct (configuration, files, included file, model) states reached, transitions = reload steps executed, traces_validated_against_impl = histories executed";
    if let Some(case) = ctx.replay_case() {
        let idx: Vec<usize> = case["history_idx"].as_array().or_else(|| case["case"]["history_idx"].as_array()).expect("history_idx").iter().map(|v| v.as_u64().unwrap() as usize).collect();
        let all = all_events();
        let hist: Vec<Event> = idx.iter().map(|i| all[*i]).collect();
        let mut l = ctx.local();
        let mut st = BTreeSet::new();
        let symlinked = case["zone_files_are_symlinks"].as_bool().or_else(|| case["case"]["zone_files_are_symlinks"].as_bool()).unwrap_or(false);
        run_history(&mut l, &root.join("replay"), symlinked, &hist, &totals, &mut st);
        drop(l);
        let _ = std::fs::remove_dir_all(&root);
        ctx.finish("model_checking", rule, false);
    }
    let depth = ctx.pick(4, 5);
    // Shard by the first two events; every worker enumerates the rest.
    let mut prefixes: Vec<Vec<usize>> = Vec::new();
    for a in 0..evs.len() {
        for b in 0..evs.len() {
            prefixes.push(vec![a, b]);
        }
    }
    // Histories of length 1 (and the prefixes of length 2 themselves) are
    // covered as prefixes of longer ones: every step is checked.
    let counter = AtomicU64::new(0);
    ctx.par_for_each(&prefixes, |l, prefix| {
        let dir = root.join(format!("w{}", counter.fetch_add(1, Ordering::Relaxed)));
        let mut states = BTreeSet::new();
        let rest = depth - 2;
        let mut idx = vec![0usize; rest];
        loop {
            let mut hist: Vec<Event> = prefix.iter().map(|i| evs[*i]).collect();
            hist.extend(idx.iter().map(|i| evs[*i]));
            run_history(l, &dir, false, &hist, &totals, &mut states);
            let mut k = rest;
            let mut done = true;
            while k > 0 {
                k -= 1;
                idx[k] += 1;
                if idx[k] < evs.len() {
                    done = false;
                    break;
                }
                idx[k] = 0;
            }
            if done {
                break;
            }
        }
        let _ = std::fs::remove_dir_all(&dir);
        all_states.lock().unwrap().extend(states);
    });
    // ---- include family: from two starting points (nothing configured or
    // loaded; p. and s. configured and s. loaded through a good include),
    // every sequence of <= d2 events of its alphabet.
    let ievs = inc_events();
    let starts: [&[Event]; 2] = [&[], &[Event::Configure(0b101), Event::Inc(IncState::Good), Event::File(2, FileState::V1Inc)]];
    let d2 = ctx.pick(3, 5);
    let mut iprefixes: Vec<(usize, usize)> = Vec::new();
    for si in 0..starts.len() {
        for a in 0..ievs.len() {
            iprefixes.push((si, a));
        }
    }
    let inc_histories = AtomicU64::new(0);
    ctx.par_for_each(&iprefixes, |l, (si, a)| {
        let dir = root.join(format!("i{}", counter.fetch_add(1, Ordering::Relaxed)));
        let mut states = BTreeSet::new();
        let rest = d2 - 1;
        let mut idx = vec![0usize; rest];
        loop {
            let mut hist: Vec<Event> = starts[*si].to_vec();
            hist.push(ievs[*a]);
            hist.extend(idx.iter().map(|i| ievs[*i]));
            run_history(l, &dir, false, &hist, &totals, &mut states);
            run_history(l, &dir, true, &hist, &totals, &mut states);
            inc_histories.fetch_add(2, Ordering::Relaxed);
            let mut k = rest;
            let mut done = true;
            while k > 0 {
                k -= 1;
                idx[k] += 1;
                if idx[k] < ievs.len() {
                    done = false;
                    break;
                }
                idx[k] = 0;
            }
            if done {
                break;
            }
        }
        let _ = std::fs::remove_dir_all(&dir);
        all_states.lock().unwrap().extend(states);
    });
    // ---- the main alphabet once more, one event shallower, with every zone
    // file reached through a symbolic link whose target is edited in place.
    let sdepth = depth - 1;
    let sym_histories = AtomicU64::new(0);
    ctx.par_for_each(&prefixes, |l, prefix| {
        let dir = root.join(format!("s{}", counter.fetch_add(1, Ordering::Relaxed)));
        let mut states = BTreeSet::new();
        let rest = sdepth - 2;
        let mut idx = vec![0usize; rest];
        loop {
            let mut hist: Vec<Event> = prefix.iter().map(|i| evs[*i]).collect();
            hist.extend(idx.iter().map(|i| evs[*i]));
            run_history(l, &dir, true, &hist, &totals, &mut states);
            sym_histories.fetch_add(1, Ordering::Relaxed);
            let mut k = rest;
            let mut done = true;
            while k > 0 {
                k -= 1;
                idx[k] += 1;
                if idx[k] < evs.len() {
                    done = false;
                    break;
                }
                idx[k] = 0;
            }
            if done {
                break;
            }
        }
        let _ = std::fs::remove_dir_all(&dir);
        all_states.lock().unwrap().extend(states);
    });
    ctx.set_extra("symlink_family", json!({"depth": sdepth, "histories": sym_histories.load(Ordering::Relaxed)}));
    ctx.set_extra("include_family", json!({"alphabet_size": ievs.len(), "depth_after_start": d2, "starting_points": starts.len(), "histories": inc_histories.load(Ordering::Relaxed)}));
    let _ = std::fs::remove_dir_all(&root);
    ctx.set_extra("states", json!(all_states.lock().unwrap().len()));
    ctx.set_extra("transitions", json!(totals.transitions.load(Ordering::Relaxed)));
    ctx.set_extra("traces_validated_against_impl", json!(totals.histories.load(Ordering::Relaxed)));
    ctx.set_extra("depth", json!(depth));
    ctx.set_extra("alphabet_size", json!(evs.len()));
    ctx.assume("signal delivery and the process boundary are not exercised: the harness calls the function the SIGHUP arm calls (reload_zones_and_keys) and the start-up sequence of try_running minus sockets/threads");
    ctx.assume("every zone-file write gets a strictly larger mtime (whole seconds): the daemon's mtime-based skip logic is exercised without depending on timestamp granularity");
    ctx.finish("model_checking", rule, true)
}
