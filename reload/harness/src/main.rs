//! E-RELOAD harness (C31): drives the daemon's real configuration loading and
//! reload code (modules copied verbatim from src/bin/quandaryd) over every
//! history of configuration / zone-file edits up to a depth bound.

#[allow(dead_code)]
mod args;
#[allow(dead_code)]
mod config;
#[allow(dead_code)]
mod run;
#[allow(dead_code)]
mod zones;

mod c31;
#[allow(dead_code)]
mod runner;
#[allow(dead_code)]
mod wire;

fn main() {
    if std::env::var("RUST_LOG").is_ok() {
        env_logger::init();
    }
    let ctx = runner::Ctx::from_args(&["C31"]);
    c31::run(ctx);
}
