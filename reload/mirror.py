#!/usr/bin/env python3
"""Builds the E-RELOAD build workspace: the daemon's modules args.rs,
config.rs, zones.rs and run.rs copied verbatim from the repository's
src/bin/quandaryd into a harness crate (so `crate::...` paths resolve), one
public wrapper appended to run.rs around the private reload function, plus the
harness sources.

  mirror.py [--repo DIR] [--out DIR]
"""
import argparse
import os
import shutil
import sys

HERE = os.path.dirname(os.path.abspath(__file__))
VERIF = os.path.dirname(HERE)


def die(msg):
    sys.stderr.write("reload/mirror.py: %s\n" % msg)
    sys.exit(2)


def write_if_changed(path, data):
    if isinstance(data, str):
        data = data.encode()
    try:
        with open(path, "rb") as f:
            if f.read() == data:
                return
    except FileNotFoundError:
        pass
    os.makedirs(os.path.dirname(path), exist_ok=True)
    with open(path, "wb") as f:
        f.write(data)


RUN_APPEND = '''
/// Verification access (added by /verif/reload/mirror.py): drives the same
/// functions the daemon's start-up and SIGHUP handler call.
pub mod verif_access {
    use super::*;

    /// What `try_running` does with the configuration at start-up, minus
    /// sockets, signals and threads.
    pub fn initial_load(config_path: &Path, server: &Server) -> Result<Arc<Catalog>> {
        let config = config::load_from_path(config_path, false).context("failed to load the configuration")?;
        let catalog = Arc::new(zones::load(config.zones));
        server.set_catalog(catalog.clone());
        server.set_tsig_keys(make_tsig_key_map(config.tsig_keys));
        Ok(catalog)
    }

    /// The daemon's state across reloads, as `try_running` holds it in local
    /// variables.
    pub struct Daemon {
        pub config_path: std::path::PathBuf,
        pub server: Arc<Server>,
        pub catalog: Arc<Catalog>,
    }

    /// The body of the `SIGHUP => { ... }` arm of the signal loop, copied
    /// verbatim from `try_running` by mirror.py, run on the same three local
    /// variables (`reload_source`, `server`, `catalog`).
    #[allow(unused_mut, unused_variables, unused_assignments)]
    pub fn sighup(d: &mut Daemon) {
        let reload_source = ReloadSource::Config(d.config_path.as_path());
        let server = d.server.clone();
        let mut catalog = d.catalog.clone();
        {
%(SIGHUP_ARM)s
        }
        d.catalog = catalog;
    }
}
'''


def extract_sighup_arm(text):
    """Returns the source text between `SIGHUP => {` and its matching `}`."""
    key = "SIGHUP => {"
    if text.count(key) != 1:
        die("seam moved: %r occurs %d times in run.rs" % (key, text.count(key)))
    i = text.index(key) + len(key)
    depth, j = 1, i
    while j < len(text) and depth > 0:
        ch = text[j]
        if ch == "{":
            depth += 1
        elif ch == "}":
            depth -= 1
        j += 1
    if depth != 0:
        die("seam moved: unbalanced braces after SIGHUP arm")
    return text[i:j - 1]


CARGO_TOML = '''[package]
name = "reload-harness"
version = "0.0.0"
edition = "2021"

[[bin]]
name = "reload-harness"
path = "src/main.rs"

[dependencies]
quandary = { path = "%(repo)s", default-features = false }
anyhow = "1.0"
base64 = "0.21"
clap = { version = "4", features = ["derive"] }
env_logger = "0.10"
log = "0.4"
paste = "1.0"
serde = { version = "1.0", features = ["derive"] }
serde_json = "1"
signal-hook = "0.3"
toml = "0.5"

[workspace]

[profile.release]
opt-level = 2
debug = false
overflow-checks = true
debug-assertions = true
codegen-units = 16
lto = false
incremental = true
panic = "unwind"
'''


def main():
    ap = argparse.ArgumentParser()
    ap.add_argument("--repo", default=os.environ.get("QVERIF_REPO") or "/repo")
    ap.add_argument("--out", default=None)
    a = ap.parse_args()
    work = os.environ.get("QVERIF_WORK", "/var/tmp/qverif")
    out = a.out or os.path.join(work, "reload-build")
    d = os.path.join(a.repo, "src", "bin", "quandaryd")
    for m in ("args.rs", "config.rs", "zones.rs", "run.rs"):
        p = os.path.join(d, m)
        if not os.path.exists(p):
            die("seam moved: %s does not exist" % p)
        text = open(p, encoding="utf-8").read()
        if m == "run.rs":
            for needle in ("enum ReloadSource<'a>", "fn make_tsig_key_map("):
                if text.count(needle) != 1:
                    die("seam moved: %r occurs %d times in run.rs" % (needle, text.count(needle)))
            text += RUN_APPEND.replace("%(SIGHUP_ARM)s", extract_sighup_arm(text))
        write_if_changed(os.path.join(out, "src", m), text)
    main_rs = open(os.path.join(d, "main.rs"), encoding="utf-8").read()
    for needle in ("mod args;", "mod config;", "mod zones;", "mod run;"):
        if needle not in main_rs:
            die("seam moved: main.rs no longer declares %s" % needle)
    for fn in os.listdir(os.path.join(HERE, "harness", "src")):
        with open(os.path.join(HERE, "harness", "src", fn), "rb") as f:
            write_if_changed(os.path.join(out, "src", fn), f.read())
    for shared in ("runner.rs", "wire.rs"):
        with open(os.path.join(VERIF, "seq", "qvlib", "src", shared), "rb") as f:
            write_if_changed(os.path.join(out, "src", shared), f.read())
    write_if_changed(os.path.join(out, "Cargo.toml"), CARGO_TOML % {"repo": a.repo})
    write_if_changed(os.path.join(out, ".cargo", "config.toml"), "[net]\noffline = true\n")
    if not os.path.exists(os.path.join(out, "Cargo.lock")):
        lock = os.path.join(HERE, "Cargo.lock")
        shutil.copy(lock if os.path.exists(lock) else os.path.join(a.repo, "Cargo.lock"), os.path.join(out, "Cargo.lock"))
    print(out)


if __name__ == "__main__":
    main()
