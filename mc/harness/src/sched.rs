//! Deviation-bounded exhaustive depth-first scheduler for shuttle-engine
//! (CHESS-style iterative context bounding, plus timer firings).
//!
//! At every scheduling point the candidate list `(task, cost)` is computed:
//!   cost 0  continue the current thread (or pick any thread when the current
//!           one is blocked / finished / yielding);
//!   cost 1  preempt a thread that could have continued;
//!   +1      let a `wait_timeout` expire while some non-timer thread is
//!           runnable (a timer landing first); firing a timer when nothing
//!           else can run costs nothing (time simply passes). Only the
//!           earliest pending deadline may fire.
//! Candidates that would exceed the bound are dropped; the rest are explored
//! depth-first in canonical order (cost, current-first, id). While replaying a
//! prefix the freshly computed candidate list must equal the recorded one,
//! otherwise the harness does not own all nondeterminism: hard error.

use shuttle_engine::scheduler::{Schedule, Scheduler, Task, TaskId};
use std::sync::{Arc, Mutex};

#[derive(Clone, Debug, PartialEq)]
struct Frame {
    cands: Vec<(usize, u32)>,
    idx: usize,
    cost_before: u32,
}

#[derive(Default, Debug, Clone)]
pub struct Stats {
    pub executions: u64,
    pub steps: u64,
    pub max_depth: usize,
    pub choice_points: u64,
    pub max_deviations_used: u32,
    pub diverged: Option<String>,
}

#[derive(Default, Debug)]
pub struct Shared {
    pub stats: Stats,
    /// Task ids chosen so far in the current execution.
    pub trace: Vec<usize>,
    /// Deviations used so far in the current execution.
    pub cost: u32,
}

pub struct PbDfs {
    bound: u32,
    frames: Vec<Frame>,
    depth: usize,
    started: bool,
    /// If set: follow exactly this sequence of task ids, one execution only.
    replay: Option<Vec<usize>>,
    max_executions: u64,
    pub shared: Arc<Mutex<Shared>>,
}

impl PbDfs {
    pub fn new(bound: u32) -> Self {
        Self { bound, frames: vec![], depth: 0, started: false, replay: None, max_executions: u64::MAX, shared: Default::default() }
    }
    pub fn replay(trace: Vec<usize>) -> Self {
        let mut s = Self::new(u32::MAX);
        s.replay = Some(trace);
        s
    }
    pub fn with_max_executions(mut self, n: u64) -> Self {
        self.max_executions = n;
        self
    }
}

impl Scheduler for PbDfs {
    fn new_execution(&mut self) -> Option<Schedule> {
        let mut sh = self.shared.lock().unwrap();
        if self.started {
            if self.replay.is_some() || sh.stats.diverged.is_some() {
                return None;
            }
            // backtrack to the deepest frame with an untried candidate
            while let Some(f) = self.frames.last_mut() {
                if f.idx + 1 < f.cands.len() {
                    f.idx += 1;
                    break;
                } else {
                    self.frames.pop();
                }
            }
            if self.frames.is_empty() {
                return None;
            }
            if sh.stats.executions >= self.max_executions {
                return None;
            }
        }
        self.started = true;
        self.depth = 0;
        sh.trace.clear();
        sh.cost = 0;
        sh.stats.executions += 1;
        Some(Schedule::new(0))
    }

    fn next_task(&mut self, runnable: &[&Task], current: Option<TaskId>, is_yielding: bool) -> Option<TaskId> {
        let ids: Vec<usize> = runnable.iter().map(|t| usize::from(t.id())).collect();
        let cur = current.map(usize::from);
        let timed = mcshim::timed_snapshot();
        let min_deadline = timed.values().filter(|v| !v.0).map(|v| v.1).min();
        let is_timer = |id: usize| timed.get(&id).map_or(false, |v| !v.0);
        let non_timer_runnable = ids.iter().any(|id| !is_timer(*id));
        let cur_enabled = cur.map_or(false, |c| ids.contains(&c) && !is_timer(c)) && !is_yielding;
        let mut cands: Vec<(usize, u32)> = vec![];
        for &id in &ids {
            let mut cost = 0;
            if is_timer(id) {
                // discrete-event order: only the earliest deadline may fire
                if Some(timed[&id].1) != min_deadline {
                    continue;
                }
                if non_timer_runnable {
                    cost += 1;
                }
            } else if Some(id) != cur && cur_enabled {
                cost += 1;
            }
            cands.push((id, cost));
        }
        cands.sort_by_key(|c| (c.1, if Some(c.0) == cur { 0 } else { 1 }, c.0));
        if let Some(tr) = &self.replay {
            // Follow the recorded choices; past their end (a trace is recorded
            // when the oracle fires, the execution then runs on) take the
            // default candidate.
            let choice = match tr.get(self.depth) {
                Some(c) if cands.iter().any(|x| x.0 == *c) => *c,
                None => cands[0].0,
                Some(c) => {
                    let mut sh = self.shared.lock().unwrap();
                    sh.stats.diverged = Some(format!("replay diverged at depth {}: recorded choice {} is not among the candidates {:?}", self.depth, c, cands));
                    cands[0].0
                }
            };
            self.depth += 1;
            let mut sh = self.shared.lock().unwrap();
            sh.trace.push(choice);
            sh.stats.steps += 1;
            return Some(TaskId::from(choice));
        }
        let cost_before = if self.depth == 0 {
            0
        } else {
            let f = &self.frames[self.depth - 1];
            f.cost_before + f.cands[f.idx].1
        };
        let cands: Vec<_> = cands.into_iter().filter(|c| cost_before.saturating_add(c.1) <= self.bound).collect();
        assert!(!cands.is_empty(), "no candidate within the bound (cost-0 candidate must always exist)");
        let choice;
        let mut sh = self.shared.lock().unwrap();
        if self.depth < self.frames.len() {
            let f = &self.frames[self.depth];
            if f.cands != cands || f.cost_before != cost_before {
                sh.stats.diverged = Some(format!(
                    "nondeterminism: replay of prefix diverged at depth {}: recorded {:?}, now {:?}",
                    self.depth, f.cands, cands
                ));
                // Continue with the first candidate so the execution can end;
                // the run is reported as a machinery error.
                choice = cands[0];
            } else {
                choice = f.cands[f.idx];
            }
        } else {
            choice = cands[0];
            self.frames.push(Frame { cands, idx: 0, cost_before });
            sh.stats.choice_points += 1;
        }
        self.depth += 1;
        sh.stats.steps += 1;
        if self.depth > sh.stats.max_depth {
            sh.stats.max_depth = self.depth;
        }
        sh.cost = cost_before + choice.1;
        if sh.cost > sh.stats.max_deviations_used {
            sh.stats.max_deviations_used = sh.cost;
        }
        sh.trace.push(choice.0);
        Some(TaskId::from(choice.0))
    }

    fn next_u64(&mut self) -> u64 {
        0
    }
}
