//! E-MC harness: deviation-bounded exhaustive schedule exploration of the
//! seam mirror of quandary (C28, C29, C32) and scripted-I/O histories (C30).

mod c28;
mod c29;
mod c30;
mod c32;
mod explore;
#[allow(dead_code)]
mod reftsig;
#[allow(dead_code)]
mod runner;
mod sched;
mod srv;
#[allow(dead_code)]
mod wire;

use runner::{json, Ctx, Value};
use std::sync::Mutex;

/// Shared driver: explores every configuration (in parallel, one OS thread
/// per configuration) and reports through the common runner.
pub fn drive<C, B>(ctx: &Ctx, configs: Vec<C>, label: impl Fn(&C) -> String + Sync, to_json: impl Fn(&C) -> Value + Sync, max_bound: u32, proceed_below: &[u64], cap: u64, body: B)
where
    C: Clone + Send + Sync + 'static,
    B: Fn(&C) -> explore::ExecReport + Send + Sync + Clone + 'static,
{
    // Totals accumulate over the `drive` calls of one run.
    static TOTALS: Mutex<(u64, u64, u64, u32, Vec<Value>)> = Mutex::new((0, 0, 0, 0, Vec::new()));
    let totals = &TOTALS;
    ctx.par_for_each(&configs, |l, cfg| {
        let c2 = cfg.clone();
        let b2 = body.clone();
        let res = explore::explore(max_bound, proceed_below, cap, move || b2(&c2));
        let mut scheds = 0;
        for (_, s) in &res.per_bound {
            scheds += s.executions;
        }
        l.tick_n(scheds);
        for (k, n) in &res.outcomes {
            let cl = format!("{} => {}", label(cfg), k);
            l.outcome_n(&cl, *n, || json!({"config": to_json(cfg), "outcome": k}));
        }
        for (key, desc, bound, trace) in &res.violations {
            l.violation(key, json!({"config": to_json(cfg), "config_label": label(cfg), "bound": bound, "what": desc, "trace": trace}));
        }
        if let Some(e) = &res.machinery_error {
            eprintln!("MACHINERY: {}: {}", label(cfg), e);
            std::process::exit(3);
        }
        if res.capped {
            ctx.mark_capped("per-bound schedule cap reached for at least one configuration");
        }
        let mut t = totals.lock().unwrap();
        for (_, s) in &res.per_bound {
            t.0 += s.executions;
            t.1 += s.steps;
            t.2 += s.choice_points;
            t.3 = t.3.max(s.max_deviations_used);
        }
        let completed = res.per_bound.last().map(|(b, _)| *b).unwrap_or(0);
        if t.4.len() >= 150 {
            // long families of similar configurations: listed through their
            // outcome classes only
            return;
        }
        t.4.push(json!({"config": label(cfg), "max_bound_completed": completed, "per_bound": explore::stats_json(&res.per_bound), "distinct_outcomes": res.outcomes.len()}));
    });
    let t = totals.lock().unwrap();
    ctx.set_extra("traces_validated_against_impl", json!(t.0));
    ctx.set_extra("transitions", json!(t.1));
    ctx.set_extra("states", json!(t.2));
    ctx.set_extra("schedules", json!(t.0));
    ctx.set_extra("max_deviations_used", json!(t.3));
    ctx.set_extra("per_config", Value::Array(t.4.clone()));
}

fn replay_generic<C: Clone + Send + Sync + 'static>(ctx: &Ctx, configs: Vec<C>, label: impl Fn(&C) -> String, body: impl Fn(&C) -> explore::ExecReport + Send + Sync + Clone + 'static) {
    let case = ctx.replay_case().unwrap().clone();
    let want = case["config_label"].as_str().unwrap_or("").to_string();
    let trace: Vec<usize> = case["trace"].as_array().map(|a| a.iter().map(|v| v.as_u64().unwrap() as usize).collect()).unwrap_or_default();
    let Some(cfg) = configs.into_iter().find(|c| label(c) == want) else {
        eprintln!("replay: unknown configuration {want}");
        std::process::exit(2);
    };
    let c2 = cfg.clone();
    let (reports, err) = explore::replay(&trace, move || body(&c2));
    if let Some(e) = err {
        eprintln!("MACHINERY: {e}");
        std::process::exit(3);
    }
    println!("replay of {} choices, run twice:", trace.len());
    for r in &reports {
        println!("  outcome: {}  violation: {:?}", r.outcome, r.violation);
    }
    if reports.len() == 2 && (reports[0].outcome != reports[1].outcome || reports[0].violation != reports[1].violation) {
        eprintln!("MACHINERY: the same schedule gave two different observations");
        std::process::exit(3);
    }
    if let Some(r) = reports.first() {
        if let Some((k, d)) = &r.violation {
            ctx.violation(k, json!({"config_label": want, "trace": trace, "what": d}));
        }
    }
}

/// Calls `f` with every sequence of length `len` over 0..base.
pub fn enumerate_seq(base: usize, len: usize, f: &mut dyn FnMut(&[usize])) {
    let mut idx = vec![0usize; len];
    loop {
        f(&idx);
        let mut k = len;
        loop {
            if k == 0 {
                return;
            }
            k -= 1;
            idx[k] += 1;
            if idx[k] < base {
                break;
            }
            idx[k] = 0;
        }
    }
}

fn main() {
    let ctx = Ctx::from_args(&["C28", "C29", "C30", "C32"]);
    match ctx.id.as_str() {
        "C29" => {
            let cfgs = c29::configs(ctx.quick());
            if ctx.replay_case().is_some() {
                let mut all = c29::configs(false);
                all.extend(c29::pool_histories(6));
                replay_generic(&ctx, all, |c| c.label(), |c| c29::body(c));
                ctx.finish("model_checking", "replay of one recorded schedule", false);
            }
            let quick = ctx.quick();
            // quick: bound 1 wherever bound 0 took < 500 schedules, bound 2
            // wherever bound 1 took < 2500; thorough: < 10k, < 100k, and bound 3
            // wherever bound 2 took < 30k.
            let (mb, pb): (u32, &[u64]) = if quick { (2, &[500, 2_500]) } else { (3, &[10_000, 100_000, 30_000]) };
            drive(&ctx, cfgs, |c| c.label(), |c| c.to_json(), mb, pb, 40_000_000, |c| c29::body(c));
            // Histories of pool-level operations (several pools per group,
            // pools shut down on their own, pools started afterwards): every
            // history of <= 5 (thorough 6) operations under every schedule
            // without deviations, and every history of <= 3 (thorough 4)
            // operations with one deviation.
            let (long, short) = if quick { (5, 3) } else { (6, 4) };
            let hist: Vec<c29::Cfg> = c29::pool_histories(long).into_iter().filter(|c| c.n_ops() > short).collect();
            let hist_short = c29::pool_histories(short);
            ctx.set_extra("pool_operation_histories", json!({"max_ops_bound0": long, "max_ops_bound1": short, "histories": hist.len() + hist_short.len()}));
            drive(&ctx, hist, |c| c.label(), |c| c.to_json(), 0, &[], 40_000_000, |c| c29::body(c));
            drive(&ctx, hist_short, |c| c.label(), |c| c.to_json(), 1, &[u64::MAX], 40_000_000, |c| c29::body(c));
            ctx.assume("sequentially consistent interleavings at synchronisation operations (all shared state of thread.rs is behind Mutex/Condvar); virtual time: a wait_timeout expiry is a scheduler choice");
            ctx.finish(
                "model_checking",
                "every schedule (thread interleaving at each lock/unlock/wait/notify/spawn/exit, plus every condvar-timeout firing) with at most k deviations (preemptions or timers landing first), k iterated 0..=bound, of each pool scenario, and of every history of <= 5 (thorough 6) pool-level operations (start pool / shut one pool down / submit, up to three pools per group; k = 0 beyond 3 (thorough 4) operations, k <= 1 up to there), on the unmodified thread.rs; oracle: accepted tasks run exactly once and before await_shutdown returns, rejected never run, post-shutdown submissions rejected, no deadlock/livelock. states = choice points of the schedule tree, transitions = scheduling steps, traces_validated_against_impl = schedules executed on the real code",
                true,
            );
        }
        "C28" => {
            if ctx.replay_case().is_some() {
                replay_generic(&ctx, c28::configs(false), |c| c.label(), |c| c28::body(c));
                ctx.finish("model_checking", "replay of one recorded schedule", false);
            }
            let quick = ctx.quick();
            let (mb, pb): (u32, &[u64]) = if quick { (3, &[2_000, 4_000, 20_000]) } else { (5, &[100_000, 200_000, 400_000, 400_000, 200_000]) };
            drive(&ctx, c28::configs(quick), |c| c.label(), |c| c.to_json(), mb, pb, 40_000_000, |c| c28::body(c));
            ctx.assume("sequentially consistent interleavings at lock operations; the RRL bucket is the only shared mutable state and sits behind a Mutex; virtual clock frozen (all requests within one second)");
            ctx.assume("the property's '16 OS threads' is answered by the small-scope argument: a lost or double-counted update needs two threads on one bucket and one preemption; 2-3 threads x 1-2 requests are explored exhaustively up to the stated deviation bound");
            ctx.finish(
                "model_checking",
                "every schedule with at most k preemptions (k iterated from 0) of T threads x k identical UDP queries of one stream through the mirrored Server with RRL (limit = rate*window in {1,2,3,4}, slip 0/1, table size 1/7); oracle: exactly min(T*k, limit) full answers, the rest dropped (slip 0) or slipped (slip 1). states = choice points, transitions = scheduling steps, traces_validated_against_impl = schedules executed on the real code",
                true,
            );
        }
        "C32" => {
            if ctx.replay_case().is_some() {
                replay_generic(&ctx, c32::configs(false), |c| c.label(), |c| c32::body(c));
                ctx.finish("model_checking", "replay of one recorded schedule", false);
            }
            let quick = ctx.quick();
            let (mb, pb): (u32, &[u64]) = if quick { (3, &[2_000, 4_000, 20_000]) } else { (5, &[100_000, 200_000, 400_000, 400_000, 200_000]) };
            drive(&ctx, c32::configs(quick), |c| c.label(), |c| c.to_json(), mb, pb, 40_000_000, |c| c32::body(c));
            ctx.assume("sequentially consistent interleavings at RwLock operations (catalog and key set are each behind an RwLock<Arc<_>>)");
            ctx.finish(
                "model_checking",
                "every schedule with at most k preemptions (k iterated from 0) of 1-2 plain queriers, 0-2 TSIG-signing queriers and a swapper (set_catalog / set_tsig_keys to generation 2, then its own query) on the mirrored Server; oracle: every response carries one single generation in all sections, requests started after a swap returned see the new data, a signed exchange is verified and signed under one secret. states = choice points, transitions = scheduling steps, traces_validated_against_impl = schedules executed",
                true,
            );
        }
        "C30" => {
            if ctx.replay_case().map(|c| c["config_label"].as_str().map(|l| l.starts_with("accept ")).unwrap_or(false)) == Some(true) {
                replay_generic(&ctx, c30::accept_cases(), |c| c.label(), |c| c30::accept_body(c));
                ctx.finish("model_checking", "replay of one recorded schedule", false);
            }
            c30::run(&ctx);
            if ctx.replay_case().is_none() {
                // The blocking provider's accept loop over a scripted listener:
                // 0 / 1 / 2 permanent workers, lingering or not, 0-3 queued
                // connections; every schedule with at most one deviation.
                let cases = c30::accept_cases();
                ctx.set_extra("accept_loop_cases", json!(cases.len()));
                drive(&ctx, cases, |c| c.label(), |c| c.to_json(), 1, &[40], 40_000_000, |c| c30::accept_body(c));
            }
            ctx.assume("scripted sockets stand in for the kernel: real TCP segmentation, recvmsg ancillary data / local-address selection (unix_udp_localaddr.rs), the Tokio accept loop and Tokio's multi-thread scheduler are not explored");
            ctx.assume("at most one environment deviation (EINTR, timeout, EOF, error, Pending, stall, short/failing/interrupted write, shutdown at a response) per run, on top of the segmentation");
            ctx.finish(
                "model_checking",
                "every batch of <= 3 requests from a 7-entry menu (valid, EDNS, FORMERR-answered, NXDOMAIN, response-less QR / empty / short) x every subset (size <= 2 quick, <= 3 thorough, plus one-octet-at-a-time) of cut points within 3 octets of each length prefix / message boundary x every single environment deviation at every position, for the blocking and the Tokio connection handlers of the mirrored source over scripted sockets; UDP: every batch of <= 3 datagrams x deviations for run_udp_worker / run_udp_receiver; the blocking accept loop (run_tcp_listener) over a scripted listener with 0-3 queued connections x {0,1,2} permanent workers x lingering or not, every schedule without deviations and, where those number fewer than 40, with one deviation. Oracle: output stream equals the concatenation of length-prefixed handle_message results for each request alone, in order, up to the first response-less request (or up to what the deviation allows); each datagram gets at most one reply, to its source from the address it was sent to, no larger than the payload size. states = runs (histories), transitions = socket events",
                true,
            );
        }
        _ => unreachable!(),
    }
}
