//! Runs one harness body under the deviation-bounded scheduler for bounds
//! 0..=max_bound and collects outcomes / violations.

use crate::sched::{PbDfs, Stats};
use serde_json::{json, Value};
use std::collections::BTreeMap;
use std::panic::{catch_unwind, AssertUnwindSafe};
use std::sync::{Arc, Mutex};

thread_local! {
    /// Violations detected after the main thread of an execution returned
    /// (e.g. in the destructor of the harness's event log): (key, description,
    /// trace of the execution).
    static LATE: std::cell::RefCell<Vec<(String, String, Vec<usize>)>> = const { std::cell::RefCell::new(Vec::new()) };
    static CURRENT: std::cell::RefCell<Option<Arc<Mutex<crate::sched::Shared>>>> = const { std::cell::RefCell::new(None) };
}

/// Records a violation found after the body's main thread has returned.
pub fn late_violation(key: &str, desc: String) {
    let trace = CURRENT.with(|c| c.borrow().as_ref().map(|s| s.lock().unwrap().trace.clone()).unwrap_or_default());
    LATE.with(|l| {
        let mut l = l.borrow_mut();
        if l.len() < 8 {
            l.push((key.to_string(), desc, trace));
        }
    });
}

fn take_late() -> Vec<(String, String, Vec<usize>)> {
    LATE.with(|l| std::mem::take(&mut *l.borrow_mut()))
}

/// What a harness body reports for one execution.
#[derive(Default, Debug, Clone)]
pub struct ExecReport {
    /// Outcome class of this execution (vacuity guard).
    pub outcome: String,
    /// Some(description) if the oracle was violated.
    pub violation: Option<(String, String)>, // (key, description)
}

#[derive(Default, Debug)]
pub struct ExploreResult {
    pub per_bound: Vec<(u32, Stats)>,
    pub outcomes: BTreeMap<String, u64>,
    /// (key, description, bound, trace)
    pub violations: Vec<(String, String, u32, Vec<usize>)>,
    pub machinery_error: Option<String>,
    pub capped: bool,
}

fn shuttle_config() -> shuttle::Config {
    let mut cfg = shuttle::Config::default();
    cfg.max_steps = shuttle::MaxSteps::FailAfter(200_000);
    cfg.failure_persistence = shuttle::FailurePersistence::None;
    cfg
}

/// `body` is run once per schedule; it must call `mcshim::reset()` first and
/// must be deterministic apart from scheduling.
///
/// Bounds are iterated 0, 1, 2, ...: bound b+1 is explored only if b <
/// `max_bound` and the exploration at bound b took fewer than
/// `proceed_below[b]` schedules (a deterministic cost rule: the schedule count
/// grows by one to two orders of magnitude per bound). The highest bound
/// completed is reported per configuration.
pub fn explore<F>(max_bound: u32, proceed_below: &[u64], max_executions_per_bound: u64, body: F) -> ExploreResult
where
    F: Fn() -> ExecReport + Send + Sync + 'static,
{
    let body = Arc::new(body);
    let mut res = ExploreResult::default();
    for bound in 0..=max_bound {
        if bound > 0 {
            let prev = res.per_bound.last().map(|(_, s)| s.executions).unwrap_or(0);
            let limit = proceed_below.get(bound as usize - 1).copied().unwrap_or(u64::MAX);
            if prev >= limit {
                break;
            }
        }
        let sched = PbDfs::new(bound).with_max_executions(max_executions_per_bound);
        let shared = sched.shared.clone();
        let outcomes: Arc<Mutex<BTreeMap<String, u64>>> = Default::default();
        let viols: Arc<Mutex<Vec<(String, String, Vec<usize>)>>> = Default::default();
        let (o2, v2, s2, b2) = (outcomes.clone(), viols.clone(), shared.clone(), body.clone());
        let runner = shuttle::Runner::new(sched, shuttle_config());
        CURRENT.with(|c| *c.borrow_mut() = Some(shared.clone()));
        let _ = take_late();
        let r = catch_unwind(AssertUnwindSafe(|| {
            runner.run(move || {
                let rep = b2();
                *o2.lock().unwrap().entry(rep.outcome.clone()).or_insert(0) += 1;
                if let Some((k, d)) = rep.violation {
                    let mut v = v2.lock().unwrap();
                    if v.len() < 8 {
                        v.push((k, d, s2.lock().unwrap().trace.clone()));
                    }
                }
            })
        }));
        let sh = shared.lock().unwrap();
        let stats = sh.stats.clone();
        if let Err(p) = r {
            // A panic inside an execution: deadlock / livelock reported by the
            // runtime, or a panic of the code under test.
            let msg = if let Some(s) = p.downcast_ref::<String>() {
                s.clone()
            } else if let Some(s) = p.downcast_ref::<&str>() {
                s.to_string()
            } else {
                "<panic>".to_string()
            };
            let key = if msg.contains("deadlock") {
                "deadlock"
            } else if msg.contains("exceeded max_steps") || msg.contains("max_steps") {
                "livelock-step-bound"
            } else {
                "panic"
            };
            res.violations.push((key.to_string(), first_lines(&msg), bound, sh.trace.clone()));
        }
        for (k, n) in outcomes.lock().unwrap().iter() {
            *res.outcomes.entry(k.clone()).or_insert(0) += n;
        }
        for (k, d, t) in viols.lock().unwrap().drain(..) {
            res.violations.push((k, d, bound, t));
        }
        for (k, d, t) in take_late() {
            res.violations.push((k, d, bound, t));
        }
        CURRENT.with(|c| *c.borrow_mut() = None);
        if let Some(d) = &stats.diverged {
            res.machinery_error = Some(d.clone());
        }
        if stats.executions >= max_executions_per_bound {
            res.capped = true;
        }
        res.per_bound.push((bound, stats));
        if !res.violations.is_empty() || res.machinery_error.is_some() {
            break; // the first counterexample has the fewest deviations
        }
    }
    res
}

/// Replays one recorded schedule twice; returns the two reports and whether
/// the replay followed the recorded choices.
pub fn replay<F>(trace: &[usize], body: F) -> (Vec<ExecReport>, Option<String>)
where
    F: Fn() -> ExecReport + Send + Sync + 'static,
{
    let body = Arc::new(body);
    let mut reports = Vec::new();
    let mut err = None;
    for _ in 0..2 {
        let sched = PbDfs::replay(trace.to_vec());
        let shared = sched.shared.clone();
        let out: Arc<Mutex<Option<ExecReport>>> = Default::default();
        let (o2, b2) = (out.clone(), body.clone());
        let runner = shuttle::Runner::new(sched, shuttle_config());
        CURRENT.with(|c| *c.borrow_mut() = Some(shared.clone()));
        let _ = take_late();
        let r = catch_unwind(AssertUnwindSafe(|| {
            runner.run(move || {
                *o2.lock().unwrap() = Some(b2());
            })
        }));
        let late = take_late();
        CURRENT.with(|c| *c.borrow_mut() = None);
        if let Err(p) = r {
            let msg = p.downcast_ref::<String>().cloned().or_else(|| p.downcast_ref::<&str>().map(|s| s.to_string())).unwrap_or_default();
            let key = if msg.contains("deadlock") { "deadlock" } else if msg.contains("max_steps") { "livelock-step-bound" } else { "panic" };
            reports.push(ExecReport { outcome: key.to_string(), violation: Some((key.to_string(), first_lines(&msg))) });
        } else if let Some(mut r) = out.lock().unwrap().take() {
            if r.violation.is_none() {
                if let Some((k, d, _)) = late.into_iter().next() {
                    r.violation = Some((k, d));
                }
            }
            reports.push(r);
        }
        let diverged = shared.lock().unwrap().stats.diverged.clone();
        if let Some(d) = diverged {
            err = Some(d);
        }
    }
    (reports, err)
}

fn first_lines(s: &str) -> String {
    s.lines().take(4).collect::<Vec<_>>().join(" | ").chars().take(600).collect()
}

pub fn stats_json(per_bound: &[(u32, Stats)]) -> Value {
    Value::Array(
        per_bound
            .iter()
            .map(|(b, s)| json!({"bound": b, "schedules": s.executions, "steps": s.steps, "choice_points": s.choice_points, "max_depth": s.max_depth, "max_deviations_used": s.max_deviations_used}))
            .collect(),
    )
}
