//! Helpers to build catalogs / servers out of the *mirrored* quandary.

use crate::wire::{self, c, t, wname};
use quandary::class::Class;
use quandary::db::catalog::Entry;
use quandary::db::zone::GluePolicy;
use quandary::db::{HashMapTreeCatalog, HashMapTreeZone};
use quandary::name::Name;
use quandary::rr::{Rdata, Ttl, Type};
use quandary::server::{ReceivedInfo, Response, Server, Transport};
use std::net::IpAddr;
use std::sync::Arc;

pub type Cat = HashMapTreeCatalog<HashMapTreeZone, ()>;

pub fn qname(w: &[u8]) -> Box<Name> {
    Name::try_from_uncompressed_all(w).expect("harness name")
}

fn add(z: &mut HashMapTreeZone, owner: &str, typ: u16, ttl: u32, rd: &[u8]) {
    z.add(&qname(&wname(owner)), Type::from(typ), Class::IN, Ttl::from(ttl), <&Rdata>::try_from(rd).unwrap()).expect("zone add");
}

fn soa(serial: u32) -> Vec<u8> {
    let mut r = wname("ns.t.");
    r.extend_from_slice(&wname("admin.t."));
    for v in [serial, 3600, 600, 86400, 300] {
        r.extend_from_slice(&v.to_be_bytes());
    }
    r
}

/// Zone `t.` of generation `g` (1..=255): the generation is visible in the
/// answer (MX preference), the additional section (last octet of mail.t.'s
/// address), the authority section of negative answers (SOA serial) and plain
/// A answers (last octet).
pub fn gen_zone(g: u8) -> HashMapTreeZone {
    let mut z = HashMapTreeZone::new(qname(&wname("t.")), Class::IN, GluePolicy::Narrow);
    add(&mut z, "t.", t::SOA, 3600, &soa(g as u32));
    add(&mut z, "t.", t::NS, 3600, &wname("ns.t."));
    add(&mut z, "ns.t.", t::A, 3600, &[192, 0, 2, g]);
    let mut mx = vec![0, g];
    mx.extend_from_slice(&wname("mail.t."));
    add(&mut z, "a.t.", t::MX, 60, &mx);
    add(&mut z, "a.t.", t::A, 60, &[192, 0, 2, g]);
    add(&mut z, "mail.t.", t::A, 60, &[192, 0, 2, g]);
    z
}

pub fn gen_catalog(g: u8) -> Cat {
    let mut cat = Cat::new();
    cat.insert(Entry::Loaded(Arc::new(gen_zone(g)), ()));
    cat
}

pub fn handle(server: &Server<Cat>, req: &[u8], src: IpAddr, udp: bool) -> Option<Vec<u8>> {
    let mut buf = vec![0u8; if udp { 4096 } else { 65535 }];
    let info = ReceivedInfo::new(src, if udp { Transport::Udp } else { Transport::Tcp });
    match server.handle_message(req, info, &mut buf) {
        Response::Single(n) => Some(buf[..n].to_vec()),
        Response::None => None,
    }
}

pub fn query(id: u16, qname_text: &str, qtype: u16) -> Vec<u8> {
    wire::simple_query(id, &wname(qname_text), qtype, c::IN)
}
