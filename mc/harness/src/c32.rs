//! C32 — concurrent catalog and key-set swaps never mix snapshots.
//! Generation g of the data is visible in every section of every answer (see
//! srv::gen_zone); key set g maps key `k.` to secret s_g. Queriers run while a
//! swapper replaces catalog and key set (g1 -> g2); every response must be
//! entirely g1 or entirely g2, a request started after set_catalog returned
//! must see g2, and a signed exchange must be verified and signed under one
//! single secret.

use crate::explore::ExecReport;
use crate::reftsig::{self, Alg};
use crate::srv;
use crate::wire::{decode_message, t, wname, Msg, PtrRule};
use quandary::message::tsig::Algorithm;
use quandary::server::{Server, TsigKeyMap};
use serde_json::{json, Value};
use std::sync::atomic::{AtomicBool, Ordering};
use std::sync::{Arc, Mutex};
use std::time::SystemTime;

#[derive(Clone, Debug, PartialEq)]
pub struct Cfg {
    /// Plain queriers: each entry is the list of queries one thread sends:
    /// 'M' = a.t. MX (answer + additional), 'N' = nx.t. A (negative, SOA),
    /// 'A' = a.t. A.
    pub plain: Vec<String>,
    /// Number of TSIG-signing querier threads (one signed MX query each).
    pub signed: usize,
    /// Swapper: 'C' = set_catalog(g2), 'K' = set_tsig_keys(g2), then its own
    /// MX query.
    pub swapper: String,
    /// Key set 1 holds `k.` under HMAC-SHA1 and key set 2 under HMAC-SHA256
    /// (an operator upgrading a key's algorithm together with its secret);
    /// the client signs with the old credentials. Otherwise both sets use
    /// HMAC-SHA256 and differ in the secret only.
    pub alg_change: bool,
    /// The signed queriers' requests carry a time signed outside the fudge
    /// window (answered with a signed BADTIME error).
    pub stale: bool,
}

impl Cfg {
    pub fn label(&self) -> String {
        format!("plain={:?} signed={} swapper={}{}", self.plain, self.signed, self.swapper, if self.alg_change { " alg-change" } else if self.stale { " stale-time" } else { "" })
    }
    pub fn to_json(&self) -> Value {
        json!({"plain_queriers": self.plain, "signed_queriers": self.signed, "swapper_ops": self.swapper, "key_algorithm_changes": self.alg_change, "requests_signed_an_hour_ago": self.stale})
    }
}

pub fn configs(_quick: bool) -> Vec<Cfg> {
    let p = |v: &[&str]| v.iter().map(|s| s.to_string()).collect::<Vec<_>>();
    let mut v = vec![
        Cfg { plain: p(&["M"]), signed: 0, swapper: "C".into(), alg_change: false, stale: false },
        Cfg { plain: p(&["MM"]), signed: 0, swapper: "C".into(), alg_change: false, stale: false },
        Cfg { plain: p(&["N"]), signed: 0, swapper: "C".into(), alg_change: false, stale: false },
        Cfg { plain: p(&["MN"]), signed: 0, swapper: "CK".into(), alg_change: false, stale: false },
        Cfg { plain: p(&["M", "N"]), signed: 0, swapper: "C".into(), alg_change: false, stale: false },
        Cfg { plain: p(&["M", "A"]), signed: 0, swapper: "CK".into(), alg_change: false, stale: false },
        Cfg { plain: p(&[]), signed: 1, swapper: "K".into(), alg_change: false, stale: false },
        Cfg { plain: p(&[]), signed: 1, swapper: "CK".into(), alg_change: false, stale: false },
        Cfg { plain: p(&[]), signed: 1, swapper: "KC".into(), alg_change: false, stale: false },
        Cfg { plain: p(&["M"]), signed: 1, swapper: "CK".into(), alg_change: false, stale: false },
        Cfg { plain: p(&["M"]), signed: 1, swapper: "KC".into(), alg_change: false, stale: false },
        Cfg { plain: p(&[]), signed: 2, swapper: "K".into(), alg_change: false, stale: false },
        Cfg { plain: p(&["MM"]), signed: 1, swapper: "CK".into(), alg_change: false, stale: false },
    ];
    for (signed, swapper) in [(1usize, "K"), (1, "CK"), (1, "KC"), (2, "K")] {
        v.push(Cfg { plain: vec![], signed, swapper: swapper.into(), alg_change: true, stale: false });
        // requests signed an hour ago: the one error response that is itself signed
        v.push(Cfg { plain: vec![], signed, swapper: swapper.into(), alg_change: false, stale: true });
    }
    v
}

const SECRET: [&[u8]; 3] = [b"", b"secret-of-generation-one-0000000", b"secret-of-generation-two-0000000"];

fn alg_of(g: usize, alg_change: bool) -> Alg {
    if alg_change && g == 1 {
        Alg::Sha1
    } else {
        Alg::Sha256
    }
}

fn keys(g: usize, alg_change: bool) -> TsigKeyMap {
    let mut m = TsigKeyMap::new();
    let alg = Algorithm::from_name(&srv::qname(&alg_of(g, alg_change).wire_name())).unwrap();
    m.insert(srv::qname(&wname("k.")), (alg, SECRET[g].to_vec().into_boxed_slice()));
    m
}

/// Generation markers found in a response; None if a section has none.
fn generations(m: &Msg) -> Vec<(String, u8)> {
    let mut v = Vec::new();
    for rr in &m.answers {
        match rr.typ {
            t::MX => v.push(("answer MX preference".to_string(), rr.rdata[1])),
            t::A => v.push(("answer A address".to_string(), rr.rdata[3])),
            _ => {}
        }
    }
    for rr in &m.authority {
        if rr.typ == t::SOA {
            // serial sits 20 octets before the end
            let n = rr.rdata.len();
            v.push(("authority SOA serial".to_string(), rr.rdata[n - 17]));
        }
    }
    for rr in m.additional_data() {
        if rr.typ == t::A {
            v.push(("additional A address".to_string(), rr.rdata[3]));
        }
    }
    v
}

struct Sink {
    violation: Mutex<Option<(String, String)>>,
    outcomes: Mutex<Vec<String>>,
}

impl Sink {
    fn viol(&self, k: &str, d: String) {
        let mut v = self.violation.lock().unwrap();
        if v.is_none() {
            *v = Some((k.to_string(), d));
        }
    }
}

/// Checks one plain response; `must_be_new`: the request started after
/// set_catalog(g2) had returned.
fn check_plain(sink: &Sink, who: &str, resp: Option<Vec<u8>>, must_be_new: bool) {
    let Some(r) = resp else {
        sink.viol("no-response", format!("{who}: no response"));
        return;
    };
    let m = match decode_message(&r, PtrRule::BeforePointer, true) {
        Ok(m) => m,
        Err(e) => {
            sink.viol("undecodable-response", format!("{who}: {e}"));
            return;
        }
    };
    let gs = generations(&m);
    if gs.is_empty() {
        sink.viol("no-generation-marker", format!("{who}: rcode {} with no data", m.header.rcode));
        return;
    }
    let g0 = gs[0].1;
    if gs.iter().any(|(_, g)| *g != g0) {
        sink.viol("mixed-catalog-generations", format!("{who}: response mixes generations: {gs:?}"));
    }
    if !(g0 == 1 || g0 == 2) {
        sink.viol("unknown-generation", format!("{who}: {gs:?}"));
    }
    if must_be_new && g0 != 2 {
        sink.viol("stale-catalog-after-swap-returned", format!("{who}: request started after set_catalog returned but was answered from generation {g0}"));
    }
    sink.outcomes.lock().unwrap().push(format!("{who}:g{g0}{}", if must_be_new { "!" } else { "" }));
}

pub fn body(cfg: &Cfg) -> ExecReport {
    mcshim::reset();
    let server = Server::new(Arc::new(srv::gen_catalog(1)));
    server.set_tsig_keys(Arc::new(keys(1, cfg.alg_change)));
    let server = Arc::new(server);
    let sink = Arc::new(Sink { violation: Mutex::new(None), outcomes: Mutex::new(Vec::new()) });
    // Flags written with std atomics: no scheduling point.
    let catalog_swapped = Arc::new(AtomicBool::new(false));
    let keys_swapped = Arc::new(AtomicBool::new(false));
    let src: std::net::IpAddr = "192.0.2.9".parse().unwrap();
    let mut hs = Vec::new();
    for (ti, script) in cfg.plain.iter().enumerate() {
        let (server, sink, swapped, script) = (server.clone(), sink.clone(), catalog_swapped.clone(), script.clone());
        hs.push(mcshim::thread::spawn(move || {
            for (qi, op) in script.chars().enumerate() {
                let req = match op {
                    'M' => srv::query(qi as u16, "a.t.", t::MX),
                    'N' => srv::query(qi as u16, "nx.t.", t::A),
                    _ => srv::query(qi as u16, "a.t.", t::A),
                };
                let must_be_new = swapped.load(Ordering::SeqCst);
                let resp = srv::handle(&server, &req, src, true);
                check_plain(&sink, &format!("plain{ti}.{qi}{op}"), resp, must_be_new);
            }
        }));
    }
    for si in 0..cfg.signed {
        let (server, sink, kswapped) = (server.clone(), sink.clone(), keys_swapped.clone());
        let alg_change = cfg.alg_change;
        let stale = cfg.stale;
        hs.push(mcshim::thread::spawn(move || {
            let calg = alg_of(1, alg_change);
            let now = SystemTime::now().duration_since(SystemTime::UNIX_EPOCH).unwrap().as_secs() - if stale { 3600 } else { 0 };
            let base = srv::query(0x5100 + si as u16, "a.t.", t::MX);
            let alg_name = calg.wire_name();
            // The client signs with the generation-1 credentials.
            let (req, req_mac) = reftsig::sign_request(&base, &wname("k."), calg, &alg_name, SECRET[1], now, 300, None);
            let keys_new_before = kswapped.load(Ordering::SeqCst);
            let Some(r) = srv::handle(&server, &req, src, true) else {
                sink.viol("no-response", format!("signed{si}: no response"));
                return;
            };
            let m = match decode_message(&r, PtrRule::BeforePointer, true) {
                Ok(m) => m,
                Err(e) => {
                    sink.viol("undecodable-response", format!("signed{si}: {e}"));
                    return;
                }
            };
            let Some(ts) = m.tsig() else {
                sink.viol("signed-request-unsigned-response", format!("signed{si}: response has no TSIG"));
                return;
            };
            let Some(td) = reftsig::parse_tsig_rdata(&ts.rdata) else {
                sink.viol("undecodable-response", format!("signed{si}: bad TSIG RDATA"));
                return;
            };
            if m.header.rcode == 0 && !stale {
                // Verified with s1 => the response must be signed with s1 too.
                let without = &r[..ts.offset];
                let vars = reftsig::TsigVars { key_name: ts.name.clone(), alg_name: td.alg_name.clone(), time_signed: td.time_signed, fudge: td.fudge, error: td.error, other: td.other.clone() };
                let mac1 = reftsig::mac_response(calg, SECRET[1], &req_mac, without, td.original_id, &vars);
                let mac2 = reftsig::mac_response(calg, SECRET[2], &req_mac, without, td.original_id, &vars);
                if td.mac == mac1 {
                    if keys_new_before {
                        sink.viol("stale-keys-after-swap-returned", format!("signed{si}: request started after set_tsig_keys returned but was verified with the old secret"));
                    }
                    let gs = generations(&m);
                    if gs.iter().any(|(_, g)| *g != gs[0].1) {
                        sink.viol("mixed-catalog-generations", format!("signed{si}: {gs:?}"));
                    }
                    sink.outcomes.lock().unwrap().push(format!("signed{si}:ok-s1-g{}", gs.first().map(|g| g.1).unwrap_or(0)));
                } else if td.mac == mac2 {
                    sink.viol("mixed-key-sets", format!("signed{si}: request verified under secret 1 but response signed under secret 2"));
                } else {
                    sink.viol("response-mac-invalid", format!("signed{si}: response MAC verifies under neither secret"));
                }
            } else if stale && m.header.rcode == 9 && td.error == 18 {
                // BADTIME (RFC 8945 §5.2.3): the request's MAC verified, so the
                // response is signed - with the key that verified it.
                let without = &r[..ts.offset];
                let vars = reftsig::TsigVars { key_name: ts.name.clone(), alg_name: td.alg_name.clone(), time_signed: td.time_signed, fudge: td.fudge, error: td.error, other: td.other.clone() };
                let mac1 = reftsig::mac_response(calg, SECRET[1], &req_mac, without, td.original_id, &vars);
                let mac2 = reftsig::mac_response(calg, SECRET[2], &req_mac, without, td.original_id, &vars);
                if td.mac == mac1 {
                    if keys_new_before {
                        sink.viol("stale-keys-after-swap-returned", format!("signed{si}: request started after set_tsig_keys returned but was verified with the old secret"));
                    }
                    if !m.answers.is_empty() {
                        sink.viol("answer-data-with-badtime", format!("signed{si}"));
                    }
                    sink.outcomes.lock().unwrap().push(format!("signed{si}:badtime-s1"));
                } else if td.mac == mac2 {
                    sink.viol("mixed-key-sets", format!("signed{si}: request verified under secret 1 but the BADTIME response is signed under secret 2"));
                } else {
                    sink.viol("response-mac-invalid", format!("signed{si}: BADTIME response MAC verifies under neither secret"));
                }
            } else if alg_change && m.header.rcode == 9 && td.error == 17 && td.mac.is_empty() {
                // BADKEY: key set 2 has no key `k.` for the client's algorithm.
                if !m.answers.is_empty() {
                    sink.viol("answer-data-with-badkey", format!("signed{si}"));
                }
                sink.outcomes.lock().unwrap().push(format!("signed{si}:badkey-set2"));
            } else if alg_change && m.header.rcode == 9 && td.error == 16 {
                // Neither key set alone rejects this signature as BADSIG: set
                // 1 verifies it, set 2 does not know the (key, algorithm) pair.
                sink.viol("mixed-key-sets", format!("signed{si}: BADSIG although key set 1 verifies the request and key set 2 has no such key for this algorithm: algorithm and secret were taken from different key sets"));
            } else if m.header.rcode == 9 && td.error == 16 && td.mac.is_empty() {
                // BADSIG: the server used key set 2 for verification.
                if !m.answers.is_empty() {
                    sink.viol("answer-data-with-badsig", format!("signed{si}"));
                }
                sink.outcomes.lock().unwrap().push(format!("signed{si}:badsig-s2"));
            } else {
                sink.viol("unexpected-signed-outcome", format!("signed{si}: rcode {} tsig error {} mac len {}", m.header.rcode, td.error, td.mac.len()));
            }
        }));
    }
    {
        let (server, sink, cs, ks, ops) = (server.clone(), sink.clone(), catalog_swapped.clone(), keys_swapped.clone(), cfg.swapper.clone());
        let alg_change = cfg.alg_change;
        hs.push(mcshim::thread::spawn(move || {
            for op in ops.chars() {
                match op {
                    'C' => {
                        server.set_catalog(Arc::new(srv::gen_catalog(2)));
                        cs.store(true, Ordering::SeqCst);
                    }
                    _ => {
                        server.set_tsig_keys(Arc::new(keys(2, alg_change)));
                        ks.store(true, Ordering::SeqCst);
                    }
                }
            }
            if ops.contains('C') {
                let resp = srv::handle(&server, &srv::query(0x77, "a.t.", t::MX), src, true);
                check_plain(&sink, "swapper", resp, true);
            }
        }));
    }
    for h in hs {
        h.join().unwrap();
    }
    let mut o = sink.outcomes.lock().unwrap().clone();
    o.sort();
    let violation = sink.violation.lock().unwrap().clone();
    ExecReport { outcome: o.join(" "), violation }
}
