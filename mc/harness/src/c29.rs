//! C29 — worker pools run every accepted task exactly once and shut down
//! cleanly, under every interleaving (incl. condvar timeouts) up to the
//! deviation bound. Subject: the unmodified src/thread.rs (seam mirror).

use crate::explore::{late_violation, ExecReport};
use quandary::thread::ThreadGroup;
use serde_json::{json, Value};
use std::sync::{Arc, Mutex};
use std::time::Duration;

#[derive(Clone, Debug, PartialEq)]
pub enum Scn {
    /// main: n × submit_or_spawn; shut_down; one more submission (must be
    /// rejected); await_shutdown.
    SeqSpawn { n: usize },
    /// main: n × submit (blocking; needs a permanent worker); shut_down; await.
    SeqSubmit { n: usize },
    /// `submitters` extra threads each submit `each` tasks while main shuts the
    /// group down concurrently; main joins them, then await_shutdown.
    Concurrent { submitters: usize, each: usize, blocking: bool },
    /// group-level: n one-shot threads, shut_down, one more start (rejected),
    /// await_shutdown.
    Oneshots { n: usize },
    /// a second thread shuts down while main submits, then main awaits.
    ShutdownFromOther { n: usize },
    /// n respawnable threads whose task returns at once (so each is respawned
    /// after the throttling delay - a timed wait - until shutdown begins);
    /// main shuts down and awaits.
    Respawn { n: usize },
    /// A history of pool-level operations on one group (several pools, pools
    /// shut down on their own, pools started after another one was shut
    /// down), then the group is shut down: every pool still live must be
    /// reached by it, and await_shutdown must return.
    Pools { ops: Vec<PoolOp> },
}

#[derive(Clone, Debug, PartialEq)]
pub enum PoolOp {
    /// start a pool with this many permanent workers
    Start(usize),
    /// `ThreadPool::shut_down` of the k-th pool started
    Shut(usize),
    /// `submit_or_spawn` to the k-th pool started
    Submit(usize),
}

/// Every history of at most `len` pool operations: at most three pools (0 or
/// 1 permanent worker), each shut down at most once, submissions to any pool
/// started so far (live or shut down).
pub fn pool_histories(len: usize) -> Vec<Cfg> {
    fn rec(seq: &mut Vec<PoolOp>, nstart: usize, shut: &mut Vec<bool>, len: usize, out: &mut Vec<Cfg>) {
        if !seq.is_empty() {
            out.push(Cfg { perm: 0, linger_ms: 0, scn: Scn::Pools { ops: seq.clone() }, tiny_linger: false });
        }
        if seq.len() == len {
            return;
        }
        if nstart < 3 {
            for perm in [0usize, 1] {
                seq.push(PoolOp::Start(perm));
                shut.push(false);
                rec(seq, nstart + 1, shut, len, out);
                shut.pop();
                seq.pop();
            }
        }
        for j in 0..nstart {
            if !shut[j] {
                seq.push(PoolOp::Shut(j));
                shut[j] = true;
                rec(seq, nstart, shut, len, out);
                shut[j] = false;
                seq.pop();
            }
            seq.push(PoolOp::Submit(j));
            rec(seq, nstart, shut, len, out);
            seq.pop();
        }
    }
    let mut out = Vec::new();
    rec(&mut Vec::new(), 0, &mut Vec::new(), len, &mut out);
    out
}

#[derive(Clone, Debug, PartialEq)]
pub struct Cfg {
    pub perm: usize,
    pub linger_ms: u64,
    pub scn: Scn,
    /// Second clock model: the linger timeout is 1 ns and every reading of
    /// the clock is 10 ns later than the previous one, so an auxiliary
    /// worker's linger deadline has always passed by the time it looks at it.
    pub tiny_linger: bool,
}

impl Cfg {
    pub fn to_json(&self) -> Value {
        json!({"permanent_workers": self.perm, "linger_ms": self.linger_ms, "linger_1ns_clock_advancing_10ns_per_reading": self.tiny_linger, "scenario": format!("{:?}", self.scn)})
    }
    pub fn n_ops(&self) -> usize {
        match &self.scn {
            Scn::Pools { ops } => ops.len(),
            _ => 0,
        }
    }
    pub fn label(&self) -> String {
        if self.tiny_linger {
            return format!("perm={} linger=1ns(clock +10ns per reading) {:?}", self.perm, self.scn);
        }
        format!("perm={} linger={}ms {:?}", self.perm, self.linger_ms, self.scn)
    }
}

pub fn configs(quick: bool) -> Vec<Cfg> {
    let mut v = Vec::new();
    for perm in [0usize, 1, 2] {
        for linger_ms in [0u64, 5000] {
            let ns: &[usize] = if quick { &[1, 2] } else { &[1, 2, 3] };
            for &n in ns {
                v.push(Cfg { perm, linger_ms, scn: Scn::SeqSpawn { n }, tiny_linger: false });
                if perm >= 1 {
                    v.push(Cfg { perm, linger_ms, scn: Scn::SeqSubmit { n }, tiny_linger: false });
                }
            }
            v.push(Cfg { perm, linger_ms, scn: Scn::Concurrent { submitters: 1, each: 1, blocking: false }, tiny_linger: false });
            v.push(Cfg { perm, linger_ms, scn: Scn::Concurrent { submitters: 1, each: 2, blocking: false }, tiny_linger: false });
            v.push(Cfg { perm, linger_ms, scn: Scn::Concurrent { submitters: 2, each: 1, blocking: false }, tiny_linger: false });
            if perm >= 1 {
                v.push(Cfg { perm, linger_ms, scn: Scn::Concurrent { submitters: 1, each: 2, blocking: true }, tiny_linger: false });
                v.push(Cfg { perm, linger_ms, scn: Scn::Concurrent { submitters: 2, each: 1, blocking: true }, tiny_linger: false });
            }
            v.push(Cfg { perm, linger_ms, scn: Scn::ShutdownFromOther { n: 2 }, tiny_linger: false });
        }
    }
    for n in [1usize, 2] {
        v.push(Cfg { perm: 0, linger_ms: 0, scn: Scn::Oneshots { n }, tiny_linger: false });
        v.push(Cfg { perm: 0, linger_ms: 0, scn: Scn::Respawn { n }, tiny_linger: false });
    }
    // second clock model (see Cfg::tiny_linger)
    for perm in [0usize, 1] {
        for n in [1usize, 2, 3] {
            v.push(Cfg { perm, linger_ms: 0, scn: Scn::SeqSpawn { n }, tiny_linger: true });
        }
        v.push(Cfg { perm, linger_ms: 0, scn: Scn::Concurrent { submitters: 1, each: 2, blocking: false }, tiny_linger: true });
        v.push(Cfg { perm, linger_ms: 0, scn: Scn::Concurrent { submitters: 2, each: 1, blocking: false }, tiny_linger: true });
        v.push(Cfg { perm, linger_ms: 0, scn: Scn::ShutdownFromOther { n: 2 }, tiny_linger: true });
    }
    // blocking submitters with no permanent worker: they can only be released
    // by the shutdown
    v.push(Cfg { perm: 0, linger_ms: 0, scn: Scn::Concurrent { submitters: 1, each: 1, blocking: true }, tiny_linger: false });
    v.push(Cfg { perm: 0, linger_ms: 5000, scn: Scn::Concurrent { submitters: 2, each: 1, blocking: true }, tiny_linger: false });
    v
}

/// Per-execution event log. Uses std primitives only: it must not add
/// scheduling points. Its destructor runs when the last task has released it,
/// i.e. at the very end of the execution, and performs the final checks.
struct Log {
    inner: Mutex<LogInner>,
}

#[derive(Default)]
struct LogInner {
    /// per task: times run
    ran: Vec<u32>,
    /// per task: Some(true) accepted, Some(false) rejected
    accepted: Vec<Option<bool>>,
    await_returned: bool,
    ran_after_await: Vec<usize>,
    respawn_runs: usize,
    label: String,
}

impl Log {
    fn new(n: usize, label: String) -> Arc<Log> {
        Arc::new(Log { inner: Mutex::new(LogInner { ran: vec![0; n], accepted: vec![None; n], label, ..Default::default() }) })
    }
    fn task(self: &Arc<Self>, id: usize) -> impl FnOnce() + Send + 'static {
        let me = self.clone();
        move || {
            let mut g = me.inner.lock().unwrap();
            g.ran[id] += 1;
            if g.await_returned {
                g.ran_after_await.push(id);
            }
        }
    }
    fn set(&self, id: usize, ok: bool) {
        self.inner.lock().unwrap().accepted[id] = Some(ok);
    }
}

impl Drop for Log {
    fn drop(&mut self) {
        let g = self.inner.lock().unwrap();
        for (i, a) in g.accepted.iter().enumerate() {
            match a {
                Some(true) if g.ran[i] != 1 => late_violation("accepted-task-not-run-exactly-once", format!("{}: task {} accepted but ran {} times by the end of the execution", g.label, i, g.ran[i])),
                Some(false) if g.ran[i] != 0 => late_violation("rejected-task-ran", format!("{}: task {} was rejected but ran {} times", g.label, i, g.ran[i])),
                _ => {}
            }
        }
        if !g.ran_after_await.is_empty() {
            late_violation("task-ran-after-await-shutdown", format!("{}: tasks {:?} ran after await_shutdown returned", g.label, g.ran_after_await));
        }
    }
}

/// One execution of the scenario. Returns the main thread's verdict; late
/// checks are in `Log::drop`.
pub fn body(cfg: &Cfg) -> ExecReport {
    mcshim::reset();
    if cfg.tiny_linger {
        mcshim::set_tick_ns(10);
    }
    let group = ThreadGroup::new();
    let linger = if cfg.tiny_linger { Duration::from_nanos(1) } else { Duration::from_millis(cfg.linger_ms) };
    let mut violation: Option<(String, String)> = None;
    let mut viol = |k: &str, d: String| {
        if violation.is_none() {
            violation = Some((k.to_string(), d));
        }
    };
    let n_tasks;
    let log;
    match cfg.scn.clone() {
        Scn::SeqSpawn { n } | Scn::SeqSubmit { n } => {
            let blocking = matches!(cfg.scn, Scn::SeqSubmit { .. });
            n_tasks = n + 1;
            log = Log::new(n_tasks, cfg.label());
            let pool = group.start_pool(None, cfg.perm, linger).expect("start_pool");
            for i in 0..n {
                let r = if blocking { pool.submit(log.task(i)) } else { pool.submit_or_spawn(log.task(i)) };
                log.set(i, r.is_ok());
                if r.is_err() {
                    viol("submission-rejected-before-shutdown", format!("task {i} rejected although shutdown had not begun"));
                }
            }
            group.shut_down();
            let r = if blocking { pool.submit(log.task(n)) } else { pool.submit_or_spawn(log.task(n)) };
            log.set(n, r.is_ok());
            if r.is_ok() {
                viol("accepted-after-shutdown", "a submission made after shut_down() returned was accepted".to_string());
            }
            drop(pool);
            group.await_shutdown();
        }
        Scn::Concurrent { submitters, each, blocking } => {
            n_tasks = submitters * each;
            log = Log::new(n_tasks, cfg.label());
            let pool = group.start_pool(None, cfg.perm, linger).expect("start_pool");
            let mut hs = Vec::new();
            for s in 0..submitters {
                let (pool, log) = (pool.clone(), log.clone());
                hs.push(mcshim::thread::spawn(move || {
                    for k in 0..each {
                        let id = s * each + k;
                        let r = if blocking { pool.submit(log.task(id)) } else { pool.submit_or_spawn(log.task(id)) };
                        log.set(id, r.is_ok());
                    }
                }));
            }
            group.shut_down();
            for h in hs {
                h.join().unwrap();
            }
            drop(pool);
            group.await_shutdown();
        }
        Scn::ShutdownFromOther { n } => {
            n_tasks = n;
            log = Log::new(n_tasks, cfg.label());
            let pool = group.start_pool(None, cfg.perm, linger).expect("start_pool");
            let g2 = group.clone();
            let h = mcshim::thread::spawn(move || g2.shut_down());
            for i in 0..n {
                let r = pool.submit_or_spawn(log.task(i));
                log.set(i, r.is_ok());
            }
            drop(pool);
            group.await_shutdown();
            // (await_shutdown can only return once shutdown has begun)
            h.join().unwrap();
        }
        Scn::Respawn { n } => {
            n_tasks = n;
            log = Log::new(n_tasks, cfg.label());
            for i in 0..n {
                // A respawnable task is Fn: it may legitimately run several
                // times; count runs separately from the exactly-once tasks.
                let runs = log.clone();
                let r = group.start_respawnable(None, move || {
                    let mut g = runs.inner.lock().unwrap();
                    g.respawn_runs += 1;
                    if g.await_returned {
                        g.ran_after_await.push(i);
                    }
                });
                if r.is_err() {
                    viol("respawnable-rejected-before-shutdown", format!("respawnable {i} rejected although shutdown had not begun"));
                }
            }
            group.shut_down();
            if group.start_respawnable(None, || ()).is_ok() {
                viol("accepted-after-shutdown", "a respawnable thread was accepted after shut_down() returned".to_string());
            }
            group.await_shutdown();
        }
        Scn::Pools { ops } => {
            let n_submit = ops.iter().filter(|o| matches!(o, PoolOp::Submit(_))).count();
            let n_pools = ops.iter().filter(|o| matches!(o, PoolOp::Start(_))).count();
            n_tasks = n_submit + n_pools;
            log = Log::new(n_tasks, cfg.label());
            let mut pools = Vec::new();
            let mut shut: Vec<bool> = Vec::new();
            let mut next = 0usize;
            for (step, op) in ops.iter().enumerate() {
                match op {
                    PoolOp::Start(perm) => match group.start_pool(None, *perm, linger) {
                        Ok(p) => {
                            pools.push(p);
                            shut.push(false);
                        }
                        Err(e) => {
                            viol("start_pool-failed-before-shutdown", format!("step {step}: start_pool failed: {e}"));
                            break;
                        }
                    },
                    PoolOp::Shut(j) => {
                        pools[*j].shut_down();
                        shut[*j] = true;
                    }
                    PoolOp::Submit(j) => {
                        let r = pools[*j].submit_or_spawn(log.task(next));
                        log.set(next, r.is_ok());
                        if r.is_ok() && shut[*j] {
                            viol("accepted-after-pool-shutdown", format!("step {step}: pool {j} accepted a task after its shut_down() returned"));
                        }
                        if r.is_err() && !shut[*j] {
                            viol("submission-rejected-before-shutdown", format!("step {step}: pool {j} rejected a task although neither it nor the group was shut down"));
                        }
                        next += 1;
                    }
                }
            }
            for (j, p) in pools.iter().enumerate() {
                if p.is_shutting_down() != shut[j] {
                    viol("pool-shutdown-state-wrong", format!("before the group shutdown pool {j} reports is_shutting_down() = {} but shut_down() was{} called on it", p.is_shutting_down(), if shut[j] { "" } else { " not" }));
                }
            }
            group.shut_down();
            for (j, p) in pools.iter().enumerate() {
                if !p.is_shutting_down() {
                    viol("pool-not-reached-by-group-shutdown", format!("pool {j} is not shutting down after ThreadGroup::shut_down() returned"));
                }
                let r = p.submit_or_spawn(log.task(next));
                log.set(next, r.is_ok());
                if r.is_ok() {
                    viol("accepted-after-shutdown", format!("pool {j} accepted a task after ThreadGroup::shut_down() returned"));
                }
                next += 1;
            }
            drop(pools);
            group.await_shutdown();
        }
        Scn::Oneshots { n } => {
            n_tasks = n + 1;
            log = Log::new(n_tasks, cfg.label());
            for i in 0..n {
                let r = group.start_oneshot(None, log.task(i));
                log.set(i, r.is_ok());
                if r.is_err() {
                    viol("oneshot-rejected-before-shutdown", format!("one-shot {i} rejected although shutdown had not begun"));
                }
            }
            group.shut_down();
            let r = group.start_oneshot(None, log.task(n));
            log.set(n, r.is_ok());
            if r.is_ok() {
                viol("accepted-after-shutdown", "a one-shot thread was accepted after shut_down() returned".to_string());
            }
            group.await_shutdown();
        }
    }
    // await_shutdown has returned on the main thread: every accepted task
    // must have run by now.
    let (accepted, ran_now, summary) = {
        let mut g = log.inner.lock().unwrap();
        g.await_returned = true;
        let accepted: Vec<usize> = g.accepted.iter().enumerate().filter(|(_, a)| **a == Some(true)).map(|(i, _)| i).collect();
        let ran_now: Vec<u32> = g.ran.clone();
        let summary = format!("accepted={} rejected={} ran={}", accepted.len(), g.accepted.iter().filter(|a| **a == Some(false)).count(), ran_now.iter().filter(|r| **r > 0).count());
        (accepted, ran_now, summary)
    };
    for i in &accepted {
        if ran_now[*i] != 1 {
            viol("accepted-task-not-run-by-await-shutdown", format!("task {} was accepted but had run {} times when await_shutdown returned", i, ran_now[*i]));
        }
    }
    if !group.is_shutting_down() {
        viol("await-returned-without-shutdown", "await_shutdown returned although the group is not shutting down".to_string());
    }
    let (started, finished) = mcshim::bodies();
    let respawn_runs = log.inner.lock().unwrap().respawn_runs;
    let outcome = format!("{} timeouts_fired={} threads_started={} unfinished_at_await={} respawn_runs={}", summary, mcshim::timeouts_fired(), started, started - finished, respawn_runs);
    ExecReport { outcome, violation }
}
