//! C28 — rate limiting counts correctly under concurrent requests.
//! T threads each send k identical UDP queries of one response stream through
//! the mirrored Server (RRL bucket behind the shim Mutex, virtual clock
//! frozen => all within one second). For every schedule: exactly
//! min(T*k, rate*window) responses are sent, the rest limited.

use crate::explore::ExecReport;
use crate::srv;
use crate::wire::{decode_message, t, PtrRule};
use quandary::server::{RrlParams, Server};
use serde_json::{json, Value};
use std::sync::{Arc, Mutex};

#[derive(Clone, Debug, PartialEq)]
pub struct Cfg {
    pub threads: usize,
    pub per_thread: usize,
    pub rate: u32,
    pub window: u32,
    pub slip: usize,
    pub size: usize,
    /// Requests sent by the main thread, one after the other, before the
    /// concurrent burst (they take tokens out of the bucket) ...
    pub pre: usize,
    /// ... and whole seconds the virtual clock is advanced between them and
    /// the burst, so that the burst meets a bucket whose refill is due.
    pub gap_s: u64,
    /// Second clock model: every reading of the clock is this many ns later
    /// than the previous one (0: time stands still), so threads that read the
    /// clock in one order and take the bucket lock in the other see times
    /// that disagree with the order of their updates.
    pub tick_ns: u64,
}

impl Cfg {
    pub fn label(&self) -> String {
        let pre = if self.pre > 0 || self.gap_s > 0 { format!(" pre={} gap={}s", self.pre, self.gap_s) } else { String::new() };
        let tick = if self.tick_ns > 0 { format!(" clock+{}ns/read", self.tick_ns) } else { String::new() };
        format!("T={} k={} rate={} window={} slip={} size={}{}{}", self.threads, self.per_thread, self.rate, self.window, self.slip, self.size, pre, tick)
    }
    pub fn to_json(&self) -> Value {
        json!({"threads": self.threads, "requests_per_thread": self.per_thread, "rate": self.rate, "window": self.window, "slip": self.slip, "table_size": self.size, "sequential_requests_before": self.pre, "idle_seconds_before_burst": self.gap_s, "clock_advance_per_reading_ns": self.tick_ns})
    }
}

pub fn configs(quick: bool) -> Vec<Cfg> {
    let mut v = Vec::new();
    for (threads, per_thread) in [(2usize, 1usize), (2, 2), (3, 1), (3, 2)] {
        for (rate, window) in [(1u32, 1u32), (2, 1), (1, 3), (3, 1), (2, 2)] {
            for slip in [0usize, 1] {
                for size in [1usize, 7] {
                    if quick && (size == 7 && !(threads == 2 && per_thread == 2)) {
                        continue;
                    }
                    v.push(Cfg { threads, per_thread, rate, window, slip, size, pre: 0, gap_s: 0, tick_ns: 0 });
                }
            }
        }
    }
    // Second clock model: the clock advances by 1 us with every reading.
    for (threads, per_thread) in [(2usize, 1usize), (2, 2), (3, 1)] {
        for (rate, window) in [(1u32, 1u32), (1, 3), (2, 2)] {
            let cap = (rate * window) as usize;
            for pre in [0usize, cap] {
                v.push(Cfg { threads, per_thread, rate, window, slip: 0, size: 1, pre, gap_s: 0, tick_ns: 1_000 });
            }
        }
    }
    // The burst meets a used bucket whose refill is due: the bucket was
    // exhausted (or nearly) by sequential requests, then idle for 1 or 2 s.
    for (threads, per_thread) in [(2usize, 1usize), (2, 2), (3, 1)] {
        for (rate, window) in [(1u32, 3u32), (2, 2), (1, 2)] {
            let cap = (rate * window) as usize;
            for (pre, gap_s) in [(cap, 1u64), (cap, 2), (cap - 1, 1)] {
                for slip in [0usize, 1] {
                    if quick && slip == 1 && threads == 3 {
                        continue;
                    }
                    v.push(Cfg { threads, per_thread, rate, window, slip, size: 1, pre, gap_s, tick_ns: 0 });
                }
            }
        }
    }
    v
}

#[derive(Clone, Copy, Debug, PartialEq)]
enum Obs {
    Sent,
    Slipped,
    Dropped,
    Bad,
}

pub fn body(cfg: &Cfg) -> ExecReport {
    mcshim::reset();
    mcshim::set_tick_ns(cfg.tick_ns);
    let mut server = Server::new(Arc::new(srv::gen_catalog(1)));
    let mut p = RrlParams::new(cfg.rate, cfg.rate, cfg.rate, cfg.window).unwrap();
    p.set_slip(cfg.slip);
    p.set_size(cfg.size).unwrap();
    server.set_rrl_params(Some(p));
    let server = Arc::new(server);
    let observe = |server: &Server<_>, id: u16| -> Obs {
        let req = srv::query(id, "a.t.", t::A);
        match srv::handle(server, &req, "192.0.2.77".parse().unwrap(), true) {
            None => Obs::Dropped,
            Some(r) => match decode_message(&r, PtrRule::BeforePointer, true) {
                Ok(m) if m.header.tc && m.answers.is_empty() && m.authority.is_empty() && m.additional_data().is_empty() => Obs::Slipped,
                Ok(m) if !m.header.tc && m.answers.len() == 1 && m.header.rcode == 0 => Obs::Sent,
                _ => Obs::Bad,
            },
        }
    };
    // Sequential prefix on the main thread, checked against the bucket rule.
    let cap = (cfg.rate * cfg.window) as usize;
    let mut in_use = 0usize;
    for i in 0..cfg.pre {
        let o = observe(&server, 0x7000 + i as u16);
        let want_sent = in_use < cap;
        if want_sent {
            in_use += 1;
        }
        if (o == Obs::Sent) != want_sent {
            return ExecReport { outcome: "sequential-prefix-wrong".into(), violation: Some(("sequential-prefix-wrong".into(), format!("sequential request {i} of the prefix: observed {o:?}, expected sent={want_sent}"))) };
        }
    }
    if cfg.gap_s > 0 {
        mcshim::advance_ns(cfg.gap_s * 1_000_000_000);
        in_use = in_use.saturating_sub((cfg.rate as u64 * cfg.gap_s) as usize);
    }
    let obs: Arc<Mutex<Vec<Obs>>> = Default::default();
    let mut hs = Vec::new();
    for th in 0..cfg.threads {
        let (server, obs, k) = (server.clone(), obs.clone(), cfg.per_thread);
        hs.push(mcshim::thread::spawn(move || {
            for i in 0..k {
                let req = srv::query((th * 16 + i) as u16, "a.t.", t::A);
                let o = match srv::handle(&server, &req, "192.0.2.77".parse().unwrap(), true) {
                    None => Obs::Dropped,
                    Some(r) => match decode_message(&r, PtrRule::BeforePointer, true) {
                        Ok(m) if m.header.tc && m.answers.is_empty() && m.authority.is_empty() && m.additional_data().is_empty() => Obs::Slipped,
                        Ok(m) if !m.header.tc && m.answers.len() == 1 && m.header.rcode == 0 => Obs::Sent,
                        _ => Obs::Bad,
                    },
                };
                obs.lock().unwrap().push(o);
            }
        }));
    }
    for h in hs {
        h.join().unwrap();
    }
    let obs = obs.lock().unwrap().clone();
    let total = cfg.threads * cfg.per_thread;
    let limit = cap - in_use;
    let sent = obs.iter().filter(|o| **o == Obs::Sent).count();
    let slipped = obs.iter().filter(|o| **o == Obs::Slipped).count();
    let dropped = obs.iter().filter(|o| **o == Obs::Dropped).count();
    let bad = obs.iter().filter(|o| **o == Obs::Bad).count();
    let exp_sent = total.min(limit);
    let exp_limited = total - exp_sent;
    let mut violation = None;
    if bad > 0 {
        violation = Some(("malformed-response".to_string(), format!("{bad} responses were neither a full answer nor a slip")));
    } else if sent != exp_sent {
        violation = Some((
            if sent > exp_sent { "more-sent-than-limit" } else { "fewer-sent-than-limit" }.to_string(),
            format!("{sent} responses of the burst sent, expected min({total} requests, {limit} tokens available) = {exp_sent}"),
        ));
    } else if cfg.slip == 0 && (dropped != exp_limited || slipped != 0) {
        violation = Some(("slip0-not-dropped".to_string(), format!("slip 0: dropped={dropped} slipped={slipped}, expected {exp_limited} dropped")));
    } else if cfg.slip == 1 && (slipped != exp_limited || dropped != 0) {
        violation = Some(("slip1-not-slipped".to_string(), format!("slip 1: dropped={dropped} slipped={slipped}, expected {exp_limited} slipped")));
    }
    ExecReport { outcome: format!("sent={sent} slipped={slipped} dropped={dropped}"), violation }
}
