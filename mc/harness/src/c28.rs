//! C28 — rate limiting counts correctly under concurrent requests.
//! T threads each send k identical UDP queries of one response stream through
//! the mirrored Server (RRL bucket behind the shim Mutex, virtual clock
//! frozen => all within one second). For every schedule: exactly
//! min(T*k, rate*window) responses are sent, the rest limited.

use crate::explore::ExecReport;
use crate::srv;
use crate::wire::{decode_message, t, PtrRule};
use quandary::server::{RrlParams, Server};
use serde_json::{json, Value};
use std::sync::{Arc, Mutex};

#[derive(Clone, Debug, PartialEq)]
pub struct Cfg {
    pub threads: usize,
    pub per_thread: usize,
    pub rate: u32,
    pub window: u32,
    pub slip: usize,
    pub size: usize,
}

impl Cfg {
    pub fn label(&self) -> String {
        format!("T={} k={} rate={} window={} slip={} size={}", self.threads, self.per_thread, self.rate, self.window, self.slip, self.size)
    }
    pub fn to_json(&self) -> Value {
        json!({"threads": self.threads, "requests_per_thread": self.per_thread, "rate": self.rate, "window": self.window, "slip": self.slip, "table_size": self.size})
    }
}

pub fn configs(quick: bool) -> Vec<Cfg> {
    let mut v = Vec::new();
    for (threads, per_thread) in [(2usize, 1usize), (2, 2), (3, 1), (3, 2)] {
        for (rate, window) in [(1u32, 1u32), (2, 1), (1, 3), (3, 1), (2, 2)] {
            for slip in [0usize, 1] {
                for size in [1usize, 7] {
                    if quick && (size == 7 && !(threads == 2 && per_thread == 2)) {
                        continue;
                    }
                    v.push(Cfg { threads, per_thread, rate, window, slip, size });
                }
            }
        }
    }
    v
}

#[derive(Clone, Copy, Debug, PartialEq)]
enum Obs {
    Sent,
    Slipped,
    Dropped,
    Bad,
}

pub fn body(cfg: &Cfg) -> ExecReport {
    mcshim::reset();
    let mut server = Server::new(Arc::new(srv::gen_catalog(1)));
    let mut p = RrlParams::new(cfg.rate, cfg.rate, cfg.rate, cfg.window).unwrap();
    p.set_slip(cfg.slip);
    p.set_size(cfg.size).unwrap();
    server.set_rrl_params(Some(p));
    let server = Arc::new(server);
    let obs: Arc<Mutex<Vec<Obs>>> = Default::default();
    let mut hs = Vec::new();
    for th in 0..cfg.threads {
        let (server, obs, k) = (server.clone(), obs.clone(), cfg.per_thread);
        hs.push(mcshim::thread::spawn(move || {
            for i in 0..k {
                let req = srv::query((th * 16 + i) as u16, "a.t.", t::A);
                let o = match srv::handle(&server, &req, "192.0.2.77".parse().unwrap(), true) {
                    None => Obs::Dropped,
                    Some(r) => match decode_message(&r, PtrRule::BeforePointer, true) {
                        Ok(m) if m.header.tc && m.answers.is_empty() && m.authority.is_empty() && m.additional_data().is_empty() => Obs::Slipped,
                        Ok(m) if !m.header.tc && m.answers.len() == 1 && m.header.rcode == 0 => Obs::Sent,
                        _ => Obs::Bad,
                    },
                };
                obs.lock().unwrap().push(o);
            }
        }));
    }
    for h in hs {
        h.join().unwrap();
    }
    let obs = obs.lock().unwrap().clone();
    let total = cfg.threads * cfg.per_thread;
    let limit = (cfg.rate * cfg.window) as usize;
    let sent = obs.iter().filter(|o| **o == Obs::Sent).count();
    let slipped = obs.iter().filter(|o| **o == Obs::Slipped).count();
    let dropped = obs.iter().filter(|o| **o == Obs::Dropped).count();
    let bad = obs.iter().filter(|o| **o == Obs::Bad).count();
    let exp_sent = total.min(limit);
    let exp_limited = total - exp_sent;
    let mut violation = None;
    if bad > 0 {
        violation = Some(("malformed-response".to_string(), format!("{bad} responses were neither a full answer nor a slip")));
    } else if sent != exp_sent {
        violation = Some((
            if sent > exp_sent { "more-sent-than-limit" } else { "fewer-sent-than-limit" }.to_string(),
            format!("{sent} responses sent, expected min({total}, {limit}) = {exp_sent}"),
        ));
    } else if cfg.slip == 0 && (dropped != exp_limited || slipped != 0) {
        violation = Some(("slip0-not-dropped".to_string(), format!("slip 0: dropped={dropped} slipped={slipped}, expected {exp_limited} dropped")));
    } else if cfg.slip == 1 && (slipped != exp_limited || dropped != 0) {
        violation = Some(("slip1-not-slipped".to_string(), format!("slip 1: dropped={dropped} slipped={slipped}, expected {exp_limited} slipped")));
    }
    ExecReport { outcome: format!("sent={sent} slipped={slipped} dropped={dropped}"), violation }
}
