//! C30 — I/O providers answer each request once with correct framing.
//!
//! The real `handle_tcp_connection` / `run_udp_worker` (blocking provider) and
//! `handle_tcp_connection` / `run_udp_receiver` (Tokio provider, current-thread
//! runtime, paused clock) of the seam mirror run against scripted sockets.
//! Explored exhaustively: request batches x segmentations (cut points near
//! every length prefix / message boundary) x at most one environment
//! deviation (EINTR, timeout, EOF, error, Pending, stall, short / failing /
//! interrupted writes, shutdown at a response).

use crate::runner::{hex, json, unhex, Ctx, Value};
use crate::sched::PbDfs;
use crate::srv;
use crate::wire::{self, c, t, wname};
use mcshim::anet::{self, ARecvEv, AReadEv};
use mcshim::net::{self, ReadEv, RecvEv};
use quandary::io::{verif_blocking, verif_tokio};
use quandary::server::Server;
use quandary::thread::ThreadGroup;
use std::collections::BTreeMap;
use std::net::{IpAddr, SocketAddr};
use std::sync::{Arc, Mutex};
use std::time::Duration;

// ------------------------------------------------------------ requests

/// Request menu. The expected response of each is whatever the server says
/// for that request alone (computed by calling the server directly).
fn request_menu() -> Vec<(&'static str, Vec<u8>)> {
    let valid = srv::query(0x1001, "a.t.", t::A);
    let edns = wire::MsgBuilder::query(0x1002).question(&wname("a.t."), t::MX, c::IN).opt(1232, 0, 0, 0, &[]).build();
    let mut formerr = srv::query(0x1003, "a.t.", t::A);
    formerr.truncate(14); // QDCOUNT=1 but the question is cut: FORMERR
    let mut qr = srv::query(0x1004, "a.t.", t::A);
    qr[2] |= 0x80; // a response: ignored, connection closed
    let nx = srv::query(0x1005, "nx.t.", t::TXT);
    vec![("valid", valid), ("edns-mx", edns), ("formerr", formerr), ("nxdomain", nx), ("qr-set", qr), ("empty", vec![]), ("short", vec![1, 2, 3, 4, 5])]
}

fn expected_tcp(server: &Server<srv::Cat>, reqs: &[Vec<u8>], ip: IpAddr) -> Vec<Vec<u8>> {
    // One entry per response, in order, until a response-less request.
    let mut out = Vec::new();
    for r in reqs {
        match srv::handle(server, r, ip, false) {
            Some(resp) => {
                let mut f = (resp.len() as u16).to_be_bytes().to_vec();
                f.extend_from_slice(&resp);
                out.push(f);
            }
            None => break,
        }
    }
    out
}

fn frame(reqs: &[Vec<u8>]) -> (Vec<u8>, Vec<usize>) {
    let mut s = Vec::new();
    let mut bounds = vec![0];
    for r in reqs {
        s.extend_from_slice(&(r.len() as u16).to_be_bytes());
        s.extend_from_slice(r);
        bounds.push(s.len());
    }
    (s, bounds)
}

/// Complete requests contained in the first `n` octets of the stream.
fn complete_requests(bounds: &[usize], n: usize) -> usize {
    bounds.iter().skip(1).filter(|b| **b <= n).count()
}

// --------------------------------------------------------------- cases

#[derive(Clone, Debug, PartialEq)]
pub enum Dev {
    None,
    /// Environment answer inserted before segment `at` (0..=nseg).
    Read { at: usize, ev: String },
    MaxWrite(usize),
    EintrWrite(usize),
    PendingWrite(usize),
    FailWrite(usize),
    ShutdownAtWrite(usize),
    /// Blocking provider: every read that delivers a segment takes this many
    /// milliseconds of virtual time (a slow client); a message is complete in
    /// time if its segments arrive within READ_MESSAGE_TIMEOUT of its start.
    SlowReads(u64),
}

#[derive(Clone, Debug)]
pub struct TcpCase {
    pub tokio: bool,
    pub batch: Vec<usize>,
    pub cuts: Vec<usize>,
    pub dev: Dev,
}

impl TcpCase {
    fn to_json(&self, menu: &[(&str, Vec<u8>)]) -> Value {
        json!({"kind": "tcp", "provider": if self.tokio { "tokio" } else { "blocking" },
               "batch": self.batch.iter().map(|i| menu[*i].0).collect::<Vec<_>>(),
               "batch_idx": self.batch, "cuts": self.cuts, "dev": format!("{:?}", self.dev),
               "dev_json": dev_json(&self.dev)})
    }
}

fn dev_json(d: &Dev) -> Value {
    match d {
        Dev::None => json!({"t": "none"}),
        Dev::Read { at, ev } => json!({"t": "read", "at": at, "ev": ev}),
        Dev::MaxWrite(n) => json!({"t": "maxwrite", "n": n}),
        Dev::EintrWrite(n) => json!({"t": "eintrwrite", "n": n}),
        Dev::PendingWrite(n) => json!({"t": "pendingwrite", "n": n}),
        Dev::FailWrite(n) => json!({"t": "failwrite", "n": n}),
        Dev::ShutdownAtWrite(n) => json!({"t": "shutdownatwrite", "n": n}),
        Dev::SlowReads(ms) => json!({"t": "slowreads", "n": ms}),
    }
}

fn dev_from_json(v: &Value) -> Dev {
    let n = v["n"].as_u64().unwrap_or(0) as usize;
    match v["t"].as_str().unwrap_or("none") {
        "read" => Dev::Read { at: v["at"].as_u64().unwrap() as usize, ev: v["ev"].as_str().unwrap().to_string() },
        "maxwrite" => Dev::MaxWrite(n),
        "eintrwrite" => Dev::EintrWrite(n),
        "pendingwrite" => Dev::PendingWrite(n),
        "failwrite" => Dev::FailWrite(n),
        "shutdownatwrite" => Dev::ShutdownAtWrite(n),
        "slowreads" => Dev::SlowReads(n as u64),
        _ => Dev::None,
    }
}

fn segments(stream: &[u8], cuts: &[usize]) -> Vec<Vec<u8>> {
    let mut out = Vec::new();
    let mut prev = 0;
    for &c in cuts {
        if c > prev && c < stream.len() {
            out.push(stream[prev..c].to_vec());
            prev = c;
        }
    }
    if prev < stream.len() {
        out.push(stream[prev..].to_vec());
    }
    out
}

struct TcpObs {
    written: Vec<u8>,
    result_ok: bool,
    /// Blocking provider only: a message whose first read did not get the
    /// full read timeout (description), if any.
    short_first_timeout: Option<String>,
}

/// The documented time a client has to send one complete message
/// (io::READ_MESSAGE_TIMEOUT; private in the crate, stated in its docs).
const READ_MESSAGE_TIMEOUT: Duration = Duration::from_secs(5);

/// Every message must start with the full read timeout: the first
/// set_read_timeout of the connection and the first one after each response
/// must be exactly READ_MESSAGE_TIMEOUT ("sent ... within the read timeout").
fn first_timeouts_ok(log: &[(char, usize)], timeouts: &[Option<Duration>]) -> Option<String> {
    let mut expect_full = true;
    let mut msg = 0;
    for (k, i) in log {
        match k {
            'T' => {
                if expect_full {
                    if timeouts[*i] != Some(READ_MESSAGE_TIMEOUT) {
                        return Some(format!("message {msg}: first read timeout is {:?}, not {:?}", timeouts[*i], READ_MESSAGE_TIMEOUT));
                    }
                    expect_full = false;
                } else if timeouts[*i].map_or(true, |t| t > READ_MESSAGE_TIMEOUT) {
                    return Some(format!("message {msg}: read timeout {:?} exceeds {:?}", timeouts[*i], READ_MESSAGE_TIMEOUT));
                }
            }
            'W' => {
                if !expect_full {
                    msg += 1;
                }
                expect_full = true;
            }
            _ => {}
        }
    }
    None
}

/// What the oracle expects for a case: the exact output, or (for failing
/// writes) any prefix of `full` that ends on a write-call boundary.
fn tcp_expected(expected: &[Vec<u8>], bounds: &[usize], segs: &[Vec<u8>], dev: &Dev) -> (Vec<u8>, bool) {
    // returns (exact expected output, must_return_ok)
    let all: Vec<u8> = expected.concat();
    match dev {
        Dev::None | Dev::MaxWrite(_) | Dev::EintrWrite(_) | Dev::PendingWrite(_) => (all, true),
        Dev::Read { at, ev } => match ev.as_str() {
            "interrupted" | "pending" => (all, true),
            _ => {
                // The provider only ever sees the first `at` segments.
                let seen: usize = segs.iter().take(*at).map(|s| s.len()).sum();
                let n = complete_requests(bounds, seen).min(expected.len());
                (expected[..n].concat(), ev != "error")
            }
        },
        Dev::SlowReads(ms) => {
            // Reference: per message a budget of READ_MESSAGE_TIMEOUT from the
            // moment the provider starts on it; every segment costs `ms`; a
            // read that cannot finish within what is left of the budget ends
            // the connection. Data already buffered costs nothing.
            let budget = READ_MESSAGE_TIMEOUT.as_millis() as u64;
            let (mut have, mut seg, mut done) = (0usize, 0usize, 0usize);
            'conn: while done + 1 < bounds.len() {
                let mut t = 0u64;
                while have < bounds[done + 1] {
                    if seg == segs.len() || *ms >= budget - t {
                        break 'conn;
                    }
                    t += ms;
                    have += segs[seg].len();
                    seg += 1;
                }
                done += 1;
            }
            (expected[..done.min(expected.len())].concat(), true)
        }
        Dev::FailWrite(k) => (expected.iter().take(*k).cloned().collect::<Vec<_>>().concat(), *k >= expected.len()),
        Dev::ShutdownAtWrite(k) => (expected.iter().take(*k + 1).cloned().collect::<Vec<_>>().concat(), true),
    }
}

fn run_tcp_blocking(server: &Arc<Server<srv::Cat>>, segs: &[Vec<u8>], dev: &Dev, ip: IpAddr) -> TcpObs {
    let group = ThreadGroup::new();
    let pool = group.start_pool(None, 0, Duration::ZERO).expect("pool");
    let mut evs: Vec<ReadEv> = Vec::new();
    for (i, s) in segs.iter().enumerate() {
        if let Dev::Read { at, ev } = dev {
            if *at == i {
                evs.push(read_ev(ev));
            }
        }
        evs.push(ReadEv::Data(s.clone()));
    }
    if let Dev::Read { at, ev } = dev {
        if *at >= segs.len() {
            evs.push(read_ev(ev));
        }
    }
    let (sock, script) = net::TcpStream::scripted(evs);
    {
        let mut s = script.lock().unwrap();
        match dev {
            Dev::MaxWrite(n) => s.max_write = Some(*n),
            Dev::EintrWrite(n) => s.eintr_write_at = Some(*n),
            Dev::FailWrite(n) => s.fail_write_at = Some(*n),
            Dev::SlowReads(ms) => s.read_latency = Some(Duration::from_millis(*ms)),
            Dev::ShutdownAtWrite(n) => {
                let (g, n) = (group.clone(), *n);
                s.on_write = Some(Box::new(move |i| {
                    if i == n {
                        g.shut_down();
                    }
                }));
            }
            _ => {}
        }
    }
    let r = verif_blocking::tcp(&pool, server, sock, ip);
    group.shut_down();
    group.await_shutdown();
    let sc = script.lock().unwrap();
    let short_first_timeout = first_timeouts_ok(&sc.call_log, &sc.read_timeouts_set);
    TcpObs { written: sc.written.clone(), result_ok: r.is_ok(), short_first_timeout }
}

fn read_ev(ev: &str) -> ReadEv {
    match ev {
        "interrupted" => ReadEv::Interrupted,
        "wouldblock" => ReadEv::WouldBlock,
        "timedout" => ReadEv::TimedOut,
        "eof" => ReadEv::Eof,
        _ => ReadEv::Error,
    }
}

fn run_tcp_tokio(rt: &tokio::runtime::Runtime, server: &Arc<Server<srv::Cat>>, segs: &[Vec<u8>], dev: &Dev, ip: IpAddr) -> TcpObs {
    let mut evs: Vec<AReadEv> = Vec::new();
    let aev = |ev: &str| match ev {
        "pending" => AReadEv::Pending,
        "stall" => AReadEv::Stall,
        "eof" => AReadEv::Eof,
        _ => AReadEv::Error,
    };
    for (i, s) in segs.iter().enumerate() {
        if let Dev::Read { at, ev } = dev {
            if *at == i {
                evs.push(aev(ev));
            }
        }
        evs.push(AReadEv::Data(s.clone()));
    }
    if let Dev::Read { at, ev } = dev {
        if *at >= segs.len() {
            evs.push(aev(ev));
        }
    }
    let (sock, script) = anet::TcpStream::scripted(evs);
    let (controller, handle) = verif_tokio::channels();
    let controller = Arc::new(Mutex::new(Some(controller)));
    {
        let mut s = script.lock().unwrap();
        match dev {
            Dev::MaxWrite(n) => s.max_write = Some(*n),
            Dev::PendingWrite(n) => s.pending_write_at = Some(*n),
            Dev::FailWrite(n) => s.fail_write_at = Some(*n),
            Dev::ShutdownAtWrite(n) => {
                let (c, n) = (controller.clone(), *n);
                s.on_write = Some(Box::new(move |i| {
                    if i == n {
                        // Dropping the controller closes the request channel:
                        // that is how shutdown is signalled.
                        drop(c.lock().unwrap().take());
                    }
                }));
            }
            _ => {}
        }
    }
    let server = server.clone();
    let r = rt.block_on(async move { verif_tokio::tcp(handle, &server, sock, ip).await });
    drop(controller);
    let written = script.lock().unwrap().written.clone();
    TcpObs { written, result_ok: r.is_ok(), short_first_timeout: None }
}

// ----------------------------------------------------------------- UDP

#[derive(Clone, Debug)]
pub struct UdpCase {
    pub tokio: bool,
    pub batch: Vec<usize>,
    /// "none" | "interrupted@i" | "wouldblock@i" | "timedout@i" | "pending@i" |
    /// "eintrsend@k" | "failsend@k" | "pendingsend@k"
    pub dev: String,
}

fn udp_menu() -> Vec<(&'static str, Vec<u8>)> {
    let mut m = request_menu();
    // A datagram longer than the receive buffer (server payload size 1232):
    // the OS cuts it; the provider must answer what it got.
    let mut big = srv::query(0x1009, "a.t.", t::A);
    big.resize(1300, 0);
    m.push(("oversized", big));
    m
}

fn src_of(i: usize) -> SocketAddr {
    SocketAddr::new(IpAddr::from([198, 51, 100, 10 + i as u8]), 5300 + i as u16)
}

fn local_of(i: usize) -> IpAddr {
    IpAddr::from([192, 0, 2, 100 + i as u8])
}

fn parse_dev(d: &str) -> (&str, usize) {
    match d.split_once('@') {
        Some((a, b)) => (a, b.parse().unwrap_or(0)),
        None => (d, 0),
    }
}

type Sent = Vec<(Vec<u8>, SocketAddr, IpAddr)>;

fn udp_expected(server: &Server<srv::Cat>, reqs: &[Vec<u8>], dev: &str) -> Sent {
    let payload = server.edns_udp_payload_size() as usize;
    let (kind, k) = parse_dev(dev);
    let mut out = Vec::new();
    let mut send_idx = 0;
    for (i, r) in reqs.iter().enumerate() {
        let cut = &r[..r.len().min(payload)];
        if let Some(resp) = srv::handle(server, cut, src_of(i).ip(), true) {
            let lost = kind == "failsend" && send_idx == k;
            send_idx += 1;
            if !lost {
                out.push((resp, src_of(i), local_of(i)));
            }
        }
    }
    out
}

fn run_udp_blocking(server: &Arc<Server<srv::Cat>>, reqs: &[Vec<u8>], dev: &str) -> (Sent, bool) {
    let group = ThreadGroup::new();
    let (kind, k) = parse_dev(dev);
    let mut evs = Vec::new();
    for (i, r) in reqs.iter().enumerate() {
        if k == i {
            match kind {
                "interrupted" => evs.push(RecvEv::Interrupted),
                "wouldblock" => evs.push(RecvEv::WouldBlock),
                "timedout" => evs.push(RecvEv::TimedOut),
                _ => {}
            }
        }
        evs.push(RecvEv::Datagram(r.clone(), src_of(i), local_of(i)));
    }
    let (sock, script) = net::UdpSocket::scripted(evs);
    {
        let mut s = script.lock().unwrap();
        match kind {
            "eintrsend" => s.eintr_send_at = Some(k),
            "failsend" => s.fail_send_at = Some(k),
            _ => {}
        }
        let g = group.clone();
        s.on_exhausted = Some(Box::new(move || g.shut_down()));
    }
    let r = verif_blocking::udp(&group, server, sock);
    group.shut_down();
    group.await_shutdown();
    let sent = script.lock().unwrap().sent.clone();
    (sent, r.is_ok())
}

fn run_udp_tokio(rt: &tokio::runtime::Runtime, server: &Arc<Server<srv::Cat>>, reqs: &[Vec<u8>], dev: &str) -> (Sent, bool) {
    let (kind, k) = parse_dev(dev);
    let mut evs = Vec::new();
    for (i, r) in reqs.iter().enumerate() {
        if k == i && kind == "pending" {
            evs.push(ARecvEv::Pending);
        }
        evs.push(ARecvEv::Datagram(r.clone(), src_of(i), local_of(i)));
    }
    let (sock, script) = anet::AsyncUdpSocket::scripted(evs);
    let (controller, handle) = verif_tokio::channels();
    let notify = Arc::new(tokio::sync::Notify::new());
    {
        let mut s = script.lock().unwrap();
        match kind {
            "pendingsend" => s.pending_send_at = Some(k),
            "failsend" => s.fail_send_at = Some(k),
            _ => {}
        }
        let n = notify.clone();
        s.on_exhausted = Some(Box::new(move || n.notify_one()));
    }
    let server = server.clone();
    let ok = rt.block_on(async move {
        let task = tokio::spawn(verif_tokio::udp(handle, server, sock));
        notify.notified().await;
        // All datagrams were consumed: request shutdown and wait until every
        // response task has finished.
        controller.shut_down().await;
        matches!(task.await, Ok(Ok(())))
    });
    let sent = script.lock().unwrap().sent.clone();
    (sent, ok)
}

// -------------------------------------------------------------- driver

#[derive(Default)]
struct ShardOut {
    evals: u64,
    outcomes: BTreeMap<String, (u64, Value)>,
    violations: Vec<(String, Value)>,
    transitions: u64,
}

impl ShardOut {
    fn outcome(&mut self, k: String, sample: impl FnOnce() -> Value) {
        self.outcomes.entry(k).and_modify(|e| e.0 += 1).or_insert_with(|| (1, sample()));
    }
}

fn host_in_shuttle<F: Fn() + Send + Sync + 'static>(f: F) {
    let mut cfg = shuttle::Config::default();
    cfg.max_steps = shuttle::MaxSteps::None;
    cfg.failure_persistence = shuttle::FailurePersistence::None;
    let runner = shuttle::Runner::new(PbDfs::new(0), cfg);
    runner.run(f);
}

fn make_server() -> Arc<Server<srv::Cat>> {
    Arc::new(Server::new(Arc::new(srv::gen_catalog(1))))
}

fn check_tcp_case(server: &Arc<Server<srv::Cat>>, rt: &tokio::runtime::Runtime, menu: &[(&str, Vec<u8>)], case: &TcpCase, out: &mut ShardOut) {
    let ip: IpAddr = "203.0.113.5".parse().unwrap();
    let reqs: Vec<Vec<u8>> = case.batch.iter().map(|i| menu[*i].1.clone()).collect();
    let (stream, bounds) = frame(&reqs);
    let segs = segments(&stream, &case.cuts);
    let expected = expected_tcp(server, &reqs, ip);
    let (exp_out, must_ok) = tcp_expected(&expected, &bounds, &segs, &case.dev);
    let obs = if case.tokio { run_tcp_tokio(rt, server, &segs, &case.dev, ip) } else { run_tcp_blocking(server, &segs, &case.dev, ip) };
    out.evals += 1;
    out.transitions += segs.len() as u64 + 1;
    let devk = match &case.dev {
        Dev::Read { ev, .. } => format!("read-{ev}"),
        d => format!("{d:?}").split('(').next().unwrap().to_string(),
    };
    out.outcome(format!("tcp {} dev={} requests={} responses_written={}", if case.tokio { "tokio" } else { "blocking" }, devk, reqs.len(), count_frames(&obs.written)), || case.to_json(menu));
    if obs.written != exp_out {
        let mut j = case.to_json(menu);
        j["expected_hex"] = json!(hex(&exp_out));
        j["observed_hex"] = json!(hex(&obs.written));
        let key = if obs.written.len() > exp_out.len() { "tcp-extra-or-wrong-output" } else if exp_out.starts_with(&obs.written) { "tcp-missing-output" } else { "tcp-wrong-output" };
        out.violations.push((key.to_string(), j));
    } else if let Some(why) = &obs.short_first_timeout {
        let mut j = case.to_json(menu);
        j["what"] = json!(why);
        out.violations.push(("tcp-message-not-given-full-read-timeout".to_string(), j));
    } else if must_ok && !obs.result_ok {
        let mut j = case.to_json(menu);
        j["what"] = json!("connection handler returned an I/O error although no I/O error was injected");
        out.violations.push(("tcp-unexpected-error".to_string(), j));
    }
}

fn count_frames(b: &[u8]) -> usize {
    let mut i = 0;
    let mut n = 0;
    while i + 2 <= b.len() {
        let l = u16::from_be_bytes([b[i], b[i + 1]]) as usize;
        if i + 2 + l > b.len() {
            break;
        }
        i += 2 + l;
        n += 1;
    }
    n
}

fn check_udp_case(server: &Arc<Server<srv::Cat>>, rt: &tokio::runtime::Runtime, menu: &[(&str, Vec<u8>)], case: &UdpCase, out: &mut ShardOut) {
    let reqs: Vec<Vec<u8>> = case.batch.iter().map(|i| menu[*i].1.clone()).collect();
    let expected = udp_expected(server, &reqs, &case.dev);
    let (mut sent, ok) = if case.tokio { run_udp_tokio(rt, server, &reqs, &case.dev) } else { run_udp_blocking(server, &reqs, &case.dev) };
    out.evals += 1;
    out.transitions += reqs.len() as u64 + 1;
    let j = || json!({"kind": "udp", "provider": if case.tokio { "tokio" } else { "blocking" }, "batch": case.batch.iter().map(|i| menu[*i].0).collect::<Vec<_>>(), "batch_idx": case.batch, "dev": case.dev});
    out.outcome(format!("udp {} dev={} datagrams={} responses={}", if case.tokio { "tokio" } else { "blocking" }, parse_dev(&case.dev).0, reqs.len(), sent.len()), j);
    let payload = server.edns_udp_payload_size() as usize;
    if sent.iter().any(|s| s.0.len() > payload) {
        out.violations.push(("udp-response-larger-than-payload-size".to_string(), j()));
    }
    let mut exp = expected.clone();
    if case.tokio {
        // Responses are sent from independent tasks: compare as multisets.
        sent.sort();
        exp.sort();
    }
    if sent != exp {
        let mut v = j();
        v["expected"] = json!(exp.iter().map(|s| format!("{} -> {} from {}", hex(&s.0), s.1, s.2)).collect::<Vec<_>>());
        v["observed"] = json!(sent.iter().map(|s| format!("{} -> {} from {}", hex(&s.0), s.1, s.2)).collect::<Vec<_>>());
        out.violations.push(("udp-wrong-responses".to_string(), v));
    } else if !ok {
        out.violations.push(("udp-worker-returned-error".to_string(), j()));
    }
}

fn cut_positions(bounds: &[usize], len: usize) -> Vec<usize> {
    let mut p = vec![1usize, 2, 3];
    for b in bounds.iter().skip(1) {
        for d in [-1i64, 0, 1, 2, 3] {
            let x = *b as i64 + d;
            if x > 0 && (x as usize) < len {
                p.push(x as usize);
            }
        }
    }
    // one mid-message cut in the first message
    if bounds.len() > 1 && bounds[1] > 8 {
        p.push(bounds[1] / 2);
    }
    p.sort();
    p.dedup();
    p.retain(|x| *x < len);
    p
}

fn tcp_cases(menu: &[(&str, Vec<u8>)], quick: bool) -> Vec<TcpCase> {
    let mut cases = Vec::new();
    let kinds: Vec<usize> = (0..menu.len()).collect();
    let max_batch = 3;
    let mut batches: Vec<Vec<usize>> = Vec::new();
    for n in 1..=max_batch {
        crate::enumerate_seq(kinds.len(), n, &mut |s| {
            // a response-less request ends the connection: anything after it
            // is still sent (the provider must ignore it)
            batches.push(s.to_vec());
        });
    }
    for tokio in [false, true] {
        for batch in &batches {
            if quick && batch.len() == 3 && !(batch[0] <= 1 && batch[1] <= 4) {
                continue;
            }
            let reqs: Vec<Vec<u8>> = batch.iter().map(|i| menu[*i].1.clone()).collect();
            let (stream, bounds) = frame(&reqs);
            let pos = cut_positions(&bounds, stream.len());
            // all subsets of cut positions up to size k
            let kmax = if quick { 2 } else { 3.min(pos.len()) };
            let mut cutsets: Vec<Vec<usize>> = vec![vec![]];
            let mut frontier: Vec<Vec<usize>> = vec![vec![]];
            for _ in 0..kmax {
                let mut next = Vec::new();
                for s in &frontier {
                    let start = s.last().map(|x| pos.iter().position(|p| p == x).unwrap() + 1).unwrap_or(0);
                    for p in &pos[start..] {
                        let mut t2 = s.clone();
                        t2.push(*p);
                        next.push(t2);
                    }
                }
                cutsets.extend(next.iter().cloned());
                frontier = next;
            }
            // one octet at a time
            cutsets.push((1..stream.len()).collect());
            for cuts in cutsets {
                let nseg = segments(&stream, &cuts).len();
                let mut devs = vec![Dev::None];
                let revs: &[&str] = if tokio { &["pending", "stall", "eof", "error"] } else { &["interrupted", "wouldblock", "timedout", "eof", "error"] };
                for at in 0..=nseg {
                    for ev in revs {
                        devs.push(Dev::Read { at, ev: ev.to_string() });
                    }
                }
                for k in 0..3 {
                    devs.push(Dev::FailWrite(k));
                    devs.push(Dev::ShutdownAtWrite(k));
                    devs.push(if tokio { Dev::PendingWrite(k) } else { Dev::EintrWrite(k) });
                }
                for n in [1usize, 2, 3, 7] {
                    devs.push(Dev::MaxWrite(n));
                }
                if !tokio {
                    // slow clients: 1.5 s and 2.6 s per segment (never equal
                    // to what is left of the 5 s budget)
                    devs.push(Dev::SlowReads(1500));
                    devs.push(Dev::SlowReads(2600));
                }
                for dev in devs {
                    cases.push(TcpCase { tokio, batch: batch.clone(), cuts: cuts.clone(), dev });
                }
            }
        }
    }
    cases
}

fn udp_cases(menu: &[(&str, Vec<u8>)]) -> Vec<UdpCase> {
    let mut cases = Vec::new();
    let mut batches: Vec<Vec<usize>> = Vec::new();
    for n in 1..=3 {
        crate::enumerate_seq(menu.len(), n, &mut |s| batches.push(s.to_vec()));
    }
    for tokio in [false, true] {
        for b in &batches {
            let mut devs = vec!["none".to_string()];
            for i in 0..=b.len() {
                if tokio {
                    devs.push(format!("pending@{i}"));
                } else {
                    for k in ["interrupted", "wouldblock", "timedout"] {
                        devs.push(format!("{k}@{i}"));
                    }
                }
            }
            for k in 0..b.len() {
                devs.push(format!("failsend@{k}"));
                devs.push(format!("{}@{k}", if tokio { "pendingsend" } else { "eintrsend" }));
            }
            for d in devs {
                cases.push(UdpCase { tokio, batch: b.clone(), dev: d });
            }
        }
    }
    cases
}

enum AnyCase {
    Tcp(TcpCase),
    Udp(UdpCase),
}

/// The blocking provider's accept loop: `conns` connections (each a batch of
/// requests in one segment, then EOF) are queued at a scripted listener and
/// handed to a pool with `base` permanent workers ("several worker
/// configurations": 0 = every connection runs on an auxiliary thread).
#[derive(Clone, Debug)]
pub struct AcceptCase {
    pub base: usize,
    pub linger_ms: u64,
    pub conns: Vec<Vec<usize>>,
}

impl AcceptCase {
    pub fn label(&self) -> String {
        format!("accept base={} linger={}ms connections={:?}", self.base, self.linger_ms, self.conns)
    }
    pub fn to_json(&self) -> Value {
        json!({"kind": "accept", "provider": "blocking", "tcp_base_workers": self.base, "linger_ms": self.linger_ms, "connections": self.conns})
    }
}

pub fn accept_cases() -> Vec<AcceptCase> {
    let mut v = Vec::new();
    // batches: valid; edns-mx + nxdomain; formerr; qr-set (no response, closes)
    let batches: [&[usize]; 4] = [&[0], &[1, 3], &[2], &[4]];
    for base in [0usize, 1, 2] {
        for linger_ms in [0u64, 5000] {
            for a in 0..batches.len() {
                v.push(AcceptCase { base, linger_ms, conns: vec![batches[a].to_vec()] });
                for b in 0..batches.len() {
                    v.push(AcceptCase { base, linger_ms, conns: vec![batches[a].to_vec(), batches[b].to_vec()] });
                }
            }
            v.push(AcceptCase { base, linger_ms, conns: vec![vec![0], vec![1, 3], vec![0]] });
            v.push(AcceptCase { base, linger_ms, conns: vec![] });
        }
    }
    v
}

/// One execution of an accept-loop case under the schedule explorer.
pub fn accept_body(case: &AcceptCase) -> crate::explore::ExecReport {
    mcshim::reset();
    let server = make_server();
    let menu = request_menu();
    let mut so = ShardOut::default();
    check_accept_case(&server, &menu, case, &mut so);
    let outcome = so.outcomes.keys().next().cloned().unwrap_or_default();
    let violation = so.violations.into_iter().next().map(|(k, v)| (k, v.to_string()));
    crate::explore::ExecReport { outcome, violation }
}

fn check_accept_case(server: &Arc<Server<srv::Cat>>, menu: &[(&str, Vec<u8>)], case: &AcceptCase, out: &mut ShardOut) {
    let group = ThreadGroup::new();
    let pool = group.start_pool(None, case.base, Duration::from_millis(case.linger_ms)).expect("pool");
    let mut scripts = Vec::new();
    let mut conns = Vec::new();
    for (i, batch) in case.conns.iter().enumerate() {
        let ip: IpAddr = format!("203.0.113.{}", 10 + i).parse().unwrap();
        let reqs: Vec<Vec<u8>> = batch.iter().map(|k| menu[*k].1.clone()).collect();
        let (stream, _) = frame(&reqs);
        let (sock, script) = net::TcpStream::scripted(vec![ReadEv::Data(stream)]);
        conns.push((sock, SocketAddr::new(ip, 40000 + i as u16)));
        scripts.push((script, expected_tcp(server, &reqs, ip).concat()));
    }
    let g2 = group.clone();
    let listener = net::TcpListener::scripted(conns, Box::new(move || g2.shut_down()));
    let r = verif_blocking::listen(&pool, server, &listener);
    group.shut_down();
    drop(pool);
    group.await_shutdown();
    out.evals += 1;
    out.transitions += case.conns.len() as u64 + 1;
    let accepted = *listener.accepted.lock().unwrap();
    out.outcome(format!("accept blocking base={} linger={}ms connections={} accepted={}", case.base, case.linger_ms, case.conns.len(), accepted), || case.to_json());
    if let Err(e) = r {
        let mut j = case.to_json();
        j["what"] = json!(format!("the accept loop returned an I/O error although none was injected: {e}"));
        out.violations.push(("accept-unexpected-error".to_string(), j));
        return;
    }
    if accepted != case.conns.len() {
        let mut j = case.to_json();
        j["what"] = json!(format!("{accepted} of {} queued connections were accepted", case.conns.len()));
        out.violations.push(("accept-connection-not-accepted".to_string(), j));
    }
    for (i, (script, expected)) in scripts.iter().enumerate() {
        let sc = script.lock().unwrap();
        if sc.written != *expected {
            let mut j = case.to_json();
            j["connection"] = json!(i);
            j["expected_hex"] = json!(hex(expected));
            j["observed_hex"] = json!(hex(&sc.written));
            out.violations.push(("accept-connection-wrong-output".to_string(), j));
        }
    }
}

pub fn run(ctx: &Ctx) {
    let menu = request_menu();
    let umenu = udp_menu();
    let mut all: Vec<AnyCase> = Vec::new();
    if let Some(case) = ctx.replay_case() {
        let batch: Vec<usize> = case["batch_idx"].as_array().map(|a| a.iter().map(|v| v.as_u64().unwrap() as usize).collect()).unwrap_or_default();
        let tokio = case["provider"].as_str() == Some("tokio");
        if case["kind"].as_str() == Some("udp") {
            all.push(AnyCase::Udp(UdpCase { tokio, batch, dev: case["dev"].as_str().unwrap().to_string() }));
        } else {
            let cuts = case["cuts"].as_array().unwrap().iter().map(|v| v.as_u64().unwrap() as usize).collect();
            all.push(AnyCase::Tcp(TcpCase { tokio, batch, cuts, dev: dev_from_json(&case["dev_json"]) }));
        }
        let _ = unhex("");
    } else {
        all.extend(tcp_cases(&menu, ctx.quick()).into_iter().map(AnyCase::Tcp));
        all.extend(udp_cases(&umenu).into_iter().map(AnyCase::Udp));
    }
    let n_shards = 64.min(all.len().max(1));
    let all = Arc::new(all);
    let (menu, umenu) = (Arc::new(menu), Arc::new(umenu));
    let totals = Mutex::new((0u64, 0u64));
    ctx.par_shards(n_shards, |l, shard| {
        let out: Arc<Mutex<ShardOut>> = Default::default();
        let (o2, all2, m2, u2) = (out.clone(), all.clone(), menu.clone(), umenu.clone());
        let current: Arc<Mutex<Option<Value>>> = Default::default();
        let cur2 = current.clone();
        let r = std::panic::catch_unwind(std::panic::AssertUnwindSafe(|| {
            host_in_shuttle(move || {
                let server = make_server();
                let rt = tokio::runtime::Builder::new_current_thread().enable_time().start_paused(true).build().expect("tokio runtime");
                let mut so = ShardOut::default();
                let mut i = shard;
                while i < all2.len() {
                    match &all2[i] {
                        AnyCase::Tcp(c) => {
                            *cur2.lock().unwrap() = Some(c.to_json(&m2));
                            check_tcp_case(&server, &rt, &m2, c, &mut so)
                        }
                        AnyCase::Udp(c) => {
                            *cur2.lock().unwrap() = Some(json!({"kind": "udp", "provider": if c.tokio { "tokio" } else { "blocking" }, "batch_idx": c.batch, "dev": c.dev}));
                            check_udp_case(&server, &rt, &u2, c, &mut so)
                        }
                    }
                    i += n_shards;
                }
                *o2.lock().unwrap() = so;
            });
        }));
        if let Err(p) = r {
            let msg = p.downcast_ref::<String>().cloned().or_else(|| p.downcast_ref::<&str>().map(|s| s.to_string())).unwrap_or_default();
            let case = current.lock().unwrap().clone().unwrap_or(Value::Null);
            let mut j = case;
            if j.is_object() {
                j["panic"] = json!(msg.lines().take(3).collect::<Vec<_>>().join(" | "));
            }
            l.violation("panic-or-deadlock-in-provider", j);
        }
        let so = std::mem::take(&mut *out.lock().unwrap());
        l.tick_n(so.evals);
        for (k, (n, s)) in so.outcomes {
            l.outcome_n(&k, n, || s.clone());
        }
        for (k, v) in so.violations {
            l.violation(&k, v);
        }
        let mut t = totals.lock().unwrap();
        t.0 += so.evals;
        t.1 += so.transitions;
    });
    let t = totals.into_inner().unwrap();
    ctx.set_extra("states", json!(t.0));
    ctx.set_extra("transitions", json!(t.1));
    ctx.set_extra("traces_validated_against_impl", json!(t.0));
}
