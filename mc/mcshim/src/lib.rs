//! mcshim: the synchronisation / thread / time primitives that the seam
//! mirror of quandary is compiled against (instead of `std::sync`,
//! `std::thread`, `std::time`), running on shuttle-engine's coroutine runtime
//! under the deviation-bounded scheduler of the harness.
//!
//! * `sync::Mutex`, `sync::RwLock` wrap shuttle's (every acquire is a
//!   scheduling point).
//! * `sync::Condvar` is our own: `wait_timeout` waiters are *not* blocked;
//!   they are registered in `TIMED` with a virtual deadline, stay schedulable,
//!   and being scheduled while un-notified *is* the timeout firing. This makes
//!   "the timeout fires here" a choice of the scheduler (shuttle's and loom's
//!   own condvars never time out).
//! * `time::Instant` is a virtual clock that only advances when a timeout
//!   fires (to that waiter's deadline).
//! * `thread` wraps shuttle's and counts thread bodies started / finished.
//!
//! All state is thread-local: one exploration runs on one OS thread, so
//! several explorations can run in parallel on different OS threads.

use shuttle_engine::runtime::execution::ExecutionState;
use shuttle_engine::runtime::task::TaskId;
use shuttle_engine::runtime::thread as sthread;
use std::cell::RefCell;
use std::collections::BTreeMap;

/// Virtual time at the start of every execution (ns).
pub const T0: u64 = 1_000_000_000_000;

thread_local! {
    /// Tasks currently in a timed wait: task id -> (signalled, deadline).
    pub static TIMED: RefCell<BTreeMap<usize, (bool, u64)>> = RefCell::new(BTreeMap::new());
    /// Virtual clock (ns).
    pub static NOW: RefCell<u64> = const { RefCell::new(T0) };
    /// (thread bodies started, thread bodies finished).
    pub static BODIES: RefCell<(usize, usize)> = const { RefCell::new((0, 0)) };
    /// Number of timeouts that fired in this execution.
    pub static TIMEOUTS_FIRED: RefCell<usize> = const { RefCell::new(0) };
    /// Nanoseconds the virtual clock advances with every reading of it (0:
    /// time stands still unless a timer fires or the harness advances it).
    pub static TICK: RefCell<u64> = const { RefCell::new(0) };
}

/// Must be called at the start of every execution.
pub fn reset() {
    TIMED.with(|t| t.borrow_mut().clear());
    NOW.with(|n| *n.borrow_mut() = T0);
    BODIES.with(|b| *b.borrow_mut() = (0, 0));
    TIMEOUTS_FIRED.with(|b| *b.borrow_mut() = 0);
    TICK.with(|b| *b.borrow_mut() = 0);
}

pub fn now_ns() -> u64 {
    NOW.with(|n| *n.borrow())
}

/// Second clock model: every reading of the clock (`Instant::now()`) is
/// `tick` ns later than the previous one - execution takes time, so a
/// deadline of a few nanoseconds has passed by the time it is looked at.
/// To be called after `reset()`.
pub fn set_tick_ns(tick: u64) {
    TICK.with(|b| *b.borrow_mut() = tick);
}

/// Harness-controlled advance of the virtual clock.
pub fn advance_ns(d: u64) {
    NOW.with(|n| *n.borrow_mut() += d);
}

pub fn bodies() -> (usize, usize) {
    BODIES.with(|b| *b.borrow())
}

pub fn timeouts_fired() -> usize {
    TIMEOUTS_FIRED.with(|b| *b.borrow())
}

/// Snapshot of the timed-wait table for the scheduler.
pub fn timed_snapshot() -> BTreeMap<usize, (bool, u64)> {
    TIMED.with(|t| t.borrow().clone())
}

pub mod sync {
    use super::*;
    use std::ops::{Deref, DerefMut};
    pub use std::sync::{Arc, LockResult, PoisonError, TryLockError, TryLockResult, Weak};
    use std::time::Duration;

    // ------------------------------------------------------------ Mutex

    pub struct Mutex<T> {
        inner: shuttle::sync::Mutex<T>,
    }

    pub struct MutexGuard<'a, T> {
        mutex: &'a Mutex<T>,
        guard: Option<shuttle::sync::MutexGuard<'a, T>>,
    }

    impl<T> Mutex<T> {
        pub fn new(v: T) -> Self {
            Self { inner: shuttle::sync::Mutex::new(v) }
        }
        pub fn lock(&self) -> LockResult<MutexGuard<'_, T>> {
            match self.inner.lock() {
                Ok(g) => Ok(MutexGuard { mutex: self, guard: Some(g) }),
                Err(p) => Err(PoisonError::new(MutexGuard { mutex: self, guard: Some(p.into_inner()) })),
            }
        }
    }

    impl<T> Mutex<T> {
        pub fn try_lock(&self) -> TryLockResult<MutexGuard<'_, T>> {
            match self.inner.try_lock() {
                Ok(g) => Ok(MutexGuard { mutex: self, guard: Some(g) }),
                Err(TryLockError::WouldBlock) => Err(TryLockError::WouldBlock),
                Err(TryLockError::Poisoned(p)) => Err(TryLockError::Poisoned(PoisonError::new(MutexGuard { mutex: self, guard: Some(p.into_inner()) }))),
            }
        }
    }

    impl<T: Default> Default for Mutex<T> {
        fn default() -> Self {
            Self::new(T::default())
        }
    }

    impl<T> Deref for MutexGuard<'_, T> {
        type Target = T;
        fn deref(&self) -> &T {
            self.guard.as_ref().unwrap()
        }
    }

    impl<T> DerefMut for MutexGuard<'_, T> {
        fn deref_mut(&mut self) -> &mut T {
            self.guard.as_mut().unwrap()
        }
    }

    // ----------------------------------------------------------- RwLock

    pub struct RwLock<T> {
        inner: shuttle::sync::RwLock<T>,
    }

    pub struct RwLockReadGuard<'a, T>(shuttle::sync::RwLockReadGuard<'a, T>);
    pub struct RwLockWriteGuard<'a, T>(shuttle::sync::RwLockWriteGuard<'a, T>);

    impl<T> RwLock<T> {
        pub fn new(v: T) -> Self {
            Self { inner: shuttle::sync::RwLock::new(v) }
        }
        pub fn read(&self) -> LockResult<RwLockReadGuard<'_, T>> {
            match self.inner.read() {
                Ok(g) => Ok(RwLockReadGuard(g)),
                Err(p) => Err(PoisonError::new(RwLockReadGuard(p.into_inner()))),
            }
        }
        pub fn write(&self) -> LockResult<RwLockWriteGuard<'_, T>> {
            match self.inner.write() {
                Ok(g) => Ok(RwLockWriteGuard(g)),
                Err(p) => Err(PoisonError::new(RwLockWriteGuard(p.into_inner()))),
            }
        }
    }

    impl<T> RwLock<T> {
        pub fn try_read(&self) -> TryLockResult<RwLockReadGuard<'_, T>> {
            match self.inner.try_read() {
                Ok(g) => Ok(RwLockReadGuard(g)),
                Err(TryLockError::WouldBlock) => Err(TryLockError::WouldBlock),
                Err(TryLockError::Poisoned(p)) => Err(TryLockError::Poisoned(PoisonError::new(RwLockReadGuard(p.into_inner())))),
            }
        }
        pub fn try_write(&self) -> TryLockResult<RwLockWriteGuard<'_, T>> {
            match self.inner.try_write() {
                Ok(g) => Ok(RwLockWriteGuard(g)),
                Err(TryLockError::WouldBlock) => Err(TryLockError::WouldBlock),
                Err(TryLockError::Poisoned(p)) => Err(TryLockError::Poisoned(PoisonError::new(RwLockWriteGuard(p.into_inner())))),
            }
        }
    }

    impl<T> Deref for RwLockReadGuard<'_, T> {
        type Target = T;
        fn deref(&self) -> &T {
            &self.0
        }
    }
    impl<T> Deref for RwLockWriteGuard<'_, T> {
        type Target = T;
        fn deref(&self) -> &T {
            &self.0
        }
    }
    impl<T> DerefMut for RwLockWriteGuard<'_, T> {
        fn deref_mut(&mut self) -> &mut T {
            &mut self.0
        }
    }

    // ---------------------------------------------------------- Condvar

    #[derive(PartialEq, Debug)]
    enum St {
        Waiting,
        /// Eligible for these notify_one epochs (the first scheduled waiter
        /// consumes the epoch; the others lose it).
        Signal(Vec<usize>),
        Broadcast,
    }

    struct W {
        task: TaskId,
        st: St,
        timed: bool,
    }

    pub struct Condvar {
        state: RefCell<(Vec<W>, usize)>,
    }

    // The runtime is single-threaded (coroutines); RefCell is never accessed
    // concurrently.
    unsafe impl Send for Condvar {}
    unsafe impl Sync for Condvar {}

    pub struct WaitTimeoutResult(bool);

    impl WaitTimeoutResult {
        pub fn timed_out(&self) -> bool {
            self.0
        }
    }

    impl Default for Condvar {
        fn default() -> Self {
            Self::new()
        }
    }

    impl Condvar {
        pub fn new() -> Self {
            Self { state: RefCell::new((Vec::new(), 0)) }
        }

        fn wait_impl<'a, T>(&self, mut guard: MutexGuard<'a, T>, timeout: Option<Duration>) -> (MutexGuard<'a, T>, bool) {
            let me = ExecutionState::me();
            let mutex = guard.mutex;
            // Release the mutex, then enqueue as a waiter. shuttle's release has
            // its scheduling point *before* the permit is returned and none
            // after, so release + enqueue is atomic with respect to the
            // scheduler (no lost-wakeup artefact), as a real condvar wait is.
            drop(guard.guard.take());
            drop(guard);
            self.state.borrow_mut().0.push(W { task: me, st: St::Waiting, timed: timeout.is_some() });
            if let Some(d) = timeout {
                let deadline = NOW.with(|n| *n.borrow()).saturating_add(d.as_nanos().min(u64::MAX as u128) as u64);
                TIMED.with(|t| t.borrow_mut().insert(usize::from(me), (false, deadline)));
            } else {
                ExecutionState::with(|s| s.current_mut().block(false));
            }
            sthread::switch();
            // Woken or timed out.
            let mut state = self.state.borrow_mut();
            let idx = state.0.iter().position(|w| w.task == me).expect("waiter record missing");
            let mine = state.0.remove(idx);
            let mut timed_out = false;
            match mine.st {
                St::Broadcast => {}
                St::Signal(mut epochs) => {
                    // Consume the oldest epoch; every other waiter that was
                    // only eligible for it goes back to waiting.
                    let epoch = epochs.remove(0);
                    for w in state.0.iter_mut() {
                        if let St::Signal(es) = &mut w.st {
                            if let Some(i) = es.iter().position(|e| *e == epoch) {
                                es.remove(i);
                                if es.is_empty() {
                                    w.st = St::Waiting;
                                    if w.timed {
                                        TIMED.with(|t| {
                                            if let Some(e) = t.borrow_mut().get_mut(&usize::from(w.task)) {
                                                e.0 = false;
                                            }
                                        });
                                    } else {
                                        ExecutionState::with(|s| s.get_mut(w.task).block(false));
                                    }
                                }
                            }
                        }
                    }
                }
                St::Waiting => {
                    assert!(mine.timed, "untimed waiter scheduled without a notification");
                    timed_out = true;
                }
            }
            drop(state);
            if mine.timed {
                let e = TIMED.with(|t| t.borrow_mut().remove(&usize::from(me))).expect("timed record missing");
                if timed_out {
                    TIMEOUTS_FIRED.with(|c| *c.borrow_mut() += 1);
                    NOW.with(|n| {
                        let mut n = n.borrow_mut();
                        if *n < e.1 {
                            *n = e.1;
                        }
                    });
                }
            }
            let g = match mutex.lock() {
                Ok(g) => g,
                Err(p) => p.into_inner(),
            };
            (g, timed_out)
        }

        pub fn wait<'a, T>(&self, guard: MutexGuard<'a, T>) -> LockResult<MutexGuard<'a, T>> {
            Ok(self.wait_impl(guard, None).0)
        }

        pub fn wait_while<'a, T, F: FnMut(&mut T) -> bool>(&self, mut guard: MutexGuard<'a, T>, mut cond: F) -> LockResult<MutexGuard<'a, T>> {
            while cond(&mut *guard) {
                guard = self.wait(guard)?;
            }
            Ok(guard)
        }

        pub fn wait_timeout<'a, T>(&self, guard: MutexGuard<'a, T>, dur: Duration) -> LockResult<(MutexGuard<'a, T>, WaitTimeoutResult)> {
            let (g, t) = self.wait_impl(guard, Some(dur));
            Ok((g, WaitTimeoutResult(t)))
        }

        pub fn notify_one(&self) {
            sthread::switch();
            let mut state = self.state.borrow_mut();
            let epoch = state.1;
            for w in state.0.iter_mut() {
                match &mut w.st {
                    St::Waiting => w.st = St::Signal(vec![epoch]),
                    St::Signal(es) => es.push(epoch),
                    St::Broadcast => {}
                }
                if w.timed {
                    TIMED.with(|t| {
                        if let Some(e) = t.borrow_mut().get_mut(&usize::from(w.task)) {
                            e.0 = true;
                        }
                    });
                } else {
                    ExecutionState::with(|s| s.get_mut(w.task).unblock());
                }
            }
            state.1 += 1;
        }

        pub fn notify_all(&self) {
            sthread::switch();
            let mut state = self.state.borrow_mut();
            for w in state.0.iter_mut() {
                w.st = St::Broadcast;
                if w.timed {
                    TIMED.with(|t| {
                        if let Some(e) = t.borrow_mut().get_mut(&usize::from(w.task)) {
                            e.0 = true;
                        }
                    });
                } else {
                    ExecutionState::with(|s| s.get_mut(w.task).unblock());
                }
            }
        }
    }
}

pub mod thread {
    pub use shuttle::thread::{current, panicking, yield_now, JoinHandle, Thread, ThreadId};

    pub struct Builder(shuttle::thread::Builder);

    impl Default for Builder {
        fn default() -> Self {
            Self::new()
        }
    }

    impl Builder {
        pub fn new() -> Self {
            Builder(shuttle::thread::Builder::new())
        }
        pub fn name(self, n: String) -> Self {
            Builder(self.0.name(n))
        }
        pub fn spawn<F, T>(self, f: F) -> std::io::Result<JoinHandle<T>>
        where
            F: FnOnce() -> T + Send + 'static,
            T: Send + 'static,
        {
            super::BODIES.with(|b| b.borrow_mut().0 += 1);
            self.0.spawn(move || {
                let r = f();
                super::BODIES.with(|b| b.borrow_mut().1 += 1);
                r
            })
        }
    }

    pub fn spawn<F, T>(f: F) -> JoinHandle<T>
    where
        F: FnOnce() -> T + Send + 'static,
        T: Send + 'static,
    {
        Builder::new().spawn(f).unwrap()
    }
}

pub mod time {
    pub use std::time::Duration;

    /// Virtual monotonic clock.
    #[derive(Clone, Copy, PartialEq, Eq, PartialOrd, Ord, Debug, Hash)]
    pub struct Instant(u64);

    fn ns(d: Duration) -> u64 {
        d.as_nanos().min(u64::MAX as u128) as u64
    }

    impl Instant {
        pub fn now() -> Self {
            let tick = super::TICK.with(|t| *t.borrow());
            if tick > 0 {
                super::advance_ns(tick);
            }
            Instant(super::now_ns())
        }
        pub fn duration_since(&self, earlier: Instant) -> Duration {
            Duration::from_nanos(self.0.saturating_sub(earlier.0))
        }
        pub fn saturating_duration_since(&self, earlier: Instant) -> Duration {
            Duration::from_nanos(self.0.saturating_sub(earlier.0))
        }
        pub fn checked_duration_since(&self, earlier: Instant) -> Option<Duration> {
            self.0.checked_sub(earlier.0).map(Duration::from_nanos)
        }
        pub fn elapsed(&self) -> Duration {
            Instant::now().duration_since(*self)
        }
        pub fn checked_add(&self, d: Duration) -> Option<Instant> {
            self.0.checked_add(ns(d)).map(Instant)
        }
        pub fn checked_sub(&self, d: Duration) -> Option<Instant> {
            self.0.checked_sub(ns(d)).map(Instant)
        }
    }

    impl std::ops::Add<Duration> for Instant {
        type Output = Instant;
        fn add(self, d: Duration) -> Instant {
            Instant(self.0.checked_add(ns(d)).expect("virtual Instant overflow"))
        }
    }

    impl std::ops::Sub<Duration> for Instant {
        type Output = Instant;
        fn sub(self, d: Duration) -> Instant {
            Instant(self.0.checked_sub(ns(d)).expect("virtual Instant underflow"))
        }
    }

    impl std::ops::AddAssign<Duration> for Instant {
        fn add_assign(&mut self, d: Duration) {
            *self = *self + d;
        }
    }

    impl std::ops::SubAssign<Duration> for Instant {
        fn sub_assign(&mut self, d: Duration) {
            *self = *self - d;
        }
    }

    impl std::ops::Sub<Instant> for Instant {
        type Output = Duration;
        fn sub(self, o: Instant) -> Duration {
            self.duration_since(o)
        }
    }
}

pub mod anet;
pub mod net;
