//! Scripted sockets for the Tokio I/O provider (C30).

use std::collections::VecDeque;
use std::io;
use std::net::{IpAddr, SocketAddr};
use std::pin::Pin;
use std::sync::{Arc, Mutex};
use std::task::{Context, Poll};
use tokio::io::{AsyncRead, AsyncWrite, ReadBuf};

#[derive(Clone, Debug, PartialEq, Eq)]
pub enum AReadEv {
    Data(Vec<u8>),
    /// Return Pending once (waking the task immediately), then go on.
    Pending,
    /// Never become ready again (the provider's read timeout must end the
    /// connection; Tokio's clock is paused and auto-advances).
    Stall,
    Eof,
    Error,
}

#[derive(Default)]
pub struct ATcpScript {
    pub reads: VecDeque<AReadEv>,
    pub written: Vec<u8>,
    pub write_calls: usize,
    pub max_write: Option<usize>,
    pub pending_write_at: Option<usize>,
    pub fail_write_at: Option<usize>,
    pub on_write: Option<Box<dyn FnMut(usize) + Send>>,
    pub shutdown_called: bool,
}

pub struct TcpStream {
    pub script: Arc<Mutex<ATcpScript>>,
}

impl TcpStream {
    pub fn scripted(reads: Vec<AReadEv>) -> (TcpStream, Arc<Mutex<ATcpScript>>) {
        let script = Arc::new(Mutex::new(ATcpScript { reads: reads.into(), ..Default::default() }));
        (TcpStream { script: script.clone() }, script)
    }
}

impl AsyncRead for TcpStream {
    fn poll_read(self: Pin<&mut Self>, cx: &mut Context<'_>, buf: &mut ReadBuf<'_>) -> Poll<io::Result<()>> {
        let mut s = self.script.lock().unwrap();
        if buf.remaining() == 0 {
            return Poll::Ready(Ok(()));
        }
        match s.reads.pop_front() {
            None | Some(AReadEv::Eof) => Poll::Ready(Ok(())),
            Some(AReadEv::Data(d)) => {
                let n = d.len().min(buf.remaining());
                buf.put_slice(&d[..n]);
                if n < d.len() {
                    s.reads.push_front(AReadEv::Data(d[n..].to_vec()));
                }
                Poll::Ready(Ok(()))
            }
            Some(AReadEv::Pending) => {
                cx.waker().wake_by_ref();
                Poll::Pending
            }
            Some(AReadEv::Stall) => {
                s.reads.push_front(AReadEv::Stall);
                Poll::Pending
            }
            Some(AReadEv::Error) => Poll::Ready(Err(io::Error::new(io::ErrorKind::ConnectionReset, "scripted error"))),
        }
    }
}

impl AsyncWrite for TcpStream {
    fn poll_write(self: Pin<&mut Self>, cx: &mut Context<'_>, buf: &[u8]) -> Poll<io::Result<usize>> {
        let idx;
        let mut hook;
        {
            let mut s = self.script.lock().unwrap();
            idx = s.write_calls;
            s.write_calls += 1;
            hook = s.on_write.take();
        }
        if let Some(h) = hook.as_mut() {
            h(idx);
        }
        let mut s = self.script.lock().unwrap();
        if s.on_write.is_none() {
            s.on_write = hook;
        }
        if s.pending_write_at == Some(idx) {
            cx.waker().wake_by_ref();
            return Poll::Pending;
        }
        if s.fail_write_at == Some(idx) {
            return Poll::Ready(Err(io::Error::new(io::ErrorKind::BrokenPipe, "scripted write error")));
        }
        let n = s.max_write.map_or(buf.len(), |m| m.min(buf.len()));
        s.written.extend_from_slice(&buf[..n]);
        Poll::Ready(Ok(n))
    }
    fn poll_flush(self: Pin<&mut Self>, _cx: &mut Context<'_>) -> Poll<io::Result<()>> {
        Poll::Ready(Ok(()))
    }
    fn poll_shutdown(self: Pin<&mut Self>, _cx: &mut Context<'_>) -> Poll<io::Result<()>> {
        self.script.lock().unwrap().shutdown_called = true;
        Poll::Ready(Ok(()))
    }
}

/// Listener stub (the accept loop is outside what C30 explores).
pub struct TcpListener;

impl TcpListener {
    pub async fn bind(_addr: SocketAddr) -> io::Result<TcpListener> {
        Err(io::Error::new(io::ErrorKind::Unsupported, "scripted sockets cannot be bound"))
    }
    pub async fn accept(&self) -> io::Result<(TcpStream, SocketAddr)> {
        std::future::pending().await
    }
}

// ---- UDP ----

#[derive(Clone, Debug, PartialEq, Eq)]
pub enum ARecvEv {
    Datagram(Vec<u8>, SocketAddr, IpAddr),
    Pending,
    Error,
}

#[derive(Default)]
pub struct AUdpScript {
    pub recvs: VecDeque<ARecvEv>,
    pub sent: Vec<(Vec<u8>, SocketAddr, IpAddr)>,
    pub send_calls: usize,
    pub pending_send_at: Option<usize>,
    pub fail_send_at: Option<usize>,
    /// Called once when the script is exhausted (the harness requests
    /// shutdown there).
    pub on_exhausted: Option<Box<dyn FnMut() + Send>>,
}

#[derive(Clone)]
pub struct AsyncUdpSocket {
    pub script: Arc<Mutex<AUdpScript>>,
}

impl AsyncUdpSocket {
    pub fn scripted(recvs: Vec<ARecvEv>) -> (AsyncUdpSocket, Arc<Mutex<AUdpScript>>) {
        let script = Arc::new(Mutex::new(AUdpScript { recvs: recvs.into(), ..Default::default() }));
        (AsyncUdpSocket { script: script.clone() }, script)
    }
}

pub trait AsyncUdpSocketApi: Clone + Sized {
    fn bind(addr: SocketAddr) -> io::Result<Self>;
    fn poll_recv(&mut self, cx: &mut Context<'_>, buf: &mut [u8]) -> Poll<io::Result<(usize, SocketAddr, IpAddr)>>;
    fn poll_send(&mut self, cx: &mut Context<'_>, buf: &[u8], dest: SocketAddr, src: IpAddr) -> Poll<io::Result<usize>>;
    fn recv<'a>(&'a mut self, buf: &'a mut [u8]) -> RecvFut<'a, Self> {
        RecvFut { socket: self, buf }
    }
    fn send<'a>(&'a mut self, buf: &'a [u8], dest: SocketAddr, src: IpAddr) -> SendFut<'a, Self> {
        SendFut { socket: self, buf, dest, src }
    }
}

pub struct RecvFut<'a, S> {
    socket: &'a mut S,
    buf: &'a mut [u8],
}

impl<S: AsyncUdpSocketApi> std::future::Future for RecvFut<'_, S> {
    type Output = io::Result<(usize, SocketAddr, IpAddr)>;
    fn poll(self: Pin<&mut Self>, cx: &mut Context<'_>) -> Poll<Self::Output> {
        let this = self.get_mut();
        this.socket.poll_recv(cx, this.buf)
    }
}

pub struct SendFut<'a, S> {
    socket: &'a mut S,
    buf: &'a [u8],
    dest: SocketAddr,
    src: IpAddr,
}

impl<S: AsyncUdpSocketApi> std::future::Future for SendFut<'_, S> {
    type Output = io::Result<usize>;
    fn poll(self: Pin<&mut Self>, cx: &mut Context<'_>) -> Poll<Self::Output> {
        let this = self.get_mut();
        this.socket.poll_send(cx, this.buf, this.dest, this.src)
    }
}

impl AsyncUdpSocketApi for AsyncUdpSocket {
    fn bind(_addr: SocketAddr) -> io::Result<Self> {
        Err(io::Error::new(io::ErrorKind::Unsupported, "scripted sockets cannot be bound"))
    }
    fn poll_recv(&mut self, cx: &mut Context<'_>, buf: &mut [u8]) -> Poll<io::Result<(usize, SocketAddr, IpAddr)>> {
        let ev = self.script.lock().unwrap().recvs.pop_front();
        match ev {
            None => {
                let hook = self.script.lock().unwrap().on_exhausted.take();
                if let Some(mut h) = hook {
                    h();
                }
                // Stay pending; the shutdown request ends the receiver.
                let _ = cx;
                Poll::Pending
            }
            Some(ARecvEv::Datagram(d, src, local)) => {
                let n = d.len().min(buf.len());
                buf[..n].copy_from_slice(&d[..n]);
                Poll::Ready(Ok((n, src, local)))
            }
            Some(ARecvEv::Pending) => {
                cx.waker().wake_by_ref();
                Poll::Pending
            }
            Some(ARecvEv::Error) => Poll::Ready(Err(io::Error::new(io::ErrorKind::Other, "scripted recv error"))),
        }
    }
    fn poll_send(&mut self, cx: &mut Context<'_>, buf: &[u8], dest: SocketAddr, src: IpAddr) -> Poll<io::Result<usize>> {
        let mut s = self.script.lock().unwrap();
        let idx = s.send_calls;
        s.send_calls += 1;
        if s.pending_send_at == Some(idx) {
            cx.waker().wake_by_ref();
            return Poll::Pending;
        }
        if s.fail_send_at == Some(idx) {
            return Poll::Ready(Err(io::Error::new(io::ErrorKind::PermissionDenied, "scripted send error")));
        }
        s.sent.push((buf.to_vec(), dest, src));
        Poll::Ready(Ok(buf.len()))
    }
}
