//! Scripted sockets for the blocking I/O provider (C30): the harness decides
//! every environment answer (segment boundaries, EINTR, timeouts, EOF, errors,
//! short writes) and records everything the provider writes.

use std::collections::VecDeque;
use std::io::{self, Read, Write};
use std::net::{IpAddr, SocketAddr};
use std::sync::{Arc, Mutex};
use std::time::Duration;

#[derive(Clone, Debug, PartialEq, Eq)]
pub enum ReadEv {
    Data(Vec<u8>),
    Interrupted,
    WouldBlock,
    TimedOut,
    Eof,
    Error,
}

#[derive(Default)]
pub struct TcpScript {
    pub reads: VecDeque<ReadEv>,
    pub written: Vec<u8>,
    pub write_calls: usize,
    pub read_calls: usize,
    /// Largest number of octets a single write() accepts (short writes).
    pub max_write: Option<usize>,
    /// Fail the n-th write call (0-based) with an error.
    pub fail_write_at: Option<usize>,
    /// Interrupt (EINTR) the n-th write call once.
    pub eintr_write_at: Option<usize>,
    /// Called with the index of each write() call, before it is performed.
    pub on_write: Option<Box<dyn FnMut(usize) + Send>>,
    pub read_timeouts_set: Vec<Option<Duration>>,
    pub zero_timeout_set: bool,
    /// Virtual time every read that delivers data takes before it returns
    /// (slow client). A read whose latency reaches the timeout in force
    /// returns EWOULDBLOCK after that timeout instead, like a socket with
    /// SO_RCVTIMEO.
    pub read_latency: Option<Duration>,
    /// Order of the calls made on the stream: 'T' set_read_timeout (index into
    /// `read_timeouts_set`), 'R' read, 'W' write.
    pub call_log: Vec<(char, usize)>,
}

#[derive(Clone)]
pub struct TcpStream {
    pub script: Arc<Mutex<TcpScript>>,
    /// Set by a scripted listener: released when the last clone of the
    /// accepted stream is dropped (the connection handler has returned).
    live: Option<Arc<LiveToken>>,
}

/// Count of accepted connections whose handler has not returned yet (shim
/// primitives: waiting for it is visible to the scheduler).
type Live = Arc<(crate::sync::Mutex<usize>, crate::sync::Condvar)>;

pub struct LiveToken(Live);

impl Drop for LiveToken {
    fn drop(&mut self) {
        let (m, c) = &*self.0;
        *m.lock().unwrap() -= 1;
        c.notify_all();
    }
}

impl TcpStream {
    pub fn scripted(reads: Vec<ReadEv>) -> (TcpStream, Arc<Mutex<TcpScript>>) {
        let script = Arc::new(Mutex::new(TcpScript { reads: reads.into(), ..Default::default() }));
        (TcpStream { script: script.clone(), live: None }, script)
    }
    pub fn set_nonblocking(&self, _nonblocking: bool) -> io::Result<()> {
        Ok(())
    }
    pub fn set_read_timeout(&self, t: Option<Duration>) -> io::Result<()> {
        let mut s = self.script.lock().unwrap();
        let i = s.read_timeouts_set.len();
        s.call_log.push(('T', i));
        s.read_timeouts_set.push(t);
        if t == Some(Duration::ZERO) {
            // std::net::TcpStream rejects a zero timeout.
            s.zero_timeout_set = true;
            return Err(io::Error::new(io::ErrorKind::InvalidInput, "cannot set a 0 duration timeout"));
        }
        Ok(())
    }
}

impl Read for TcpStream {
    fn read(&mut self, buf: &mut [u8]) -> io::Result<usize> {
        let mut s = self.script.lock().unwrap();
        let rc = s.read_calls;
        s.call_log.push(('R', rc));
        s.read_calls += 1;
        if buf.is_empty() {
            return Ok(0);
        }
        if let (Some(lat), Some(ReadEv::Data(_))) = (s.read_latency, s.reads.front()) {
            match s.read_timeouts_set.last().copied().flatten() {
                Some(t) if lat >= t => {
                    crate::advance_ns(t.as_nanos() as u64);
                    return Err(io::Error::new(io::ErrorKind::WouldBlock, "scripted slow client: read timed out"));
                }
                _ => crate::advance_ns(lat.as_nanos() as u64),
            }
        }
        match s.reads.pop_front() {
            None | Some(ReadEv::Eof) => Ok(0),
            Some(ReadEv::Data(d)) => {
                let n = d.len().min(buf.len());
                buf[..n].copy_from_slice(&d[..n]);
                if n < d.len() {
                    s.reads.push_front(ReadEv::Data(d[n..].to_vec()));
                }
                Ok(n)
            }
            Some(ReadEv::Interrupted) => Err(io::Error::new(io::ErrorKind::Interrupted, "scripted EINTR")),
            Some(ReadEv::WouldBlock) => Err(io::Error::new(io::ErrorKind::WouldBlock, "scripted timeout (EWOULDBLOCK)")),
            Some(ReadEv::TimedOut) => Err(io::Error::new(io::ErrorKind::TimedOut, "scripted timeout")),
            Some(ReadEv::Error) => Err(io::Error::new(io::ErrorKind::ConnectionReset, "scripted error")),
        }
    }
}

impl Write for TcpStream {
    fn write(&mut self, buf: &[u8]) -> io::Result<usize> {
        let idx;
        let mut hook;
        {
            let mut s = self.script.lock().unwrap();
            idx = s.write_calls;
            s.call_log.push(('W', idx));
            s.write_calls += 1;
            hook = s.on_write.take();
        }
        if let Some(h) = hook.as_mut() {
            h(idx);
        }
        let mut s = self.script.lock().unwrap();
        if s.on_write.is_none() {
            s.on_write = hook;
        }
        if s.eintr_write_at == Some(idx) {
            return Err(io::Error::new(io::ErrorKind::Interrupted, "scripted EINTR on write"));
        }
        if s.fail_write_at == Some(idx) {
            return Err(io::Error::new(io::ErrorKind::BrokenPipe, "scripted write error"));
        }
        let n = s.max_write.map_or(buf.len(), |m| m.min(buf.len()));
        s.written.extend_from_slice(&buf[..n]);
        Ok(n)
    }
    fn flush(&mut self) -> io::Result<()> {
        Ok(())
    }
}

// ---- scripted listener ----

pub trait TcpListenerApi: Sized {
    const POLL_ACCEPT_WORKS: bool;
    fn bind(addr: SocketAddr) -> io::Result<Self>;
    fn set_nonblocking(&self, nonblocking: bool) -> io::Result<()>;
    fn poll_accept(&self, timeout: Duration) -> io::Result<bool>;
    fn accept(&self) -> io::Result<(TcpStream, SocketAddr)>;
}

/// A listener with a scripted queue of incoming connections. Once the queue
/// is empty, `poll_accept` waits until every accepted connection's handler
/// has returned, then calls `on_idle` (the harness shuts the thread group
/// down there, which ends the accept loop) and reports "nothing to accept".
pub struct TcpListener {
    pending: Mutex<VecDeque<(TcpStream, SocketAddr)>>,
    live: Live,
    on_idle: Mutex<Option<Box<dyn FnMut() + Send>>>,
    pub accepted: Mutex<usize>,
}

impl TcpListener {
    pub fn scripted(conns: Vec<(TcpStream, SocketAddr)>, on_idle: Box<dyn FnMut() + Send>) -> TcpListener {
        TcpListener {
            pending: Mutex::new(conns.into()),
            live: Arc::new((crate::sync::Mutex::new(0), crate::sync::Condvar::new())),
            on_idle: Mutex::new(Some(on_idle)),
            accepted: Mutex::new(0),
        }
    }
}

impl TcpListenerApi for TcpListener {
    const POLL_ACCEPT_WORKS: bool = true;
    fn bind(_addr: SocketAddr) -> io::Result<Self> {
        Err(io::Error::new(io::ErrorKind::Unsupported, "scripted sockets cannot be bound"))
    }
    fn set_nonblocking(&self, _nonblocking: bool) -> io::Result<()> {
        Ok(())
    }
    fn poll_accept(&self, _timeout: Duration) -> io::Result<bool> {
        if !self.pending.lock().unwrap().is_empty() {
            return Ok(true);
        }
        {
            let (m, c) = &*self.live;
            let mut n = m.lock().unwrap();
            while *n > 0 {
                n = c.wait(n).unwrap();
            }
        }
        let hook = self.on_idle.lock().unwrap().take();
        if let Some(mut h) = hook {
            h();
            *self.on_idle.lock().unwrap() = Some(h);
        }
        Ok(false)
    }
    fn accept(&self) -> io::Result<(TcpStream, SocketAddr)> {
        let next = self.pending.lock().unwrap().pop_front();
        match next {
            Some((mut s, a)) => {
                *self.live.0.lock().unwrap() += 1;
                s.live = Some(Arc::new(LiveToken(self.live.clone())));
                *self.accepted.lock().unwrap() += 1;
                Ok((s, a))
            }
            None => Err(io::Error::new(io::ErrorKind::WouldBlock, "no scripted connections")),
        }
    }
}

// ---- UDP ----

#[derive(Clone, Debug, PartialEq, Eq)]
pub enum RecvEv {
    /// (payload, source, local address the datagram was sent to)
    Datagram(Vec<u8>, SocketAddr, IpAddr),
    Interrupted,
    WouldBlock,
    TimedOut,
}

#[derive(Default)]
pub struct UdpScript {
    pub recvs: VecDeque<RecvEv>,
    /// (payload, destination, local source address)
    pub sent: Vec<(Vec<u8>, SocketAddr, IpAddr)>,
    /// Fail the n-th send with EINTR once / with an error.
    pub eintr_send_at: Option<usize>,
    pub fail_send_at: Option<usize>,
    pub send_calls: usize,
    /// Called when the script is exhausted (the harness shuts the group down
    /// so that the worker loop ends).
    pub on_exhausted: Option<Box<dyn FnMut() + Send>>,
    pub read_timeout: Option<Option<Duration>>,
}

pub trait UdpSocketApi: Clone + Sized {
    type LocalAddr;
    const SUPPORTS_LOCAL_ADDRESS_SELECTION: bool;
    fn bind(addr: SocketAddr) -> io::Result<Self>;
    fn set_read_timeout(&self, timeout: Option<Duration>) -> io::Result<()>;
    fn recv(&mut self, buf: &mut [u8]) -> io::Result<(usize, SocketAddr, Self::LocalAddr)>;
    fn send(&mut self, buf: &[u8], dest: SocketAddr, src: Self::LocalAddr) -> io::Result<usize>;
}

#[derive(Clone)]
pub struct UdpSocket {
    pub script: Arc<Mutex<UdpScript>>,
}

impl UdpSocket {
    pub fn scripted(recvs: Vec<RecvEv>) -> (UdpSocket, Arc<Mutex<UdpScript>>) {
        let script = Arc::new(Mutex::new(UdpScript { recvs: recvs.into(), ..Default::default() }));
        (UdpSocket { script: script.clone() }, script)
    }
}

impl UdpSocketApi for UdpSocket {
    type LocalAddr = IpAddr;
    const SUPPORTS_LOCAL_ADDRESS_SELECTION: bool = true;
    fn bind(_addr: SocketAddr) -> io::Result<Self> {
        Err(io::Error::new(io::ErrorKind::Unsupported, "scripted sockets cannot be bound"))
    }
    fn set_read_timeout(&self, timeout: Option<Duration>) -> io::Result<()> {
        self.script.lock().unwrap().read_timeout = Some(timeout);
        Ok(())
    }
    fn recv(&mut self, buf: &mut [u8]) -> io::Result<(usize, SocketAddr, IpAddr)> {
        let ev = self.script.lock().unwrap().recvs.pop_front();
        match ev {
            None => {
                let hook = self.script.lock().unwrap().on_exhausted.take();
                if let Some(mut h) = hook {
                    h();
                    self.script.lock().unwrap().on_exhausted = Some(h);
                }
                Err(io::Error::new(io::ErrorKind::WouldBlock, "script exhausted"))
            }
            Some(RecvEv::Datagram(d, src, local)) => {
                // As recvmsg does: a datagram longer than the buffer is cut.
                let n = d.len().min(buf.len());
                buf[..n].copy_from_slice(&d[..n]);
                Ok((n, src, local))
            }
            Some(RecvEv::Interrupted) => Err(io::Error::new(io::ErrorKind::Interrupted, "scripted EINTR")),
            Some(RecvEv::WouldBlock) => Err(io::Error::new(io::ErrorKind::WouldBlock, "scripted timeout")),
            Some(RecvEv::TimedOut) => Err(io::Error::new(io::ErrorKind::TimedOut, "scripted timeout")),
        }
    }
    fn send(&mut self, buf: &[u8], dest: SocketAddr, src: IpAddr) -> io::Result<usize> {
        let mut s = self.script.lock().unwrap();
        let idx = s.send_calls;
        s.send_calls += 1;
        if s.eintr_send_at == Some(idx) {
            return Err(io::Error::new(io::ErrorKind::Interrupted, "scripted EINTR on send"));
        }
        if s.fail_send_at == Some(idx) {
            return Err(io::Error::new(io::ErrorKind::PermissionDenied, "scripted send error"));
        }
        s.sent.push((buf.to_vec(), dest, src));
        Ok(buf.len())
    }
}
