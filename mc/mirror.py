#!/usr/bin/env python3
"""Builds the E-MC build workspace: a *seam mirror* of the repository's
library source plus the shim and the harness.

  mirror.py [--repo DIR] [--out DIR]

The mirror is /repo/src (minus bin/) with a fixed list of import redirections
(std::sync / std::thread / std::time / sockets -> mcshim) and a few appended
access shims. Function bodies are byte-identical to the repository's. If an
expected line is missing or occurs more than once the script exits 2 ("seam
moved"), so a refactor can never silently turn a check vacuous.

Files are rewritten only when their content changes, so cargo's incremental
build survives.
"""
import argparse
import os
import re
import shutil
import sys

HERE = os.path.dirname(os.path.abspath(__file__))
VERIF = os.path.dirname(HERE)


def die(msg):
    sys.stderr.write("mirror.py: %s\n" % msg)
    sys.exit(2)


def write_if_changed(path, data):
    if isinstance(data, str):
        data = data.encode()
    try:
        with open(path, "rb") as f:
            if f.read() == data:
                return False
    except FileNotFoundError:
        pass
    os.makedirs(os.path.dirname(path), exist_ok=True)
    with open(path, "wb") as f:
        f.write(data)
    return True


def sync_tree(src, dst, skip=()):
    """Copies src -> dst (write-if-changed), deleting files that vanished."""
    wanted = set()
    for root, dirs, files in os.walk(src):
        rel = os.path.relpath(root, src)
        dirs[:] = [d for d in dirs if os.path.normpath(os.path.join(rel, d)) not in skip and d != "target"]
        for fn in files:
            r = os.path.normpath(os.path.join(rel, fn))
            if r in skip:
                continue
            wanted.add(r)
            with open(os.path.join(root, fn), "rb") as f:
                write_if_changed(os.path.join(dst, r), f.read())
    for root, dirs, files in os.walk(dst):
        rel = os.path.relpath(root, dst)
        for fn in files:
            r = os.path.normpath(os.path.join(rel, fn))
            if r not in wanted and r not in skip:
                os.remove(os.path.join(root, fn))


# (file, exact original line(s), replacement). Each original must occur
# exactly once in the file.
# Import redirections. For each listed file, every top-level `use std::<module>
# ...;` line of the listed modules is pointed at the shim instead; at least one
# such line must exist per (file, module), and every imported item must be one
# the shim provides - so a refactor that merely changes the import list (adds
# MutexGuard, say) is followed, while an import the shim cannot serve stops
# the build as a machinery error. Function bodies are never touched.
REDIRECTS = [
    ("thread.rs", ["sync", "thread", "time"]),
    ("server/mod.rs", ["sync"]),
    ("server/rrl.rs", ["sync", "time"]),
]

SHIM_ITEMS = {
    "sync": {"Arc", "Weak", "Mutex", "MutexGuard", "RwLock", "RwLockReadGuard", "RwLockWriteGuard", "Condvar", "WaitTimeoutResult",
             "LockResult", "PoisonError", "TryLockError", "TryLockResult"},
    "thread": {"self", "ThreadId", "Thread", "JoinHandle", "Builder", "spawn", "current", "panicking", "yield_now"},
    "time": {"Duration", "Instant"},
}

# Exact-text rewrites (each original must occur exactly once).
REWRITES = []

# Appended to the end of a file: access shims for private items (called from
# inside their own module, so nothing is made public in the original code).
APPENDS = {}


def load_io_seams():
    """The I/O seams (C30) live in their own file so that the core mirror
    stays small; optional."""
    p = os.path.join(HERE, "io_seams.py")
    if os.path.exists(p):
        g = {}
        exec(compile(open(p).read(), p, "exec"), g)
        REWRITES.extend(g.get("REWRITES", []))
        REDIRECTS.extend(g.get("REDIRECTS", []))
        APPENDS.update(g.get("APPENDS", {}))


def mirror_cargo_toml(repo):
    text = open(os.path.join(repo, "Cargo.toml")).read()
    # Drop [profile.*] and [[bin]] sections (the workspace root owns profiles;
    # the daemon is not part of the mirror).
    out = []
    skipping = False
    for line in text.splitlines():
        if re.match(r"^\[(profile\.|\[bin\]\])", line):
            skipping = True
            continue
        if skipping and line.startswith("["):
            skipping = False
        if skipping:
            continue
        out.append(line)
    text = "\n".join(out) + "\n"
    if text.count('default = ["binary"]') != 1:
        die("seam moved: Cargo.toml default features")
    text = text.replace('default = ["binary"]', "default = []")
    if text.count("\n[dependencies]\n") != 1:
        die("seam moved: Cargo.toml [dependencies]")
    text = text.replace("\n[dependencies]\n", '\n[dependencies]\nmcshim = { path = "../mcshim" }\n')
    if "verif_hooks" not in text:
        text = text.replace("[features]\n", "[features]\nverif_hooks = []\n")
    # tokio's paused clock for the Tokio provider harness
    text = text.replace('features = ["io-util", "macros", "net", "rt", "sync", "time"]',
                        'features = ["io-util", "macros", "net", "rt", "sync", "time", "test-util"]')
    return text


WORKSPACE_TOML = """[workspace]
resolver = "2"
members = ["mcshim", "mirror", "harness"]

[profile.release]
opt-level = 2
debug = false
overflow-checks = true
debug-assertions = true
codegen-units = 16
lto = false
incremental = true
panic = "unwind"
"""


def main():
    ap = argparse.ArgumentParser()
    ap.add_argument("--repo", default=os.environ.get("QVERIF_REPO") or "/repo")
    ap.add_argument("--out", default=None)
    a = ap.parse_args()
    work = os.environ.get("QVERIF_WORK", "/var/tmp/qverif")
    out = a.out or os.path.join(work, "mc-build")
    repo = a.repo
    load_io_seams()

    src = os.path.join(repo, "src")
    if not os.path.isdir(src):
        die("no src/ under %s" % repo)
    msrc = os.path.join(out, "mirror", "src")
    # 1. read, rewrite in memory, write-if-changed
    files = {}
    for root, dirs, fns in os.walk(src):
        rel = os.path.relpath(root, src)
        if rel == "bin" or rel.startswith("bin" + os.sep):
            dirs[:] = []
            continue
        dirs[:] = [d for d in dirs if not (rel == "." and d == "bin")]
        for fn in fns:
            r = os.path.normpath(os.path.join(rel, fn))
            files[r] = open(os.path.join(root, fn), encoding="utf-8").read()
    for (f, modules) in REDIRECTS:
        if f not in files:
            die("seam moved: %s does not exist" % f)
        for mod in modules:
            pat = re.compile(r"^use std::%s(::(.+))?;[ \t]*$" % mod, re.M)
            hits = list(pat.finditer(files[f]))
            if not hits:
                die("seam moved: %s has no `use std::%s...;` line" % (f, mod))
            for m in hits:
                items = m.group(2) or "self"
                names = [x.strip() for x in items.strip("{}").split(",") if x.strip()]
                for n in names:
                    base = n.split(" as ")[0].strip()
                    if base not in SHIM_ITEMS[mod]:
                        die("seam moved: %s imports std::%s::%s, which the shim does not provide" % (f, mod, base))
            files[f] = pat.sub(lambda m: m.group(0).replace("use std::%s" % mod, "use mcshim::%s" % mod, 1), files[f])
    for (f, old, new) in REWRITES:
        if f not in files:
            die("seam moved: %s does not exist" % f)
        n = files[f].count(old)
        if n != 1:
            die("seam moved: %r occurs %d times in %s (expected exactly 1)" % (old, n, f))
        files[f] = files[f].replace(old, new)
    for f, extra in APPENDS.items():
        if f not in files:
            die("seam moved: %s does not exist" % f)
        files[f] = files[f] + "\n" + extra
    wanted = set()
    for r, text in files.items():
        wanted.add(r)
        write_if_changed(os.path.join(msrc, r), text)
    for root, dirs, fns in os.walk(msrc):
        rel = os.path.relpath(root, msrc)
        for fn in fns:
            r = os.path.normpath(os.path.join(rel, fn))
            if r not in wanted:
                os.remove(os.path.join(root, fn))
    write_if_changed(os.path.join(out, "mirror", "Cargo.toml"), mirror_cargo_toml(repo))

    # 2. shim + harness (+ the shared runner / codec sources from E-SEQ)
    sync_tree(os.path.join(HERE, "mcshim"), os.path.join(out, "mcshim"))
    hs = os.path.join(out, "harness")
    sync_tree(os.path.join(HERE, "harness"), hs, skip=("src/runner.rs", "src/wire.rs", "src/reftsig.rs"))
    for shared in ("runner.rs", "wire.rs", "reftsig.rs"):
        with open(os.path.join(VERIF, "seq", "qvlib", "src", shared), "rb") as f:
            write_if_changed(os.path.join(hs, "src", shared), f.read())
    write_if_changed(os.path.join(out, "Cargo.toml"), WORKSPACE_TOML)
    write_if_changed(os.path.join(out, ".cargo", "config.toml"), "[net]\noffline = true\n")
    lock = os.path.join(HERE, "Cargo.lock")
    if not os.path.exists(os.path.join(out, "Cargo.lock")):
        if os.path.exists(lock):
            shutil.copy(lock, os.path.join(out, "Cargo.lock"))
        else:
            shutil.copy(os.path.join(repo, "Cargo.lock"), os.path.join(out, "Cargo.lock"))
    print(out)


if __name__ == "__main__":
    main()
