# I/O seams for C30 (loaded by mirror.py). Same rule as the core list: every
# original must occur exactly once; function bodies are left untouched.

REWRITES = [
    ("io/blocking.rs",
     "use std::net::{IpAddr, SocketAddr, TcpStream};",
     "use std::net::{IpAddr, SocketAddr};\nuse mcshim::net::TcpStream;"),
    ("io/blocking.rs",
     "use super::socket::{TcpListener, TcpListenerApi, UdpSocket, UdpSocketApi};",
     "use mcshim::net::{TcpListener, TcpListenerApi, UdpSocket, UdpSocketApi};"),
    ("io/tokio.rs",
     "use tokio::net::{TcpListener, TcpStream};",
     "use mcshim::anet::{TcpListener, TcpStream};"),
    ("io/tokio.rs",
     "use super::socket::{AsyncUdpSocket, AsyncUdpSocketApi};",
     "use mcshim::anet::{AsyncUdpSocket, AsyncUdpSocketApi};"),
]

# the per-message read deadline of the blocking provider runs on the virtual
# clock (slow-client deviations advance it)
REDIRECTS = [
    ("io/blocking.rs", ["time"]),
]

APPENDS = {
    "io/blocking.rs": '''
/// Verification access (added by /verif/mc/mirror.py): calls the private
/// connection / worker functions from inside their own module.
pub mod verif_access {
    use super::*;

    pub fn tcp<C: Catalog + Send>(pool: &Arc<ThreadPool>, server: &Arc<Server<C>>, socket: TcpStream, client_ip: IpAddr) -> io::Result<()> {
        handle_tcp_connection(pool, server, socket, client_ip)
    }

    pub fn udp<C: Catalog>(group: &Arc<ThreadGroup>, server: &Arc<Server<C>>, socket: UdpSocket) -> io::Result<()> {
        run_udp_worker(group, server, socket)
    }

    pub fn listen<C: Catalog + Send + Sync + 'static>(pool: &Arc<ThreadPool>, server: &Arc<Server<C>>, listener: &TcpListener) -> io::Result<()> {
        run_tcp_listener(pool, server, listener)
    }
}
''',
    "io/tokio.rs": '''
/// Verification access (added by /verif/mc/mirror.py).
pub mod verif_access {
    use super::*;

    pub struct Handle(ShutdownHandle);

    pub fn channels() -> (TokioShutdownController, Handle) {
        let (c, h) = make_shutdown_channels();
        (c, Handle(h))
    }

    pub async fn tcp<C: Catalog + Send>(handle: Handle, server: &Server<C>, socket: TcpStream, client_ip: IpAddr) -> io::Result<()> {
        handle_tcp_connection(handle.0, server, socket, client_ip).await
    }

    pub async fn udp<C: Catalog + Send + Sync + 'static>(handle: Handle, server: Arc<Server<C>>, socket: AsyncUdpSocket) -> io::Result<()> {
        run_udp_receiver(handle.0, server, socket).await
    }
}
''',
    "io/mod.rs": '''
pub use blocking::verif_access as verif_blocking;
#[cfg(feature = "tokio")]
pub use self::tokio::verif_access as verif_tokio;
''',
}
