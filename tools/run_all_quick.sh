#!/bin/sh
cd /verif
for i in 01 02 03 04 05 06 07 08 09 10 11 12 13 14 15 16 17 18 19 20 21 22 23 24 25 26 27 28 29 30 31 32; do
  ./check C$i quick > /tmp/runq-C$i.log 2>&1; echo "C$i rc=$? $(grep -c '^VIOLATION' /tmp/runq-C$i.log) violations $(grep -c KNOWN-FINDING /tmp/runq-C$i.log) known"
done
