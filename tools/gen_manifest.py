#!/usr/bin/env python3
"""Regenerates /verif/MANIFEST.json from tools/registry.py and properties.jsonl."""
import json
import os
import subprocess
import sys

HERE = os.path.dirname(os.path.dirname(os.path.abspath(__file__)))
sys.path.insert(0, os.path.join(HERE, "tools"))
from registry import CHECKS, NOT_APPLICABLE  # noqa: E402

props = [json.loads(l) for l in open(os.path.join(HERE, "properties.jsonl"))]
ids = [p["id"] for p in props]

hook_commits = subprocess.check_output(
    ["git", "-C", "/repo", "log", "--format=%H", "--grep=^verif hooks"]).decode().split()

engines = {
    "seq": ("E-SEQ", "seq/", "bounded-exhaustive enumeration of inputs / operation histories on the real library (cargo path dependency on /repo, feature verif_hooks) against independent reference models"),
    "mc": ("E-MC", "mc/", "deviation-bounded exhaustive schedule exploration (preemptions + timer firings) of a seam mirror of /repo/src on a controlled scheduler; scripted-I/O histories"),
    "reload": ("E-RELOAD", "reload/", "explicit enumeration of configuration/zone-file edit histories driving the daemon's real reload code"),
}

checks = []
for pid in ids:
    if pid not in CHECKS:
        continue
    c = CHECKS[pid]
    checks.append({
        "property_id": pid,
        "quick_cmd": "./check %s quick" % pid,
        "thorough_cmd": "./check %s thorough" % pid,
        "evidence_file": "/verif/evidence/%s.json" % pid,
        "replay_cmd_template": "./check %s quick --replay {path}" % pid,
        "engine": engines[c["engine"]][0],
        "level_claimed": {"category": c["level"], "text": c["text"], "design_ref": c["design_ref"]},
        "level_note": c["note"],
        "technique": c["technique"],
    })

na = []
for pid in ids:
    if pid in CHECKS:
        continue
    na.append({"property_id": pid, "reason": NOT_APPLICABLE.get(pid, "check not built yet (work in progress); no claim is made for this property")})

manifest = {
    "version": 1,
    "setup_cmd": "./check --setup",
    "hooks": {
        "guard": "cargo feature verif_hooks (off by default)",
        "enable": "E-SEQ depends on /repo with features=[\"verif_hooks\"] (seq/Cargo.toml); E-MC and E-RELOAD compile a regenerated seam mirror of /repo/src and need no hook",
        "baseline_off_cmd": "cd /repo && cargo test --workspace --no-fail-fast --offline",
        "source_commits": hook_commits,
        "add_only": True,
    },
    "engines": [
        {"name": engines[k][0], "path": engines[k][1], "kind_free_text": engines[k][2],
         "serves_properties": [p for p in ids if p in CHECKS and CHECKS[p]["engine"] == k]}
        for k in engines
    ],
    "checks": checks,
    "not_applicable": na,
    "notes": "Single entry point ./check; build/work directory $QVERIF_WORK (default /var/tmp/qverif). Exit 2 = machinery error, never a verdict. known_findings.jsonl lists repaired defects (status fixed) and recorded findings (status known).",
}
with open(os.path.join(HERE, "MANIFEST.json"), "w") as f:
    json.dump(manifest, f, indent=1)
    f.write("\n")
print("MANIFEST.json: %d checks, %d not_applicable" % (len(checks), len(na)))
