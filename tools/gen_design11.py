#!/usr/bin/env python3
"""Rewrites section 11 of DESIGN.md from tools/design11.template.md, with the
table of seeded changes (tools/seeded_table.py) in place of SEEDED_TABLE."""
import os, subprocess
V = os.path.dirname(os.path.dirname(os.path.abspath(__file__)))
tpl = open(os.path.join(V, "tools", "design11.template.md")).read()
table = subprocess.run(["python3", os.path.join(V, "tools", "seeded_table.py")], stdout=subprocess.PIPE, text=True, check=True).stdout
import glob
n = len(glob.glob(os.path.join(V, "seeded", "*", "meta.json")))
body = tpl.replace("SEEDED_TABLE\n", table).replace("SEEDED_COUNT", str(n))
p = os.path.join(V, "DESIGN.md")
s = open(p).read()
i = s.index("## 11. As built")
open(p, "w").write(s[:i] + body)
print("DESIGN.md section 11 rewritten (%d lines)" % body.count("\n"))
