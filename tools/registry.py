"""Registry of checks: property id -> engine/package and manifest texts."""

CHECKS = {}


def reg(pid, engine, package, level, technique, text, note, design_ref):
    CHECKS[pid] = dict(engine=engine, package=package, level=level, technique=technique,
                       text=text, note=note, design_ref=design_ref)


reg("C17", "seq", "p-codes", "exploration",
    "exhaustive enumeration of the complete input space (all 2^16 / 2^8 code values, all case patterns) against independent IANA tables",
    "Complete enumeration: every 16-bit TYPE/CLASS/QTYPE/QCLASS value and every 8-bit opcode/RCODE value is rendered, parsed back and compared with an independent mnemonic table; exhaustive, so within the stated API the property is decided, not sampled.",
    "Trusts the harness's IANA mnemonic tables and Rust's integer formatting.",
    "DESIGN.md §7 C17")

# Properties deliberately not claimed, with the reason (anything not
# registered and not listed here is reported as "not built yet").
NOT_APPLICABLE = {}
