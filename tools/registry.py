"""Registry of checks: property id -> engine/package and manifest texts.

Each engine package contributes a fragment tools/registry.d/<package>.py that
calls reg(...) once per property it serves; optional na(pid, reason) records a
property deliberately not claimed.
"""
import glob
import os

CHECKS = {}
NOT_APPLICABLE = {}


def reg(pid, engine, package, level, technique, text, note, design_ref):
    """pid: "C14"; engine: "seq" | "mc" | "reload"; package: cargo package =
    binary name; level: "exploration" | "model_checking"; technique: a few
    words naming the deciding method; text: what assurance the check gives and
    why this level; note: what is assumed / trusted; design_ref: DESIGN.md
    section."""
    CHECKS[pid] = dict(engine=engine, package=package, level=level, technique=technique,
                       text=text, note=note, design_ref=design_ref)


def na(pid, reason):
    NOT_APPLICABLE[pid] = reason


_here = os.path.dirname(os.path.abspath(__file__))
for _f in sorted(glob.glob(os.path.join(_here, "registry.d", "*.py"))):
    exec(compile(open(_f).read(), _f, "exec"), {"reg": reg, "na": na})
