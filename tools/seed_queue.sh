#!/bin/sh
# usage: seedq2.sh <suffix> <outdir> ID...  ; processes whichever seed is ready first (check = own ID)
suffix=$1; out=$2; shift 2
cd /verif
pending="$@"
n=0
while [ -n "$pending" ] && [ $n -lt 600 ]; do
  next=""
  for id in $pending; do
    if [ -f $out/$id/meta.json ] && [ -f $out/$id/patch.diff ]; then
      sleep 20
      echo "=== $id $(date -u +%H:%M:%S)"
      timeout 1500 python3 tools/seedcheck.py ${id}${suffix} $out/$id $id
    else
      next="$next $id"
    fi
  done
  pending=$(echo $next)
  [ -n "$pending" ] && sleep 20
  n=$((n+1))
done
echo "QUEUE DONE pending=[$pending]"
