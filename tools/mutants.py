#!/usr/bin/env python3
"""Detection self-test: applies each saved mutant (mutants/<ID>/*.diff) to a
scratch worktree of /repo and runs the corresponding check against it.

  tools/mutants.py [ID ...] [--tier quick|thorough] [--jobs N]

A mutant counts as detected when the check exits 1. Results are written to
mutants/RESULTS.json (merged with earlier results). Scratch worktrees and build
directories are removed as soon as each mutant is done.
"""
import concurrent.futures
import glob
import json
import os
import shutil
import subprocess
import sys
import time

VERIF = os.path.dirname(os.path.dirname(os.path.abspath(__file__)))


def sh(cmd, cwd=None, env=None):
    e = dict(os.environ)
    if env:
        e.update(env)
    p = subprocess.run(cmd, cwd=cwd, env=e, stdout=subprocess.PIPE, stderr=subprocess.STDOUT, text=True)
    return p.returncode, p.stdout


def run_one(pid, path, tier, slot):
    name = os.path.basename(path)[:-5]
    wt = "/tmp/mut-%d" % slot
    work = "/var/tmp/qverif-mut-%d" % slot
    sh(["git", "-C", "/repo", "worktree", "remove", "--force", wt])
    shutil.rmtree(wt, ignore_errors=True)
    rc, out = sh(["git", "-C", "/repo", "worktree", "add", "--detach", wt, "HEAD"])
    res = {"property": pid, "mutant": name, "tier": tier}
    try:
        rc, out = sh(["git", "apply", "--recount", path], cwd=wt)
        if rc != 0:
            res["status"] = "patch-does-not-apply"
            res["detail"] = out[-300:]
            return res
        t0 = time.time()
        rc, out = sh([os.path.join(VERIF, "check"), pid, tier], cwd=VERIF, env={"QVERIF_REPO": wt, "QVERIF_WORK": work})
        res["exit"] = rc
        res["wall_s"] = round(time.time() - t0, 1)
        res["status"] = {1: "detected", 0: "MISSED"}.get(rc, "machinery-error")
        lines = [l for l in out.splitlines() if l.startswith("VIOLATION")]
        res["first_violation"] = lines[0].replace(work, "$WORK")[:200] if lines else ""
        if rc not in (0, 1):
            res["detail"] = out[-400:]
        return res
    finally:
        sh(["git", "-C", "/repo", "worktree", "remove", "--force", wt])
        # keep the build dir of this slot for the next mutant (incremental
        # rebuild); removed at the end of the run


def main():
    args = sys.argv[1:]
    tier, jobs = "quick", 3
    if "--tier" in args:
        i = args.index("--tier"); tier = args[i + 1]; del args[i:i + 2]
    if "--jobs" in args:
        i = args.index("--jobs"); jobs = int(args[i + 1]); del args[i:i + 2]
    ids = args or sorted(os.path.basename(d) for d in glob.glob(os.path.join(VERIF, "mutants", "C*")))
    todo = []
    for pid in ids:
        for path in sorted(glob.glob(os.path.join(VERIF, "mutants", pid, "*.diff"))):
            todo.append((pid, path))
    results_path = os.path.join(VERIF, "mutants", "RESULTS.json")
    try:
        results = json.load(open(results_path))
    except Exception:  # noqa: BLE001
        results = {}
    slots = list(range(jobs))
    import queue
    q = queue.Queue()
    for s in slots:
        q.put(s)

    def work(item):
        slot = q.get()
        try:
            return run_one(item[0], item[1], tier, slot)
        finally:
            q.put(slot)

    with concurrent.futures.ThreadPoolExecutor(max_workers=jobs) as ex:
        for r in ex.map(work, todo):
            key = "%s/%s" % (r["property"], r["mutant"])
            results[key] = r
            print("%-50s %s %s" % (key, r["status"], r.get("first_violation", "")[:90]), flush=True)
            json.dump(results, open(results_path, "w"), indent=1, sort_keys=True)
    for s in slots:
        shutil.rmtree("/var/tmp/qverif-mut-%d" % s, ignore_errors=True)
    missed = [k for k, r in results.items() if r["status"] != "detected"]
    print("%d results, %d not detected: %s" % (len(results), len(missed), missed))


if __name__ == "__main__":
    main()
