reg("C17", "seq", "p-codes", "exploration",
    "exhaustive enumeration of the complete input space (all 2^16 / 2^8 code values, all case patterns) against independent IANA tables",
    "Complete enumeration: every 16-bit TYPE/CLASS/QTYPE/QCLASS value and every 8-bit opcode/RCODE value is rendered, parsed back and compared with an independent mnemonic table; the RFC 3597 generic forms are parsed for every value in three prefix case patterns and with the number zero-padded to 5, 6, 10 and 20 digits; exhaustive, so within the stated API the property is decided, not sampled. Every value is also rendered under width / fill / alignment formatter options and through a forwarding wrapper; trimmed of the fill character the text must be the plain rendering.",
    "Trusts the harness's IANA mnemonic tables and Rust's integer formatting.",
    "DESIGN.md §7 C17")
