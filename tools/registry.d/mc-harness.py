reg("C29", "mc", "mc-harness", "model_checking",
    "stateless model checking: deviation-bounded (preemptions + condvar-timeout firings) exhaustive DFS over schedules of the real thread.rs on a controlled scheduler (shuttle-engine runtime, own Condvar-with-timeouts shim)",
    "Every schedule with at most k deviations (k iterated from 0; per-configuration bound reached is in the evidence) of 50+ pool scenarios (0-2 permanent workers, lingering or not, sequential/concurrent/blocking submitters, concurrent shutdown) is executed on the unmodified thread-pool source and checked: accepted tasks run exactly once and before await_shutdown returns, rejected tasks never run, post-shutdown submissions are rejected, no deadlock or livelock. A coverage statement over interleavings that sleep-based tests cannot force.",
    "Sequentially consistent interleavings at synchronisation operations only (all shared state in thread.rs is behind Mutex/Condvar; no atomics/unsafe). Trusts shuttle-engine's coroutine runtime, the mcshim Condvar/virtual-clock model and the import redirection done by mc/mirror.py (function bodies byte-identical). Small scope: <= 3 tasks, <= 2 submitters, deviation bound 2-3.",
    "DESIGN.md §3.2, §7 C29")

reg("C28", "mc", "mc-harness", "model_checking",
    "stateless model checking: preemption-bounded exhaustive DFS over schedules of concurrent handle_message calls on the real RRL code (seam mirror on a controlled scheduler)",
    "Every schedule with at most k preemptions (k iterated from 0, bound reached per configuration in the evidence) of 2-3 threads x 1-2 identical UDP queries of one stream against the real Server with RRL is executed; in each, exactly min(requests, rate*window) full answers are sent and the rest dropped/slipped. A lost or double-counted bucket update needs two threads and one preemption, so the small scope covers the failure mode that 16 free-running OS threads could only sample.",
    "Sequentially consistent interleavings at Mutex/RwLock operations; virtual clock frozen (all requests within one second). Trusts shuttle-engine, mcshim and the import redirection of mc/mirror.py. RandomState hashing is left as is (one stream => one bucket regardless of the hash).",
    "DESIGN.md §3.2, §7 C28")

reg("C32", "mc", "mc-harness", "model_checking",
    "stateless model checking: preemption-bounded exhaustive DFS over schedules of queriers vs. a catalog/key-set swapper on the real Server (seam mirror on a controlled scheduler)",
    "Every schedule with at most k preemptions (k iterated from 0) of plain and TSIG-signing queriers racing a thread that swaps catalog and key set is executed on the real Server::handle_message; each response must carry a single data generation in all of its sections, a request started after a swap returned must see the new data, and a signed exchange must be verified and signed under one secret (checked with an independent HMAC).",
    "Sequentially consistent interleavings at RwLock operations (catalog and key set are each an RwLock<Arc<_>>). Trusts shuttle-engine, mcshim, the mirror's import redirection, and the harness's own SHA-256/HMAC (known-answer tested).",
    "DESIGN.md §3.2, §7 C32")

reg("C30", "mc", "mc-harness", "model_checking",
    "explicit enumeration of scripted-socket histories (request batches x segmentations x single environment deviations) driving the real provider loops of the seam mirror, compared with the server's per-request answers",
    "Every history in a stated finite space - batches of <= 3 requests from a 7-entry menu, every small subset of cut points near each length prefix / message boundary (plus one octet at a time), and at most one environment deviation (EINTR, timeout, EOF, error, Pending, stall, short / failing / interrupted write, shutdown at a response) at every position - is run through the real handle_tcp_connection / run_udp_worker (blocking) and handle_tcp_connection / run_udp_receiver (Tokio, paused clock) over scripted sockets; the bytes written must be exactly the length-prefixed handle_message results in order.",
    "The kernel side is replaced by scripted sockets (mc/mcshim/src/{net,anet}.rs): real TCP segmentation, recvmsg ancillary data and local-address selection, the accept loops and Tokio's multi-thread scheduler are outside the explored space. Function bodies of the providers are byte-identical to the repository's (import redirection only, checked by mc/mirror.py).",
    "DESIGN.md §7 C30, §10")
