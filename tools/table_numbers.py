#!/usr/bin/env python3
"""Refreshes the quick / thorough columns of the per-property table in
tools/design11.template.md from the evidence files currently in evidence/
(each file says which tier produced it).  usage: table_numbers.py [ID ...]"""
import json, re, sys, os
V = os.path.dirname(os.path.dirname(os.path.abspath(__file__)))
T = os.path.join(V, "tools", "design11.template.md")

def human(n):
    if n >= 1e9: return f"{n/1e9:.1f} G"
    if n >= 1e6: return f"{n/1e6:.1f} M"
    if n >= 1e3: return f"{n/1e3:.0f} k"
    return str(n)

ids = sys.argv[1:] or [f"C{i:02d}" for i in range(1, 33)]
lines = open(T).read().split("\n")
for cid in ids:
    e = json.load(open(os.path.join(V, "evidence", cid + ".json")))
    cov = e["coverage"]
    n = cov.get("evaluations") or cov.get("schedules") or cov.get("transitions") or 0
    cell = f"{human(n)}, {max(1, round(e['wall_s']))} s"
    col = 4 if e["tier"] == "quick" else 5
    for i, l in enumerate(lines):
        if l.startswith(f"| {cid} |"):
            parts = l.split("|")
            old = parts[col].strip()
            parts[col] = f" {cell} "
            lines[i] = "|".join(parts)
            print(f"{cid} {e['tier']}: {old} -> {cell}")
open(T, "w").write("\n".join(lines))
