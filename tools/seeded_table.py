#!/usr/bin/env python3
"""Prints the markdown table of seeded changes (seeded/*/meta.json) for DESIGN.md §11.5."""
import glob, json, os
V = os.path.dirname(os.path.dirname(os.path.abspath(__file__)))
print("| seeded change | breaks | what it needs to manifest | confirmed (suite green, demo fails/passes) | checks run against it (quick unless noted) |")
print("|---|---|---|---|---|")
for d in sorted(glob.glob(os.path.join(V, "seeded", "*"))):
    try:
        m = json.load(open(os.path.join(d, "meta.json")))
    except Exception:
        continue
    lv = m.get("lead_verification", {})
    checks = lv.get("checks", {})
    cs = "; ".join("%s%s: %s" % (k, "" if v.get("tier", "quick") == "quick" else " (%s)" % v["tier"], {1: "**detected**", 0: "not detected"}.get(v["exit"], "machinery error")) for k, v in sorted(checks.items()))
    extra = m.get("lead_note", "")
    print("| %s: %s | %s | %s | %s | %s%s |" % (os.path.basename(d), str(m.get("summary", "")).replace("|", "/")[:160], m.get("property", ""), str(m.get("needs", "")).replace("|", "/")[:200], "yes" if lv.get("confirmed") else "NO", cs, (" — " + extra) if extra else ""))
