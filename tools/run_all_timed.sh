#!/bin/sh
cd /verif
for tier in quick thorough; do
for i in 01 02 03 04 05 06 07 08 09 10 11 12 13 14 15 16 17 18 19 20 21 22 23 24 25 26 27 28 29 30 31 32; do
  s=$(date +%s)
  ./check C$i $tier > /tmp/runall-C$i-$tier.log 2>&1; rc=$?
  e=$(date +%s)
  echo "C$i $tier rc=$rc wall=$((e-s))s $(grep -o '[0-9]* evaluations' /tmp/runall-C$i-$tier.log | tail -1)"
done
done
