#!/usr/bin/env python3
"""Validates a seeded property-breaking change produced by an independent
sub-agent and runs the checks against it.

  tools/seedcheck.py <name> <source-dir> <property> [more check ids ...] [--tier quick|thorough]

<source-dir> holds patch.diff, demo.rs or demo.diff, meta.json. Steps:
  1. fresh scratch worktree of /repo HEAD; apply patch.diff
  2. the repository's own test suite must pass with the change
  3. the demonstration must FAIL with the change and PASS without it
  4. each listed check is run against the changed tree (QVERIF_REPO) and its
     exit status recorded
  5. everything is stored under /verif/seeded/<name>/ (patch.diff, demo,
     meta.json extended with what was run and what was observed)
The scratch worktree and its build output are removed at the end.
"""
import json
import os
import shutil
import subprocess
import sys

VERIF = os.path.dirname(os.path.dirname(os.path.abspath(__file__)))


def sh(cmd, cwd=None, env=None, timeout=3600):
    e = dict(os.environ)
    e["CARGO_NET_OFFLINE"] = "true"
    if env:
        e.update(env)
    p = subprocess.run(cmd, cwd=cwd, env=e, shell=isinstance(cmd, str), stdout=subprocess.PIPE, stderr=subprocess.STDOUT, text=True, timeout=timeout)
    return p.returncode, p.stdout


def recheck(name, src, checks, tier):
    """Re-runs checks against an already confirmed seeded change (after a
    check was strengthened) and merges the results into its meta.json."""
    wt = "/tmp/sv-%s" % name
    work = "/var/tmp/qverif-seed-%s" % name
    sh(["git", "-C", "/repo", "worktree", "remove", "--force", wt])
    rc, out = sh(["git", "-C", "/repo", "worktree", "add", "--detach", wt, "HEAD"])
    if rc != 0:
        print(out)
        sys.exit(2)
    dst = os.path.join(VERIF, "seeded", name)
    meta = json.load(open(os.path.join(dst, "meta.json")))
    try:
        rc, out = sh(["git", "apply", os.path.join(src, "patch.diff")], cwd=wt)
        if rc != 0:
            print("patch does not apply:\n" + out)
            sys.exit(2)
        for cid in checks:
            rc, out = sh([os.path.join(VERIF, "check"), cid, tier], cwd=VERIF, env={"QVERIF_REPO": wt, "QVERIF_WORK": work})
            lines = [l for l in out.splitlines() if l.startswith("VIOLATION") or l.startswith("KNOWN-FINDING") or l.startswith("MACHINERY")]
            meta["lead_verification"].setdefault("checks", {})[cid] = {"tier": tier, "exit": rc, "lines": [l.replace(work, "$WORK")[:300] for l in lines[:4]]}
            print("check %s %s: exit %d %s" % (cid, tier, rc, "(DETECTED)" if rc == 1 else ""))
            if rc not in (0, 1):
                print(out[-1500:])
    finally:
        sh(["git", "-C", "/repo", "worktree", "remove", "--force", wt])
        shutil.rmtree(work, ignore_errors=True)
    json.dump(meta, open(os.path.join(dst, "meta.json"), "w"), indent=1)


def main():
    args = sys.argv[1:]
    tier = "quick"
    if "--tier" in args:
        i = args.index("--tier")
        tier = args[i + 1]
        del args[i:i + 2]
    checks_only = "--checks-only" in args
    if checks_only:
        args.remove("--checks-only")
    name, src, checks = args[0], args[1], args[2:]
    if checks_only:
        recheck(name, src, checks, tier)
        return
    wt = "/tmp/sv-%s" % name
    work = "/var/tmp/qverif-seed-%s" % name
    sh(["git", "-C", "/repo", "worktree", "remove", "--force", wt])
    rc, out = sh(["git", "-C", "/repo", "worktree", "add", "--detach", wt, "HEAD"])
    if rc != 0:
        print(out)
        sys.exit(2)
    report = {"steps": []}
    ok = True
    try:
        rc, out = sh(["git", "apply", os.path.join(src, "patch.diff")], cwd=wt)
        report["steps"].append({"cmd": "git apply patch.diff", "rc": rc})
        if rc != 0:
            print("patch does not apply:\n" + out)
            sys.exit(2)
        rc, out = sh("CARGO_BUILD_JOBS=8 cargo test --workspace --no-fail-fast --offline 2>&1 | grep -E '^test result|FAILED|panicked|error(\\[|:)' | head -20", cwd=wt)
        suite_ok = "FAILED" not in out and "error" not in out and out.count("test result: ok") >= 3
        report["steps"].append({"cmd": "cargo test --workspace --no-fail-fast --offline (with the change)", "passes": suite_ok, "summary": out.strip().splitlines()[:6]})
        print("suite with change:", "PASS" if suite_ok else "FAIL")
        ok &= suite_ok
        # demonstration
        demo_rs = os.path.join(src, "demo.rs")
        demo_diff = os.path.join(src, "demo.diff")
        if os.path.exists(demo_rs):
            os.makedirs(os.path.join(wt, "tests"), exist_ok=True)
            shutil.copy(demo_rs, os.path.join(wt, "tests", "demo.rs"))
            text = open(demo_rs).read()
            feats = [f for f, needle in (("verif_hooks", "verif_hooks"), ("tokio", "TokioIoProvider")) if needle in text]
            demo_cmd = "CARGO_BUILD_JOBS=8 cargo test --offline %s --test demo 2>&1 | tail -15" % (("--features " + ",".join(feats)) if feats else "")
        elif os.path.exists(demo_diff):
            rc, out = sh(["git", "apply", demo_diff], cwd=wt)
            if rc != 0:
                print("demo.diff does not apply:\n" + out)
                ok = False
            demo_cmd = "CARGO_BUILD_JOBS=8 cargo test --workspace --offline 2>&1 | grep -E '^test result|FAILED|failed' | head"
        elif os.path.exists(os.path.join(src, "demo.py")):
            # a script that drives the built daemon: exit 0 = behaves correctly
            shutil.copy(os.path.join(src, "demo.py"), os.path.join(wt, "demo.py"))
            demo_cmd = "CARGO_BUILD_JOBS=8 cargo build --offline 2>&1 | tail -1; if python3 demo.py target/debug/quandaryd > demo.out 2>&1; then echo 'test result: ok (demo.py exit 0)'; else echo 'FAILED (demo.py exit non-zero)'; tail -5 demo.out; fi"
        else:
            demo_cmd = None
            print("no demonstration found")
            ok = False
        if demo_cmd:
            rc, out = sh(demo_cmd, cwd=wt)
            fails_with = ("FAILED" in out or "failed" in out or "panicked" in out) and "could not compile" not in out
            report["steps"].append({"cmd": "demo with the change", "fails": fails_with, "tail": out.strip().splitlines()[-4:]})
            print("demo with change:", "FAILS (good)" if fails_with else "does not fail")
            sh(["git", "apply", "-R", os.path.join(src, "patch.diff")], cwd=wt)
            rc, out = sh(demo_cmd, cwd=wt)
            passes_without = "FAILED" not in out and "test result: ok" in out
            report["steps"].append({"cmd": "demo without the change", "passes": passes_without, "tail": out.strip().splitlines()[-4:]})
            print("demo without change:", "PASSES (good)" if passes_without else "does not pass")
            ok &= fails_with and passes_without
            sh(["git", "apply", os.path.join(src, "patch.diff")], cwd=wt)
            # remove the demo again so the checks see only the change
            if os.path.exists(demo_rs):
                os.remove(os.path.join(wt, "tests", "demo.rs"))
            elif os.path.exists(demo_diff):
                sh(["git", "apply", "-R", demo_diff], cwd=wt)
            else:
                for f in ("demo.py", "demo.out"):
                    try:
                        os.remove(os.path.join(wt, f))
                    except OSError:
                        pass
        report["confirmed"] = ok
        detected = {}
        for cid in checks:
            rc, out = sh([os.path.join(VERIF, "check"), cid, tier], cwd=VERIF, env={"QVERIF_REPO": wt, "QVERIF_WORK": work})
            lines = [l for l in out.splitlines() if l.startswith("VIOLATION") or l.startswith("KNOWN-FINDING") or l.startswith("MACHINERY")]
            detected[cid] = {"tier": tier, "exit": rc, "lines": [l.replace(work, "$WORK")[:300] for l in lines[:4]]}
            print("check %s %s: exit %d %s" % (cid, tier, rc, "(DETECTED)" if rc == 1 else ""))
        report["checks"] = detected
    finally:
        sh(["git", "-C", "/repo", "worktree", "remove", "--force", wt])
        shutil.rmtree(work, ignore_errors=True)
    dst = os.path.join(VERIF, "seeded", name)
    os.makedirs(dst, exist_ok=True)
    for f in ("patch.diff", "demo.rs", "demo.diff", "demo.py"):
        if os.path.exists(os.path.join(src, f)):
            shutil.copy(os.path.join(src, f), os.path.join(dst, f))
    meta = {}
    try:
        meta = json.load(open(os.path.join(src, "meta.json")))
    except Exception as e:  # noqa: BLE001
        meta = {"note": "agent's meta.json missing or invalid: %s" % e}
    meta["lead_verification"] = report
    json.dump(meta, open(os.path.join(dst, "meta.json"), "w"), indent=1)
    print("stored in", dst, "confirmed =", ok)


if __name__ == "__main__":
    main()
