//! C17 — TYPE / CLASS / QTYPE / QCLASS / opcode / RCODE codes round-trip
//! through text. Exhaustive over all 2^16 (resp. 2^8) values and over every
//! ASCII-case pattern of every mnemonic.

use qvlib::{json, Ctx, Local};
use quandary::class::Class;
use quandary::message::{ExtendedRcode, Opcode, Qclass, Qtype, Rcode};
use quandary::rr::Type;
use std::fmt::Display;
use std::str::FromStr;

// Independent mnemonic tables (IANA DNS parameters registry, restricted to
// the types quandary documents as known).
const TYPES: &[(&str, u16)] = &[
    ("A", 1), ("NS", 2), ("MD", 3), ("MF", 4), ("CNAME", 5), ("SOA", 6), ("MB", 7), ("MG", 8),
    ("MR", 9), ("NULL", 10), ("WKS", 11), ("PTR", 12), ("HINFO", 13), ("MINFO", 14), ("MX", 15),
    ("TXT", 16), ("AAAA", 28), ("SRV", 33), ("OPT", 41), ("TSIG", 250),
];
const QTYPES_EXTRA: &[(&str, u16)] = &[("IXFR", 251), ("AXFR", 252), ("MAILB", 253), ("MAILA", 254), ("ANY", 255), ("*", 255)];
const CLASSES: &[(&str, u16)] = &[("IN", 1), ("CH", 3), ("HS", 4)];
const QCLASSES_EXTRA: &[(&str, u16)] = &[("NONE", 254), ("ANY", 255), ("*", 255)];

fn expected_text(v: u16, table: &[&[(&str, u16)]], prefix: &str) -> Vec<String> {
    // Acceptable renderings: any mnemonic of the value, else PREFIXn.
    let mut out = Vec::new();
    for t in table {
        for (m, n) in t.iter() {
            if *n == v {
                out.push(m.to_string());
            }
        }
    }
    if out.is_empty() {
        out.push(format!("{prefix}{v}"));
    }
    out
}

fn roundtrip<T>(l: &mut Local, what: &str, table: &[&[(&str, u16)]], prefix: &str)
where
    T: From<u16> + Into<u16> + Display + FromStr + Copy,
{
    for v in 0..=u16::MAX {
        l.tick();
        let text = T::from(v).to_string();
        let exp = expected_text(v, table, prefix);
        let class = if exp[0].starts_with(prefix) && exp[0][prefix.len()..].parse::<u16>().is_ok() { "generic" } else { "mnemonic" };
        l.outcome(&format!("{what}:display:{class}"), || json!({"value": v, "text": text}));
        if !exp.contains(&text) {
            l.violation(&format!("{what}:display"), json!({"kind": what, "op": "display", "value": v, "got": text, "expected": exp}));
        }
        match text.parse::<T>() {
            Ok(back) if back.into() == v => {}
            Ok(back) => l.violation(&format!("{what}:roundtrip"), json!({"kind": what, "op": "roundtrip", "value": v, "text": text, "parsed": back.into()})),
            Err(_) => l.violation(&format!("{what}:roundtrip"), json!({"kind": what, "op": "roundtrip", "value": v, "text": text, "parsed": null})),
        }
        // RFC 3597 generic form for every value, in three case patterns.
        for p in [prefix.to_string(), prefix.to_lowercase(), mixed(prefix)] {
            l.tick();
            let g = format!("{p}{v}");
            match g.parse::<T>() {
                Ok(back) if back.into() == v => {}
                other => l.violation(&format!("{what}:generic"), json!({"kind": what, "op": "generic", "text": g, "parsed": other.ok().map(|x| x.into())})),
            }
        }
    }
    // Rendering through a formatter that carries width / fill / alignment
    // (a caller's `{:>12}`, or a wrapper forwarding its formatter): whatever
    // padding the implementation applies, it must surround the token - what
    // is left after trimming the fill character is the plain rendering.
    for v in 0..=u16::MAX {
        let plain = T::from(v).to_string();
        let x = T::from(v);
        let rendered = [
            ("{:>12}", ' ', format!("{:>12}", x)),
            ("{:<12}", ' ', format!("{:<12}", x)),
            ("{:^12}", ' ', format!("{:^12}", x)),
            ("{:_>12}", '_', format!("{:_>12}", x)),
            ("{:12}", ' ', format!("{:12}", x)),
            ("Fwd", ' ', format!("{:>9}", Fwd(x))),
        ];
        for (spec, fill, text) in rendered {
            l.tick();
            if text.trim_matches(fill) != plain {
                l.violation(&format!("{what}:display-with-width"), json!({"kind": what, "op": "display-with-width", "value": v, "format": spec, "got": text, "plain": plain}));
            }
        }
    }
    l.outcome(&format!("{what}:display-with-width"), || json!({"formats": ["{:>12}", "{:<12}", "{:^12}", "{:_>12}", "{:12}", "forwarding wrapper {:>9}"]}));
    // The decimal number of the generic form with leading zeros (RFC 3597 §5
    // says "decimal RR type number" and sets no width): every value, padded
    // to 5, 6, 10 and 20 digits.
    for v in 0..=u16::MAX {
        for width in [5usize, 6, 10, 20] {
            for p in [prefix.to_string(), prefix.to_lowercase()] {
                l.tick();
                let g = format!("{p}{v:0width$}");
                match g.parse::<T>() {
                    Ok(back) if back.into() == v => {}
                    other => l.violation(&format!("{what}:generic-padded"), json!({"kind": what, "op": "generic", "text": g, "parsed": other.ok().map(|x| x.into())})),
                }
            }
        }
    }
    l.outcome(&format!("{what}:generic-padded"), || json!({"text": format!("{prefix}000001")}));
    for bad in [format!("{prefix}065536"), format!("{prefix}00000000000000065536"), format!("{prefix}0x1"), format!("{prefix}00 1")] {
        l.tick();
        if let Ok(v) = bad.parse::<T>() {
            l.violation(&format!("{what}:accepts-garbage"), json!({"kind": what, "op": "reject", "text": bad, "parsed": v.into()}));
        }
    }
    l.outcome(&format!("{what}:generic-parse"), || json!({"text": format!("{prefix}65280")}));
    // Every case pattern of every mnemonic.
    for t in table {
        for (m, n) in t.iter() {
            let letters: Vec<usize> = m.char_indices().filter(|(_, c)| c.is_ascii_alphabetic()).map(|(i, _)| i).collect();
            for mask in 0..(1u32 << letters.len()) {
                l.tick();
                let mut b = m.to_ascii_lowercase().into_bytes();
                for (k, i) in letters.iter().enumerate() {
                    if mask & (1 << k) != 0 {
                        b[*i] = b[*i].to_ascii_uppercase();
                    }
                }
                let s = String::from_utf8(b).unwrap();
                match s.parse::<T>() {
                    Ok(back) if back.into() == *n => {}
                    other => l.violation(&format!("{what}:mnemonic-case"), json!({"kind": what, "op": "mnemonic", "text": s, "expected": n, "parsed": other.ok().map(|x| x.into())})),
                }
            }
            l.outcome(&format!("{what}:mnemonic-case"), || json!({"mnemonic": m, "patterns": 1u32 << letters.len()}));
        }
    }
    // Near misses must be rejected: a mnemonic with one extra letter, the
    // generic prefix with no / non-numeric / out-of-range number.
    for bad in [format!("{prefix}"), format!("{prefix}x"), format!("{prefix}65536"), format!("{prefix}-1"), format!("{prefix} 1"), "".to_string(), "INN".to_string(), "AA".to_string(), format!("{prefix}1x")] {
        l.tick();
        if let Ok(v) = bad.parse::<T>() {
            // "AA"/"INN" are not mnemonics of any table here.
            l.violation(&format!("{what}:accepts-garbage"), json!({"kind": what, "op": "reject", "text": bad, "parsed": v.into()}));
        }
        l.outcome(&format!("{what}:rejects"), || json!({"text": bad}));
    }
}

/// A wrapper whose Display forwards its formatter, options included.
struct Fwd<T>(T);
impl<T: Display> Display for Fwd<T> {
    fn fmt(&self, f: &mut std::fmt::Formatter<'_>) -> std::fmt::Result {
        self.0.fmt(f)
    }
}

fn mixed(p: &str) -> String {
    p.chars().enumerate().map(|(i, c)| if i % 2 == 0 { c.to_ascii_lowercase() } else { c.to_ascii_uppercase() }).collect()
}

fn small_codes(l: &mut Local) {
    for v in 0..=u8::MAX {
        l.tick();
        let o = Opcode::try_from(v);
        let ok = match o {
            Ok(x) => v < 16 && u8::from(x) == v,
            Err(_) => v >= 16,
        };
        l.outcome(if v < 16 { "opcode:accept" } else { "opcode:reject" }, || json!({"value": v}));
        if !ok {
            l.violation("opcode:try_from", json!({"kind": "opcode", "value": v}));
        }
        let r = Rcode::try_from(v);
        let ok = match r {
            Ok(x) => v < 16 && u8::from(x) == v,
            Err(_) => v >= 16,
        };
        l.outcome(if v < 16 { "rcode:accept" } else { "rcode:reject" }, || json!({"value": v}));
        if !ok {
            l.violation("rcode:try_from", json!({"kind": "rcode", "value": v}));
        }
        if let Ok(x) = o {
            let _ = x.to_string();
        }
        if let Ok(x) = r {
            let _ = x.to_string();
        }
    }
    for v in 0..=u16::MAX {
        l.tick();
        let e = ExtendedRcode::from(v);
        let _ = e.to_string();
        let ok = match Rcode::try_from(e) {
            Ok(x) => v < 16 && u8::from(x) as u16 == v,
            Err(_) => v >= 16,
        };
        l.outcome(if v < 16 { "extrcode:to-rcode" } else { "extrcode:rejects" }, || json!({"value": v}));
        if !ok || u16::from(e) != v {
            l.violation("extrcode:try_into_rcode", json!({"kind": "extrcode", "value": v}));
        }
        if v < 16 {
            let back = ExtendedRcode::from(Rcode::try_from(v as u8).unwrap());
            if u16::from(back) != v {
                l.violation("extrcode:from_rcode", json!({"kind": "extrcode-from", "value": v}));
            }
        }
    }
}

fn main() {
    let ctx = Ctx::from_args(&["C17"]);
    // The space is small and fully enumerated in both tiers; a replay simply
    // reruns it (every violation key names its value).
    ctx.par_shards(5, |l, shard| match shard {
        0 => roundtrip::<Type>(l, "type", &[TYPES], "TYPE"),
        1 => roundtrip::<Class>(l, "class", &[CLASSES], "CLASS"),
        2 => roundtrip::<Qtype>(l, "qtype", &[QTYPES_EXTRA, TYPES], "TYPE"),
        3 => roundtrip::<Qclass>(l, "qclass", &[QCLASSES_EXTRA, CLASSES], "CLASS"),
        _ => small_codes(l),
    });
    ctx.assume("mnemonic tables: the 20 types, 3 classes, 5 QTYPEs and 2 QCLASSes quandary documents (IANA values)");
    ctx.finish(
        "exploration",
        "all 65536 values of Type/Class/Qtype/Qclass: Display->FromStr identity, Display equals the IANA mnemonic or TYPEn/CLASSn, rendering under width/fill/alignment options (5 format specs and a forwarding wrapper) trims to the plain rendering for every value; TYPEn/CLASSn (3 case patterns) parse for every n, also with the number zero-padded to 5, 6, 10 and 20 digits (2 case patterns); all 2^len case patterns of every mnemonic; all 256 u8 for Opcode/Rcode; all 65536 ExtendedRcode->Rcode",
        true,
    );
}
