//! C12 oracle: the finished message decodes to exactly what the successful
//! operations put in, within the size limit in effect.

use crate::dec::{uncompressed_name_spans, DMsg, DRr};
use crate::drive::RunOut;
use crate::explore::Viol;
use crate::ops::{tsig_pool, Op, TsigKind};
use crate::refmodel::RefState;
use qvlib::reftsig::{self, Alg, TsigVars};
use qvlib::wire::{name_text, t, wname};

fn v(out: &mut Vec<Viol>, key: &str, detail: String) {
    out.push(Viol { key: key.to_string(), detail });
}

fn name_eq(expected: &[u8], got: &[u8], exact: bool) -> bool {
    if exact {
        expected == got
    } else {
        expected.len() == got.len() && expected.iter().zip(got.iter()).all(|(a, b)| a.eq_ignore_ascii_case(b))
    }
}

/// RDATA equality: octet-exact, except that in Standard mode the embedded
/// names (located in the *given* RDATA) compare ignoring ASCII case.
fn rdata_eq(class: u16, typ: u16, expected: &[u8], got: &[u8], exact: bool) -> bool {
    if expected == got {
        return true;
    }
    if exact || expected.len() != got.len() {
        return false;
    }
    let mut a = expected.to_vec();
    let mut b = got.to_vec();
    for (o, n, _) in uncompressed_name_spans(class, typ, expected) {
        a[o..o + n].make_ascii_lowercase();
        b[o..o + n].make_ascii_lowercase();
    }
    a == b
}

pub fn trailers(r: &RefState) -> usize {
    r.edns.is_some() as usize + r.tsig.is_some() as usize
}

pub fn check(r: &RefState, m: &DMsg, out: &[u8], run: &RunOut, ops: &[&Op]) -> Vec<Viol> {
    let mut o = Vec::new();
    let h = &m.hdr;

    // ---- header
    if h.id != r.id {
        v(&mut o, "header:id", format!("ID {:#06x}, expected {:#06x}", h.id, r.id));
    }
    for (name, got, want) in [("qr", h.qr, r.qr), ("aa", h.aa, r.aa), ("tc", h.tc, r.tc), ("rd", h.rd, r.rd), ("ra", h.ra, r.ra)] {
        if got != want {
            v(&mut o, &format!("header:{name}"), format!("{name} bit is {got}, expected {want}"));
        }
    }
    if h.opcode != r.opcode {
        v(&mut o, "header:opcode", format!("opcode {}, expected {}", h.opcode, r.opcode));
    }
    if h.z != 0 {
        v(&mut o, "header:z", format!("reserved header bits are {:#x}, never set by any operation", h.z));
    }

    // ---- counts
    let want_counts = [r.qs.len(), r.rrs[0].len(), r.rrs[1].len(), r.rrs[2].len() + trailers(r)];
    let got_counts = [h.qdcount as usize, h.ancount as usize, h.nscount as usize, h.arcount as usize];
    if want_counts != got_counts {
        v(&mut o, "counts", format!("header counts {got_counts:?}, expected {want_counts:?} (questions, answer, authority, additional incl. OPT/TSIG)"));
        return o; // nothing below can be attributed
    }

    // ---- questions
    for (i, (want, got)) in r.qs.iter().zip(m.qs.iter()).enumerate() {
        if !name_eq(&want.name, &got.name, want.mode.exact()) {
            v(&mut o, "question:name", format!("question {i}: QNAME {} decoded, {} given ({} mode)", name_text(&got.name), name_text(&want.name), want.mode.tag()));
        }
        if (want.qtype, want.qclass) != (got.qtype, got.qclass) {
            v(&mut o, "question:fields", format!("question {i}: QTYPE/QCLASS {}/{} decoded, {}/{} given", got.qtype, got.qclass, want.qtype, want.qclass));
        }
    }

    // ---- records, in order
    let mut k = 0usize;
    for sec in 0..3 {
        for (i, want) in r.rrs[sec].iter().enumerate() {
            let got: &DRr = &m.rrs[k];
            k += 1;
            let place = format!("{} record {i}", ["answer", "authority", "additional"][sec]);
            if !name_eq(&want.name, &got.owner, want.mode.exact()) {
                v(&mut o, "record:owner", format!("{place}: owner {} decoded, {} given ({} mode)", name_text(&got.owner), name_text(&want.name), want.mode.tag()));
            }
            if (want.typ, want.class) != (got.typ, got.class) {
                v(&mut o, "record:type-class", format!("{place}: TYPE/CLASS {}/{} decoded, {}/{} given", got.typ, got.class, want.typ, want.class));
            }
            if want.ttl != got.ttl {
                v(&mut o, "record:ttl", format!("{place}: TTL {} decoded, {} given", got.ttl, want.ttl));
            }
            let got_rdata = got.rdata(out);
            if !rdata_eq(want.class, want.typ, &want.rdata, got_rdata, want.mode.exact()) {
                v(
                    &mut o,
                    "record:rdata",
                    format!("{place} (type {}): decompressed RDATA {} differs from the RDATA given {} ({} mode)", want.typ, short_hex(got_rdata), short_hex(&want.rdata), want.mode.tag()),
                );
            }
        }
        if sec == 2 {
            // ---- OPT (first trailer), then TSIG (last record)
            if let Some(payload) = r.edns {
                let got = &m.rrs[k];
                k += 1;
                if got.typ != t::OPT {
                    v(&mut o, "opt:missing", format!("the record after the additional data has type {}, expected OPT", got.typ));
                } else {
                    if got.owner != [0u8] {
                        v(&mut o, "opt:owner", format!("OPT owner is {}", name_text(&got.owner)));
                    }
                    if got.class != payload {
                        v(&mut o, "opt:payload", format!("OPT CLASS (payload size) {}, expected {payload}", got.class));
                    }
                    let want_ttl = ((r.ext_rcode as u32) >> 4) << 24;
                    if got.ttl != want_ttl {
                        v(
                            &mut o,
                            "opt:ttl",
                            format!("OPT TTL field {:#010x}, expected {:#010x} (extended RCODE {} upper bits, version 0, no flags)", got.ttl, want_ttl, r.ext_rcode),
                        );
                    }
                    if got.rd_len != 0 {
                        v(&mut o, "opt:rdata", format!("OPT RDATA of {} octets, no options were given", got.rd_len));
                    }
                }
            }
            if let Some(ts) = &r.tsig {
                let got = &m.rrs[k];
                k += 1;
                check_tsig(&mut o, r, ts, got, out, run);
            } else if run.mac.is_some() {
                v(&mut o, "tsig:mac-returned", "finish_with_mac returned a MAC although TSIG is not enabled".into());
            }
        }
    }

    // ---- extended RCODE as a decoder sees it
    let upper = if r.edns.is_some() { m.rrs.iter().find(|x| x.typ == t::OPT).map(|x| (x.ttl >> 24) as u16).unwrap_or(0) } else { 0 };
    let got_ext = (upper << 4) | h.rcode as u16;
    if got_ext != r.ext_rcode {
        v(&mut o, "rcode", format!("(extended) RCODE decodes to {got_ext}, the last successful setter gave {}", r.ext_rcode));
    }

    // ---- size
    if m.len > r.limit {
        v(&mut o, "size:limit", format!("finished message has {} octets, the limit in effect is {}", m.len, r.limit));
    }
    if m.len > r.buf_len {
        v(&mut o, "size:buffer", format!("finished message has {} octets, the buffer has {}", m.len, r.buf_len));
    }

    // ---- getters just before finish
    let g = &run.getters;
    let want_ext_getter = r.ext_rcode;
    if (g.id, g.qr, g.aa, g.tc, g.rd, g.ra, g.opcode) != (r.id, r.qr, r.aa, r.tc, r.rd, r.ra, r.opcode) {
        v(&mut o, "getter:header", format!("getters {g:?} disagree with the values set"));
    }
    if g.rcode as u16 != (r.ext_rcode & 0xf) || g.ext_rcode != want_ext_getter {
        v(&mut o, "getter:rcode", format!("rcode()={} extended_rcode()={}, expected {} / {}", g.rcode, g.ext_rcode, r.ext_rcode & 0xf, want_ext_getter));
    }
    if g.counts.map(|x| x as usize) != want_counts {
        v(&mut o, "getter:counts", format!("count getters {:?}, expected {want_counts:?}", g.counts));
    }

    // ---- hint vectors: never more entries than names written
    for (i, present) in &run.hv_present {
        if let Op::Add { class, typ, rdatas, .. } = ops[*i] {
            let n: usize = rdatas.iter().map(|rd| uncompressed_name_spans(*class, *typ, rd).len()).sum();
            if let Some(extra) = present.iter().enumerate().position(|(k, p)| *p && k >= n.min(16)) {
                v(&mut o, "hint-vector:extra", format!("operation {i} wrote {n} names in RDATA but its hint vector has an entry at index {extra}"));
            }
        }
    }
    o
}

fn check_tsig(o: &mut Vec<Viol>, r: &RefState, ts: &crate::refmodel::RefTsig, got: &DRr, out: &[u8], run: &RunOut) {
    let s = &tsig_pool()[ts.spec];
    if got.typ != t::TSIG {
        v(o, "tsig:missing", format!("the last record has type {}, expected TSIG", got.typ));
        return;
    }
    if got.rd_off + got.rd_len != out.len() {
        v(o, "tsig:not-last", "octets follow the TSIG record".into());
    }
    if !name_eq(&s.key_name, &got.owner, r.mode.exact()) {
        v(o, "tsig:owner", format!("TSIG owner {} decoded, key name {} given", name_text(&got.owner), name_text(&s.key_name)));
    }
    if got.class != 255 || got.ttl != 0 {
        v(o, "tsig:class-ttl", format!("TSIG CLASS {} TTL {}, RFC 8945 §4.2 requires ANY and 0", got.class, got.ttl));
    }
    let Some(p) = reftsig::parse_tsig_rdata(got.rdata(out)) else {
        v(o, "tsig:rdata", format!("TSIG RDATA does not parse: {}", short_hex(got.rdata(out))));
        return;
    };
    let alg = if s.sha256 { Alg::Sha256 } else { Alg::Sha1 };
    let want_alg = match ts.kind {
        TsigKind::Unsigned => s.unsigned_alg.clone(),
        _ => wname(if s.sha256 { "hmac-sha256." } else { "hmac-sha1." }),
    };
    let other: Vec<u8> = if s.error == 18 { s.server_time.to_be_bytes()[2..8].to_vec() } else { vec![] };
    if p.alg_name != want_alg {
        v(o, "tsig:algorithm", format!("algorithm name {} decoded, expected {}", name_text(&p.alg_name), name_text(&want_alg)));
    }
    if (p.time_signed, p.fudge, p.original_id, p.error) != (ts.time_signed, s.fudge, s.original_id, s.error) {
        v(
            o,
            "tsig:fields",
            format!(
                "time/fudge/original id/error {}/{}/{}/{} decoded, {}/{}/{}/{} given",
                p.time_signed, p.fudge, p.original_id, p.error, ts.time_signed, s.fudge, s.original_id, s.error
            ),
        );
    }
    if p.other != other {
        v(o, "tsig:other", format!("other data {} decoded, expected {}", qvlib::hex(&p.other), qvlib::hex(&other)));
    }
    let without = &out[..got.offset];
    let vars = TsigVars { key_name: s.key_name.clone(), alg_name: want_alg.clone(), time_signed: ts.time_signed, fudge: s.fudge, error: s.error, other: other.clone() };
    let want_mac: Vec<u8> = match ts.kind {
        TsigKind::Unsigned => vec![],
        TsigKind::Request => reftsig::mac_request(alg, &s.key, without, s.original_id, &vars),
        TsigKind::Response => reftsig::mac_response(alg, &s.key, &ts.other_mac, without, s.original_id, &vars),
        TsigKind::Subsequent => reftsig::mac_subsequent(alg, &s.key, &ts.other_mac, without, s.original_id, ts.time_signed, s.fudge),
    };
    if p.mac != want_mac {
        v(o, "tsig:mac", format!("MAC {} in the record, the reference RFC 8945 digest gives {} ({:?} mode)", qvlib::hex(&p.mac), qvlib::hex(&want_mac), ts.kind));
    }
    match (&run.mac, ts.kind) {
        (None, TsigKind::Unsigned) => {}
        (Some(mm), k) if k != TsigKind::Unsigned && *mm == p.mac => {}
        (got_mac, _) => v(o, "tsig:mac-returned", format!("finish_with_mac returned {:?}, the record carries {}", got_mac.as_ref().map(|x| qvlib::hex(x)), qvlib::hex(&p.mac))),
    }
}

pub fn short_hex(b: &[u8]) -> String {
    if b.len() <= 96 {
        qvlib::hex(b)
    } else {
        format!("{}..({} octets)..{}", qvlib::hex(&b[..48]), b.len(), qvlib::hex(&b[b.len() - 16..]))
    }
}
