//! Runs an operation sequence on the real `quandary::message::Writer`.
//! Nothing here judges anything: it translates plain-data operations into
//! API calls and records results, getter values and the finished octets.

use crate::ops::{tsig_pool, HintSpec, Mode, Op, TsigKind, TsigSpec, SUBSEQUENT_PRIOR_MAC};
use crate::refmodel::{RAdd, Res};
use quandary::class::Class;
use quandary::message::tsig::{Algorithm, PreparedTsigRr};
use quandary::message::writer::{CompressionMode, Error as WErr, Hint, HintPointerVec, HintedName, TsigMode, Writer};
use quandary::message::{ExtendedRcode, Opcode, Qclass, Qtype, Question, Rcode};
use quandary::name::{LowercaseName, Name};
use quandary::rr::rdata::TimeSigned;
use quandary::rr::{Rdata, RdataSetOwned, Ttl, Type};
use qvlib::wire::WName;
use std::sync::Arc;

/// Initial configuration of a history.
#[derive(Clone, Debug)]
pub struct Config {
    /// Size of the buffer handed to the writer.
    pub buf: usize,
    /// `Some(l)`: `Writer::new(buf, l)`; `None`: `Writer::try_from(buf)`.
    pub limit: Option<usize>,
}

impl Config {
    pub fn to_json(&self) -> qvlib::Value {
        qvlib::json!({"buf": self.buf, "limit": self.limit})
    }
    pub fn from_json(v: &qvlib::Value) -> Config {
        Config {
            buf: v.get("buf").and_then(|x| x.as_u64()).unwrap_or(65535) as usize,
            limit: v.get("limit").and_then(|x| x.as_u64()).map(|x| x as usize),
        }
    }
    pub fn effective_limit(&self) -> usize {
        self.limit.unwrap_or(self.buf).min(self.buf)
    }
}

/// An operation with everything pre-built that the API call needs.
pub struct ROp {
    pub op: Op,
    pub radd: Option<RAdd>,
    owner: Option<Box<Name>>,
    question: Option<Question>,
    single: Option<Box<Rdata>>,
    set: Option<RdataSetOwned>,
}

fn name_of(w: &[u8]) -> Box<Name> {
    Name::try_from_uncompressed_all(w).expect("harness built an invalid name")
}

impl ROp {
    pub fn new(op: &Op, radd: Option<RAdd>) -> ROp {
        let mut r = ROp { op: op.clone(), radd, owner: None, question: None, single: None, set: None };
        match op {
            Op::Question { name, qtype, qclass } => {
                r.question = Some(Question { qname: name_of(name), qtype: Qtype::from(*qtype), qclass: Qclass::from(*qclass) });
            }
            Op::Add { set, typ, class, rdatas, .. } => {
                let ra = r.radd.as_ref().expect("Add without resolution");
                r.owner = Some(name_of(&ra.owner));
                if *set {
                    let refs: Vec<&Rdata> = rdatas.iter().map(|x| <&Rdata>::try_from(&x[..]).expect("RDATA too long")).collect();
                    let s = RdataSetOwned::from_iter(Class::from(*class), Type::from(*typ), refs).expect("empty rrset in the alphabet");
                    // The alphabets only contain pairwise different RDATA; a
                    // silent de-duplication would invalidate the reference.
                    assert_eq!(s.iter().count(), rdatas.len(), "harness: RdataSetOwned dropped a member");
                    r.set = Some(s);
                } else {
                    let b: Box<Rdata> = rdatas[0].to_vec().try_into().expect("RDATA too long");
                    r.single = Some(b);
                }
            }
            _ => {}
        }
        r
    }
}

fn err_tag(e: WErr) -> &'static str {
    match e {
        WErr::CountOverflow => "CountOverflow",
        WErr::Truncation => "Truncation",
        WErr::OutOfOrder => "OutOfOrder",
        WErr::InvalidRdata => "InvalidRdata",
        WErr::NotEdns => "NotEdns",
        WErr::AlreadyEdns => "AlreadyEdns",
        WErr::ExtendedRcodeOverflow => "ExtendedRcodeOverflow",
        WErr::NotTsig => "NotTsig",
        WErr::AlreadyTsig => "AlreadyTsig",
        WErr::NotSignedTsig => "NotSignedTsig",
    }
}

fn res_of<T>(r: Result<T, WErr>) -> Res {
    match r {
        Ok(_) => Res::Ok,
        Err(e) => Res::Err(err_tag(e)),
    }
}

fn lname(w: &[u8]) -> Box<LowercaseName> {
    name_of(w).into()
}

fn tsig_args(s: &TsigSpec) -> (TsigMode, PreparedTsigRr) {
    let alg = if s.sha256 { Algorithm::HmacSha256 } else { Algorithm::HmacSha1 };
    let mode = match s.kind {
        TsigKind::Request => TsigMode::Request { algorithm: alg, key: s.key.clone().into() },
        TsigKind::Response => TsigMode::Response { algorithm: alg, request_mac: s.other_mac.clone().into(), key: s.key.clone().into() },
        TsigKind::Subsequent => TsigMode::Subsequent { algorithm: alg, prior_mac: s.other_mac.clone().into(), key: s.key.clone().into() },
        TsigKind::Unsigned => TsigMode::Unsigned { algorithm: lname(&s.unsigned_alg) },
    };
    let rr = PreparedTsigRr {
        key_name: lname(&s.key_name),
        time_signed: TimeSigned::try_from_unix_time(s.time_signed).expect("harness time"),
        fudge: s.fudge,
        original_id: s.original_id,
        error: ExtendedRcode::from(s.error),
        server_time: TimeSigned::try_from_unix_time(s.server_time).expect("harness time"),
    };
    (mode, rr)
}

/// Values of the writer's getters just before `finish`.
#[derive(Clone, Debug, PartialEq, Eq)]
pub struct Getters {
    pub id: u16,
    pub qr: bool,
    pub aa: bool,
    pub tc: bool,
    pub rd: bool,
    pub ra: bool,
    pub opcode: u8,
    pub rcode: u8,
    pub ext_rcode: u16,
    pub counts: [u16; 4],
}

pub struct RunOut {
    pub results: Vec<Res>,
    pub out: Vec<u8>,
    pub mac: Option<Vec<u8>>,
    pub getters: Getters,
    /// For every successful `hv` operation: which entries of the hint vector
    /// are present (index 0..16) — the harness can only observe presence.
    pub hv_present: Vec<(usize, Vec<bool>)>,
    /// The harness could not continue (a template could not be restored).
    pub broken: Option<String>,
}

/// Two scratch buffers per worker; the writer under test borrows one of them
/// (template operations move the message to the other one).
pub struct Bufs {
    a: Vec<u8>,
    b: Vec<u8>,
    dirty: [usize; 2],
}

impl Bufs {
    pub fn new() -> Bufs {
        Bufs { a: vec![0xaa; 65535], b: vec![0xaa; 65535], dirty: [0, 0] }
    }
}

const FILL: u8 = 0xaa;

/// Runs `ops` from a fresh writer and finishes the message. Panics inside
/// quandary propagate (the caller wraps this in `qvlib::catch`).
pub fn drive(bufs: &mut Bufs, cfg: &Config, ops: &[Arc<ROp>]) -> RunOut {
    // Deterministic buffer contents: whatever an earlier history left behind
    // is overwritten with the fill octet.
    let (da, db) = (bufs.dirty[0], bufs.dirty[1]);
    bufs.a[..da].fill(FILL);
    bufs.b[..db].fill(FILL);
    // Upper bound of what this run can write: header + every operation's
    // uncompressed encoding + slack for OPT and TSIG records.
    let mut est = 12 + 512;
    let mut uses_other = false;
    for r in ops {
        match &r.op {
            Op::Question { name, .. } => est += name.len() + 4,
            Op::Add { rdatas, .. } => est += rdatas.iter().map(|x| 255 + 10 + x.len()).sum::<usize>(),
            Op::Template { .. } | Op::TemplateSubsequent { .. } => uses_other = true,
            _ => {}
        }
    }
    let est = est.min(65535);
    bufs.dirty = [est, if uses_other { est } else { 0 }];
    let ptrs: [*mut u8; 2] = [bufs.a.as_mut_ptr(), bufs.b.as_mut_ptr()];
    // SAFETY: the two buffers are distinct 65 535-octet allocations that
    // outlive this function; at any time at most one live `Writer` borrows a
    // given buffer (a template operation consumes the writer before the next
    // one is created on the *other* buffer, or on the same one after the
    // failed attempt has been dropped).
    let slice = |which: usize, len: usize| -> &'static mut [u8] { unsafe { std::slice::from_raw_parts_mut(ptrs[which], len) } };

    let mut which = 0usize;
    let mut cur_len = cfg.buf;
    let mut w: Writer<'static> = match cfg.limit {
        Some(l) => Writer::new(slice(0, cfg.buf), l),
        None => Writer::try_from(slice(0, cfg.buf)),
    }
    .expect("harness: configuration cannot hold a header");

    let mut results = Vec::with_capacity(ops.len());
    let mut hv = HintPointerVec::new();
    let mut hv_present = Vec::new();
    let mut broken = None;

    for (i, rop) in ops.iter().enumerate() {
        let res = match &rop.op {
            Op::SetId(x) => {
                w.set_id(*x);
                Res::Unit
            }
            Op::SetQr(x) => {
                w.set_qr(*x);
                Res::Unit
            }
            Op::SetAa(x) => {
                w.set_aa(*x);
                Res::Unit
            }
            Op::SetTc(x) => {
                w.set_tc(*x);
                Res::Unit
            }
            Op::SetRd(x) => {
                w.set_rd(*x);
                Res::Unit
            }
            Op::SetRa(x) => {
                w.set_ra(*x);
                Res::Unit
            }
            Op::SetOpcode(x) => {
                w.set_opcode(Opcode::try_from(*x).expect("harness opcode"));
                Res::Unit
            }
            Op::SetRcode(x) => {
                w.set_rcode(Rcode::try_from(*x).expect("harness rcode"));
                Res::Unit
            }
            Op::SetExtRcode(x) => res_of(w.set_extended_rcode(ExtendedRcode::from(*x))),
            Op::SetLimit(n) => {
                w.set_limit(*n);
                Res::Unit
            }
            Op::SetMode(m) => {
                w.set_compression_mode(match m {
                    Mode::Standard => CompressionMode::Standard,
                    Mode::CasePreserving => CompressionMode::CasePreserving,
                    Mode::Disabled => CompressionMode::Disabled,
                });
                Res::Unit
            }
            Op::SetEdns(p) => res_of(w.set_edns(*p)),
            Op::SetTsig(k) => {
                let (mode, rr) = tsig_args(&tsig_pool()[*k]);
                res_of(w.set_tsig(mode, rr))
            }
            Op::UpdateTime(t) => res_of(w.update_time_signed(TimeSigned::try_from_unix_time(*t).expect("harness time"))),
            Op::ClearRrs => {
                w.clear_rrs();
                // Hints into the cleared records are void.
                hv = HintPointerVec::new();
                Res::Unit
            }
            Op::Template { buf } | Op::TemplateSubsequent { buf } => {
                let subsequent = matches!(rop.op, Op::TemplateSubsequent { .. });
                let t = w.into_template();
                let other = 1 - which;
                let attempt = if subsequent {
                    Writer::try_from_template_as_tsig_subsequent(slice(other, *buf), &t, SUBSEQUENT_PRIOR_MAC.to_vec().into())
                } else {
                    Writer::try_from_template(slice(other, *buf), &t)
                };
                match attempt {
                    Ok(nw) => {
                        w = nw;
                        which = other;
                        cur_len = *buf;
                        Res::Ok
                    }
                    Err(e) => {
                        // Continue from the same template on a buffer of the
                        // previous size (must always be possible).
                        match Writer::try_from_template(slice(other, cur_len), &t) {
                            Ok(nw) => {
                                w = nw;
                                which = other;
                            }
                            Err(e2) => {
                                broken = Some(format!("operation {i}: try_from_template on a buffer of the previous size ({cur_len}) failed with {}", err_tag(e2)));
                                // Give the loop something to finish with.
                                w = Writer::try_from(slice(other, 12)).expect("12-octet writer");
                                which = other;
                                results.push(Res::Err(err_tag(e)));
                                break;
                            }
                        }
                        Res::Err(err_tag(e))
                    }
                }
            }
            Op::Question { .. } => res_of(w.add_question(rop.question.as_ref().unwrap())),
            Op::Add { sec, set, typ, class, ttl, hv: use_hv, .. } => {
                let ra = rop.radd.as_ref().unwrap();
                let name: &Name = rop.owner.as_ref().unwrap();
                let owner = match ra.hint {
                    HintSpec::None => HintedName::new(Hint::None, name),
                    HintSpec::Qname => HintedName::new(Hint::Qname, name),
                    HintSpec::MostRecentOwner => HintedName::new(Hint::MostRecentOwner, name),
                    HintSpec::MostRecentNameInRdata => HintedName::new(Hint::MostRecentNameInRdata, name),
                    HintSpec::Explicit(k) => HintedName::from_hint_pointer_vec(&hv, k, name),
                };
                let (t, c, ttl) = (Type::from(*typ), Class::from(*class), Ttl::from(*ttl));
                let mut tmp = HintPointerVec::new();
                let hvo = if *use_hv { Some(&mut tmp) } else { None };
                let r = if *set {
                    let s = rop.set.as_ref().unwrap();
                    match sec {
                        0 => w.add_answer_rrset(owner, t, c, ttl, s, hvo),
                        1 => w.add_authority_rrset(owner, t, c, ttl, s, hvo),
                        _ => w.add_additional_rrset(owner, t, c, ttl, s, hvo),
                    }
                } else {
                    let rd: &Rdata = rop.single.as_ref().unwrap();
                    match sec {
                        0 => w.add_answer_rr(owner, t, c, ttl, rd, hvo),
                        1 => w.add_authority_rr(owner, t, c, ttl, rd, hvo),
                        _ => w.add_additional_rr(owner, t, c, ttl, rd, hvo),
                    }
                };
                if r.is_ok() && *use_hv {
                    hv_present.push((i, (0..17).map(|k| tmp.get(k).is_some()).collect()));
                    hv = tmp;
                }
                res_of(r)
            }
        };
        results.push(res);
    }

    let getters = Getters {
        id: w.id(),
        qr: w.qr(),
        aa: w.aa(),
        tc: w.tc(),
        rd: w.rd(),
        ra: w.ra(),
        opcode: u8::from(w.opcode()),
        rcode: u8::from(w.rcode()),
        ext_rcode: u16::from(w.extended_rcode()),
        counts: [w.qdcount(), w.ancount(), w.nscount(), w.arcount()],
    };
    let (len, mac) = w.finish_with_mac();
    let out_buf: &[u8] = if which == 0 { &bufs.a } else { &bufs.b };
    let out = out_buf[..len.min(65535)].to_vec();
    let mut ro = RunOut { results, out, mac: mac.map(|m| m.to_vec()), getters, hv_present, broken };
    if len > cur_len {
        ro.broken = Some(format!("finish() returned {len}, more than the {cur_len}-octet buffer"));
    }
    ro
}

/// `Writer::new(buf, limit)` / `Writer::try_from(buf)` on a buffer filled
/// with 0xaa: Some(finished octets) if construction succeeded.
pub fn construct(buf: usize, limit: Option<usize>) -> Option<Vec<u8>> {
    let mut b = vec![FILL; buf];
    let w = match limit {
        Some(l) => Writer::new(&mut b[..], l),
        None => Writer::try_from(&mut b[..]),
    };
    match w {
        Ok(w) => {
            let n = w.finish();
            Some(b[..n.min(buf)].to_vec())
        }
        Err(_) => None,
    }
}

#[allow(dead_code)]
pub fn wname_of(n: &Name) -> WName {
    n.wire_repr().to_vec()
}
