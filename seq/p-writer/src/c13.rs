//! C13 oracle: every compression pointer in the finished message points
//! strictly backwards to the first octet of a label of a name written
//! earlier; pointers sit only in QNAMEs, owners and RDATA names of RFC 1035
//! types; none at all in names written while compression was disabled.

use crate::c12::trailers;
use crate::dec::{uncompressed_name_spans, DMsg, FieldKind};
use crate::explore::Viol;
use crate::ops::Mode;
use crate::refmodel::RefState;
use qvlib::wire::{layout, name_text, F};

#[derive(Default, Clone, Debug)]
pub struct PtrStats {
    pub qname: usize,
    pub owner: usize,
    pub rdata: usize,
    /// Name fields that start beyond offset 0x3fff (unreachable by pointers).
    pub fields_beyond: usize,
    pub max_target: usize,
    /// Pointers whose target needs the upper six bits (> 255).
    pub high_targets: usize,
}

fn v(out: &mut Vec<Viol>, key: &str, detail: String) {
    out.push(Viol { key: key.to_string(), detail });
}

fn eq(expected: &[u8], got: &[u8], exact: bool) -> bool {
    if exact {
        expected == got
    } else {
        expected.len() == got.len() && expected.iter().zip(got.iter()).all(|(a, b)| a.eq_ignore_ascii_case(b))
    }
}

pub fn check(r: &RefState, m: &DMsg, out: &[u8]) -> (Vec<Viol>, PtrStats) {
    let mut o = Vec::new();
    let mut st = PtrStats::default();

    // Attribution of every record to the operation that wrote it needs the
    // expected shape.
    let want_counts = [r.qs.len(), r.rrs[0].len(), r.rrs[1].len(), r.rrs[2].len() + trailers(r)];
    let got_counts = [m.hdr.qdcount as usize, m.hdr.ancount as usize, m.hdr.nscount as usize, m.hdr.arcount as usize];
    if want_counts != got_counts {
        v(&mut o, "shape", format!("section counts {got_counts:?}, expected {want_counts:?}: name fields cannot be attributed to operations"));
        return (o, st);
    }

    // (mode in effect when the field was written, expected names of the RR)
    let n_regular = r.n_records();
    let mut rr_mode: Vec<Mode> = Vec::with_capacity(m.rrs.len());
    let mut rr_expected: Vec<Option<&crate::refmodel::RefRr>> = Vec::with_capacity(m.rrs.len());
    for sec in 0..3 {
        for want in &r.rrs[sec] {
            rr_mode.push(want.mode);
            rr_expected.push(Some(want));
        }
    }
    for _ in n_regular..m.rrs.len() {
        // OPT and TSIG are written by finish() in the mode then in effect.
        rr_mode.push(r.mode);
        rr_expected.push(None);
    }

    // Unknown-type and class-specific RDATA must be carried verbatim: a
    // pointer inside it is invisible to a decoder (RFC 3597 §4).
    for (i, rr) in m.rrs.iter().enumerate() {
        if let Some(want) = rr_expected[i] {
            let has_compressible = layout(rr.class, rr.typ).map(|l| l.iter().any(|f| *f == F::NameC)).unwrap_or(false);
            if !has_compressible {
                let raw = &out[rr.rd_off..rr.rd_off + rr.rd_len];
                if raw != &want.rdata[..] && !(rr_mode[i] == Mode::Standard && raw.eq_ignore_ascii_case(&want.rdata)) {
                    v(
                        &mut o,
                        "uncompressible-rdata-altered",
                        format!("record {i} (class {} type {}): RDATA on the wire ({} octets) differs from the RDATA given ({} octets); RFC 3597 §4 forbids compressing it", rr.class, rr.typ, raw.len(), want.rdata.len()),
                    );
                }
            }
        }
    }

    // Offsets of literal labels of earlier fields (ascending: fields are
    // visited in message order).
    let mut label_start: Vec<usize> = Vec::new();
    let mut qi = 0usize;
    let mut rdata_name_idx: Vec<usize> = vec![0; m.rrs.len()];
    for f in &m.fields {
        // Position of the field among the names of its record / question.
        let (mode, k) = match (f.kind, f.rr) {
            (FieldKind::Qname, _) => {
                qi += 1;
                (r.qs[qi - 1].mode, qi - 1)
            }
            (FieldKind::Owner, Some(i)) => (rr_mode[i], 0),
            (_, Some(i)) => {
                rdata_name_idx[i] += 1;
                (rr_mode[i], rdata_name_idx[i] - 1)
            }
            _ => (r.mode, 0),
        };
        if f.start > 0x3fff {
            st.fields_beyond += 1;
        }
        if let Some((at, target)) = f.ptr {
            match f.kind {
                FieldKind::Qname => st.qname += 1,
                FieldKind::Owner => st.owner += 1,
                _ => st.rdata += 1,
            }
            st.max_target = st.max_target.max(target);
            if target > 255 {
                st.high_targets += 1;
            }
            let whose = || match f.rr {
                Some(i) => format!("{} of record {i} (class {} type {})", f.kind.tag(), m.rrs[i].class, m.rrs[i].typ),
                None => "QNAME".to_string(),
            };
            if target >= at {
                v(&mut o, "pointer-not-backwards", format!("pointer at {at} in the {} targets {target}", whose()));
            } else if label_start.binary_search(&target).is_err() {
                v(
                    &mut o,
                    "pointer-target-not-label-start",
                    format!("pointer at {at} in the {} targets {target}, which is not the first octet of a label of a name written earlier", whose()),
                );
            }
            if f.kind == FieldKind::RdataU {
                v(&mut o, "pointer-in-uncompressible-rdata", format!("pointer at {at} in the {}: RFC 3597 §4 forbids compression there", whose()));
            }
            if mode == Mode::Disabled {
                v(&mut o, "pointer-while-disabled", format!("pointer at {at} in the {}, written while compression was disabled", whose()));
            }
            // The name the operation gave for this field.
            let expected: Option<Vec<u8>> = match (f.kind, f.rr) {
                (FieldKind::Qname, _) => Some(r.qs[k].name.clone()),
                (FieldKind::Owner, Some(i)) => rr_expected[i].map(|w| w.name.to_vec()),
                (_, Some(i)) => rr_expected[i].and_then(|w| uncompressed_name_spans(w.class, w.typ, &w.rdata).get(k).map(|(o, n, _)| w.rdata[*o..*o + *n].to_vec())),
                _ => None,
            };
            if let Some(exp) = &expected {
                if !eq(exp, &f.name, mode.exact()) {
                    v(
                        &mut o,
                        "pointer-wrong-name",
                        format!("the {} is compressed with a pointer at {at} to {target} and decompresses to {}, the name given was {} ({} mode)", whose(), name_text(&f.name), name_text(exp), mode.tag()),
                    );
                }
            }
        }
        label_start.extend_from_slice(&f.literal_starts);
    }
    (o, st)
}
