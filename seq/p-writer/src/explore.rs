//! The history search: exhaustive depth-first enumeration of all operation
//! sequences over an alphabet up to a depth bound, without merging (the
//! writer's compression hints are hidden state). Every node of the tree is a
//! history; it is run from scratch on the real writer, finished, decoded and
//! compared with the reference model.

use crate::c12;
use crate::c13;
use crate::dec::{self, DMsg};
use crate::drive::{drive, Bufs, Config, ROp, RunOut};
use crate::ops::Op;
use crate::refmodel::{RefState, Res};
use qvlib::{catch, hex, json, panic_key, Ctx, Local, Value};
use std::sync::atomic::{AtomicU64, Ordering};
use std::sync::Arc;

#[derive(Clone, Copy, Debug, PartialEq, Eq)]
pub enum Prop {
    C12,
    C13,
}

#[derive(Clone, Debug)]
pub struct Viol {
    pub key: String,
    pub detail: String,
}

pub struct Node {
    pub rops: Vec<Arc<ROp>>,
    pub results: Vec<Res>,
    /// Length of the message body (cursor) after each prefix; `[0]` = 12.
    pub cursors: Vec<usize>,
    pub refst: RefState,
    pub out: Vec<u8>,
    /// No violation on this history: its extensions are explored.
    pub clean: bool,
}

pub struct Family {
    pub name: &'static str,
    pub what: &'static str,
    pub alphabet: Vec<Op>,
    pub configs: Vec<Config>,
    pub depth: usize,
}

/// Global totals (merged from the per-worker `Tally`s).
#[derive(Default)]
pub struct Counters {
    pub histories: AtomicU64,
    pub op_calls: AtomicU64,
    pub runs: AtomicU64,
    pub pruned: AtomicU64,
    pub pointers: AtomicU64,
    pub histories_with_pointer: AtomicU64,
    pub high_targets: AtomicU64,
    pub max_target: AtomicU64,
}

/// Per-worker counts (no sharing while a shard runs).
#[derive(Default)]
pub struct Tally {
    pub histories: u64,
    pub op_calls: u64,
    pub runs: u64,
    pub pruned: u64,
    pub pointers: u64,
    pub histories_with_pointer: u64,
    pub high_targets: u64,
    pub max_target: u64,
}

impl Tally {
    pub fn merge_into(&mut self, c: &Counters) {
        c.histories.fetch_add(self.histories, Ordering::Relaxed);
        c.op_calls.fetch_add(self.op_calls, Ordering::Relaxed);
        c.runs.fetch_add(self.runs, Ordering::Relaxed);
        c.pruned.fetch_add(self.pruned, Ordering::Relaxed);
        c.pointers.fetch_add(self.pointers, Ordering::Relaxed);
        c.histories_with_pointer.fetch_add(self.histories_with_pointer, Ordering::Relaxed);
        c.high_targets.fetch_add(self.high_targets, Ordering::Relaxed);
        c.max_target.fetch_max(self.max_target, Ordering::Relaxed);
        *self = Tally::default();
    }
}

/// Violations found so far: per key the number of occurrences and the
/// shortest history that shows it (so that the replay file is a minimal
/// case of the explored space, not whichever shard reported first).
#[derive(Default)]
pub struct Found {
    map: std::sync::Mutex<std::collections::BTreeMap<String, (u64, usize, Value)>>,
}

impl Found {
    fn add<F: FnOnce() -> Value>(&self, key: &str, len: usize, case: F) {
        let mut m = self.map.lock().unwrap();
        match m.get_mut(key) {
            Some(e) => {
                e.0 += 1;
                if len < e.1 {
                    e.1 = len;
                    e.2 = case();
                }
            }
            None => {
                if m.len() < 200 {
                    m.insert(key.to_string(), (1, len, case()));
                }
            }
        }
    }
    /// Hands everything to the runner (which writes the replay files).
    pub fn flush(&self, ctx: &Ctx) {
        let m = self.map.lock().unwrap();
        for (key, (n, _, case)) in m.iter() {
            ctx.violation(key, case.clone());
            for _ in 1..*n {
                ctx.violation(key, Value::Null);
            }
        }
    }
}

pub struct StepInfo {
    pub class: String,
    pub viols: Vec<Viol>,
}

fn case_json(family: &str, cfg: &Config, ops: &[&Op], results: &[Res], out: Option<&[u8]>, detail: &str) -> Value {
    json!({
        "family": family,
        "config": cfg.to_json(),
        "ops": ops.iter().map(|o| o.to_json()).collect::<Vec<_>>(),
        "results": results.iter().map(|r| r.tag()).collect::<Vec<_>>(),
        "violation": detail,
        "finished_message": out.map(|o| if o.len() <= 600 { hex(o) } else { format!("{}.. ({} octets)", hex(&o[..600]), o.len()) }),
    })
}

fn run_caught(bufs: &mut Bufs, cfg: &Config, rops: &[Arc<ROp>]) -> Result<RunOut, String> {
    catch(|| drive(bufs, cfg, rops))
}

/// Length of the message body before finish() appended OPT / TSIG.
fn body_len(r: &RefState, m: &DMsg) -> Option<usize> {
    let t = c12::trailers(r);
    if t == 0 {
        Some(m.len)
    } else if m.rrs.len() >= t {
        Some(m.rrs[m.rrs.len() - t].offset)
    } else {
        None
    }
}

/// Evaluates the history `parent + op` (or the empty history if `op` is
/// None). Returns the node and what was found.
pub fn step(prop: Prop, cfg: &Config, parent: Option<&Node>, op: Option<&Op>, bufs: &mut Bufs, cnt: &mut Tally) -> (Node, StepInfo) {
    let mut viols: Vec<Viol> = Vec::new();
    let (mut rops, parent_results, mut cursors, mut refst, parent_out): (Vec<Arc<ROp>>, &[Res], Vec<usize>, RefState, Option<&[u8]>) = match parent {
        Some(p) => (p.rops.clone(), &p.results, p.cursors.clone(), p.refst.clone(), Some(&p.out)),
        None => (vec![], &[], vec![], RefState::new(cfg.buf, cfg.effective_limit()), None),
    };
    let radd = op.and_then(|o| refst.resolve(o));
    if let Some(o) = op {
        rops.push(Arc::new(ROp::new(o, radd.clone())));
    }
    cnt.runs += 1;
    cnt.op_calls += rops.len() as u64;

    let fail = |key: String, detail: String, rops: Vec<Arc<ROp>>, refst: RefState| {
        (
            Node { rops, results: vec![], cursors: vec![], refst, out: vec![], clean: false },
            StepInfo { class: format!("aborted:{key}"), viols: vec![Viol { key, detail }] },
        )
    };

    let run = match run_caught(bufs, cfg, &rops) {
        Ok(r) => r,
        Err(p) => return fail(panic_key(&p), format!("panic: {p}"), rops, refst),
    };
    if let Some(b) = &run.broken {
        return fail("harness-cannot-continue".into(), b.clone(), rops, refst);
    }
    if run.results.len() != rops.len() {
        return fail("harness-short-run".into(), "the run stopped early".into(), rops, refst);
    }
    // Determinism: the prefix behaves as it did when it was a history itself.
    if run.results[..parent_results.len()] != *parent_results {
        viols.push(Viol {
            key: "nondeterministic-prefix".into(),
            detail: format!("results of the prefix changed between two runs: {:?} then {:?}", parent_results, &run.results[..parent_results.len()]),
        });
    }

    let last = run.results.last().copied();
    let cursor_before = cursors.last().copied().unwrap_or(12);
    if let (Some(o), Some(res)) = (op, last) {
        let verdicts = refst.apply(o, radd.as_ref(), res, cursor_before);
        if prop == Prop::C12 {
            for (key, detail) in verdicts {
                let key = if key.contains("Err(Truncation)") { format!("spurious-truncation:{}", o.kind()) } else { key };
                viols.push(Viol { key, detail: format!("{detail} (message body {cursor_before} octets, reserved {}, limit {})", refst.reserved, refst.limit) });
            }
        }
    }

    let m = match dec::decode(&run.out) {
        Ok(m) => m,
        Err(e) => {
            viols.push(Viol { key: "undecodable".into(), detail: format!("the finished message does not decode: {e}") });
            let class = format!("aborted:undecodable");
            return (Node { rops, results: run.results, cursors, refst, out: run.out, clean: false }, StepInfo { class, viols });
        }
    };

    let op_refs: Vec<&Op> = rops.iter().map(|r| &r.op).collect();
    let mut class;
    match prop {
        Prop::C12 => {
            viols.extend(c12::check(&refst, &m, &run.out, &run, &op_refs));
            class = match (op, last) {
                (Some(o), Some(r)) => format!("{}:{}", o.kind(), r.tag()),
                _ => "empty-history".to_string(),
            };
            class.push_str(match (refst.n_records() > 0, refst.edns.is_some(), refst.tsig.is_some()) {
                (false, false, false) => "|no-records",
                (true, false, false) => "|records",
                (false, true, false) => "|opt",
                (true, true, false) => "|records+opt",
                (false, false, true) => "|tsig",
                (true, false, true) => "|records+tsig",
                (false, true, true) => "|opt+tsig",
                (true, true, true) => "|records+opt+tsig",
            });
        }
        Prop::C13 => {
            let (vs, st) = c13::check(&refst, &m, &run.out);
            viols.extend(vs);
            let np = st.qname + st.owner + st.rdata;
            cnt.pointers += np as u64;
            cnt.high_targets += st.high_targets as u64;
            cnt.max_target = cnt.max_target.max(st.max_target as u64);
            if np > 0 {
                cnt.histories_with_pointer += 1;
            }
            class = format!(
                "ptrs:qname{}/owner{}/rdata{}|mode={}|{}{}",
                st.qname.min(1),
                st.owner.min(3),
                st.rdata.min(3),
                refst.mode.tag(),
                if st.fields_beyond > 0 { "names-beyond-0x3fff" } else { "within-0x3fff" },
                match last {
                    Some(r) if r.failed() => "|last-op-failed",
                    _ => "",
                }
            );
        }
    }

    // Message body length after this history (feeds the reference model of
    // the extensions: limit clamping, remaining space).
    let cursor_after = match body_len(&refst, &m) {
        Some(c) => c,
        None => {
            viols.push(Viol { key: "trailers-missing".into(), detail: "OPT/TSIG expected at the end are not there".into() });
            cursor_before
        }
    };
    cursors.push(if parent.is_none() { 12.max(cursor_after) } else { cursor_after });
    if parent.is_none() && cursor_after != 12 && prop == Prop::C12 {
        viols.push(Viol { key: "empty-history".into(), detail: format!("a fresh writer finishes to {cursor_after} octets") });
    }

    if prop == Prop::C12 {
        if let (Some(res), Some(po)) = (last, parent_out) {
            if res.failed() {
                // A failed operation leaves the message unchanged.
                if po != &run.out[..] {
                    viols.push(Viol {
                        key: format!("failed-op-changed-message:{}", op.map(|o| o.kind()).unwrap_or_default()),
                        detail: format!("the operation failed with {} but the finished message differs from the one without it: {} vs {}", res.tag(), c12::short_hex(&run.out), c12::short_hex(po)),
                    });
                }
            } else if parent_results.iter().any(|r| r.failed()) {
                // Earlier failed operations must not have left hidden state
                // behind: the same history without them finishes identically.
                let reduced: Vec<Arc<ROp>> = rops.iter().zip(run.results.iter()).filter(|(_, r)| !r.failed()).map(|(o, _)| o.clone()).collect();
                cnt.runs += 1;
                cnt.op_calls += reduced.len() as u64;
                match run_caught(bufs, cfg, &reduced) {
                    Ok(r2) => {
                        if r2.results.iter().any(|r| r.failed()) {
                            viols.push(Viol {
                                key: "failed-op-hidden-state:result".into(),
                                detail: format!("without the failed operations the remaining ones give {:?}", r2.results.iter().map(|r| r.tag()).collect::<Vec<_>>()),
                            });
                        } else if r2.out != run.out {
                            viols.push(Viol {
                                key: "failed-op-hidden-state:message".into(),
                                detail: format!("without the failed operations the finished message is {} instead of {}", c12::short_hex(&r2.out), c12::short_hex(&run.out)),
                            });
                        }
                    }
                    Err(p) => viols.push(Viol { key: panic_key(&p), detail: format!("panic in the history without the failed operations: {p}") }),
                }
            }
        }
    }

    let clean = viols.is_empty();
    (Node { rops, results: run.results, cursors, refst, out: run.out, clean }, StepInfo { class, viols })
}

fn report(l: &mut Local, found: &Found, fam: &Family, cfg: &Config, node: &Node, info: &StepInfo) {
    l.tick();
    l.outcome(&info.class, || {
        let ops: Vec<&Op> = node.rops.iter().map(|r| &r.op).collect();
        case_json(fam.name, cfg, &ops, &node.results, None, "")
    });
    for v in &info.viols {
        found.add(&v.key, node.rops.len(), || {
            let ops: Vec<&Op> = node.rops.iter().map(|r| &r.op).collect();
            case_json(fam.name, cfg, &ops, &node.results, Some(&node.out), &v.detail)
        });
    }
}

#[allow(clippy::too_many_arguments)]
fn dfs(prop: Prop, fam: &Family, cfg: &Config, node: &Node, depth_left: usize, bufs: &mut Bufs, cnt: &mut Tally, l: &mut Local, found: &Found) {
    for op in &fam.alphabet {
        let (child, info) = step(prop, cfg, Some(node), Some(op), bufs, cnt);
        cnt.histories += 1;
        report(l, found, fam, cfg, &child, &info);
        if depth_left > 1 {
            if child.clean {
                dfs(prop, fam, cfg, &child, depth_left - 1, bufs, cnt, l, found);
            } else {
                cnt.pruned += 1;
            }
        }
    }
}

/// Explores one family exhaustively. Work is split by the first
/// `split` operations of the history.
/// Returns the number of shards skipped because the wall-clock cap was hit.
pub fn explore_family(ctx: &Ctx, prop: Prop, fam: &Family, totals: &Counters, found: &Found, wall_cap_s: f64) -> (usize, usize) {
    let m = fam.alphabet.len();
    let split = if fam.depth >= 3 && m * m <= 4096 { 2 } else { 1 }.min(fam.depth);
    // Shards: (config index, first `split` operation indices).
    let mut shards: Vec<(usize, Vec<usize>)> = Vec::new();
    for ci in 0..fam.configs.len() {
        qvlib::enumerate::for_each_seq_exact(m, split, |s| {
            shards.push((ci, s.to_vec()));
            true
        });
    }
    // Rotate the visiting order with the seed (coverage is unaffected).
    let rot = (ctx.seed as usize) % shards.len().max(1);
    shards.rotate_left(rot);
    let skipped = std::sync::atomic::AtomicUsize::new(0);
    ctx.par_for_each(&shards, |l, (ci, first)| {
        if ctx.elapsed_s() > wall_cap_s {
            skipped.fetch_add(1, Ordering::Relaxed);
            return;
        }
        thread_local! {
            static BUFS: std::cell::RefCell<Bufs> = std::cell::RefCell::new(Bufs::new());
        }
        BUFS.with(|b| {
            let bufs = &mut *b.borrow_mut();
            let cfg = &fam.configs[*ci];
            let mut tally = Tally::default();
            let cnt = &mut tally;
            explore_shard(prop, fam, cfg, first, split, bufs, cnt, l, found);
            tally.merge_into(totals);
        });
    });
    (skipped.load(Ordering::Relaxed), shards.len())
}

#[allow(clippy::too_many_arguments)]
fn explore_shard(prop: Prop, fam: &Family, cfg: &Config, first: &[usize], split: usize, bufs: &mut Bufs, cnt: &mut Tally, l: &mut Local, found: &Found) {
    // Walk down to the shard's node. Nodes above it are reported by
    // exactly one shard: the one whose remaining indices are all 0.
    let (mut node, info) = step(prop, cfg, None, None, bufs, cnt);
    if first.iter().all(|x| *x == 0) {
        cnt.histories += 1;
        report(l, found, fam, cfg, &node, &info);
    }
    if !node.clean {
        return;
    }
    for (k, oi) in first.iter().enumerate() {
        let (child, info) = step(prop, cfg, Some(&node), Some(&fam.alphabet[*oi]), bufs, cnt);
        if first[k + 1..].iter().all(|x| *x == 0) {
            cnt.histories += 1;
            report(l, found, fam, cfg, &child, &info);
        }
        if !child.clean {
            if k + 1 < first.len() || fam.depth > split {
                cnt.pruned += 1;
            }
            return;
        }
        node = child;
    }
    if fam.depth > split {
        dfs(prop, fam, cfg, &node, fam.depth - split, bufs, cnt, l, found);
    }
}

/// Number of histories of a family (all sequences of length 0..=depth, per
/// configuration).
pub fn family_size(fam: &Family) -> u64 {
    qvlib::enumerate::count_seq_upto(fam.alphabet.len(), fam.depth) * fam.configs.len() as u64
}

/// Replays one recorded history (every prefix is re-evaluated because the
/// reference model needs the body length after each prefix). Returns the
/// violations of the full history (or of the first prefix that violates).
pub fn replay(prop: Prop, case: &Value) -> Result<(Vec<Viol>, Value), String> {
    let cfg = Config::from_json(case.get("config").ok_or("replay case lacks config")?);
    let ops: Vec<Op> = case.get("ops").and_then(|x| x.as_array()).ok_or("replay case lacks ops")?.iter().map(Op::from_json).collect::<Result<_, _>>()?;
    if cfg.buf < 12 || cfg.effective_limit() < 12 || cfg.buf > 65535 {
        return Err("configuration cannot hold a header".into());
    }
    let mut cnt = Tally::default();
    let mut bufs = Bufs::new();
    let (mut node, mut info) = step(prop, &cfg, None, None, &mut bufs, &mut cnt);
    let mut done = 0;
    for op in &ops {
        if !node.clean {
            break;
        }
        let (n, i) = step(prop, &cfg, Some(&node), Some(op), &mut bufs, &mut cnt);
        node = n;
        info = i;
        done += 1;
    }
    let op_refs: Vec<&Op> = ops.iter().take(done).collect();
    let shown = json!({
        "config": cfg.to_json(),
        "ops_evaluated": done,
        "ops": op_refs.iter().map(|o| o.to_json()).collect::<Vec<_>>(),
        "results": node.results.iter().map(|r| r.tag()).collect::<Vec<_>>(),
        "finished_message": hex(&node.out[..node.out.len().min(2000)]),
        "finished_len": node.out.len(),
        "violations": info.viols.iter().map(|v| json!({"key": v.key, "detail": v.detail})).collect::<Vec<_>>(),
    });
    Ok((info.viols, shown))
}
