//! Writer operations as plain data (the alphabet of the history search),
//! their JSON form (replay files), and the fixed TSIG parameter pool.

use qvlib::wire::{name_text, WName};
use qvlib::{hex, json, unhex, Value};
use std::sync::Arc;

#[derive(Clone, Copy, Debug, PartialEq, Eq)]
pub enum Mode {
    Standard,
    CasePreserving,
    Disabled,
}

impl Mode {
    pub fn tag(self) -> &'static str {
        match self {
            Mode::Standard => "standard",
            Mode::CasePreserving => "case-preserving",
            Mode::Disabled => "disabled",
        }
    }
    pub fn from_tag(s: &str) -> Mode {
        match s {
            "case-preserving" => Mode::CasePreserving,
            "disabled" => Mode::Disabled,
            _ => Mode::Standard,
        }
    }
    /// Names written in this mode must decode octet-for-octet.
    pub fn exact(self) -> bool {
        self != Mode::Standard
    }
}

#[derive(Clone, Copy, Debug, PartialEq, Eq)]
pub enum HintSpec {
    None,
    Qname,
    MostRecentOwner,
    MostRecentNameInRdata,
    /// Entry `k` of the hint vector filled by the most recent successful
    /// `hv: true` operation.
    Explicit(usize),
}

impl HintSpec {
    pub fn tag(self) -> String {
        match self {
            HintSpec::None => "none".into(),
            HintSpec::Qname => "qname".into(),
            HintSpec::MostRecentOwner => "most-recent-owner".into(),
            HintSpec::MostRecentNameInRdata => "most-recent-name-in-rdata".into(),
            HintSpec::Explicit(k) => format!("explicit:{k}"),
        }
    }
    pub fn from_tag(s: &str) -> HintSpec {
        match s {
            "qname" => HintSpec::Qname,
            "most-recent-owner" => HintSpec::MostRecentOwner,
            "most-recent-name-in-rdata" => HintSpec::MostRecentNameInRdata,
            x if x.starts_with("explicit:") => HintSpec::Explicit(x[9..].parse().unwrap_or(0)),
            _ => HintSpec::None,
        }
    }
}

/// Owner of a record to add. With a hint other than `None` the name actually
/// passed is the one the API contract requires (the QNAME, the most recent
/// owner, ...) as known to the reference model, in flipped ASCII case if
/// `flip`; `name` is used when the reference model knows no such prior name
/// (the writer documents that it checks the *existence* of the prior
/// occurrence itself).
#[derive(Clone, Debug)]
pub struct Owner {
    pub name: WName,
    pub hint: HintSpec,
    pub flip: bool,
}

#[derive(Clone, Debug)]
pub enum Op {
    SetId(u16),
    SetQr(bool),
    SetAa(bool),
    SetTc(bool),
    SetRd(bool),
    SetRa(bool),
    SetOpcode(u8),
    SetRcode(u8),
    SetExtRcode(u16),
    SetLimit(usize),
    SetMode(Mode),
    SetEdns(u16),
    /// `set_tsig` with entry `i` of `tsig_pool()`.
    SetTsig(usize),
    UpdateTime(u64),
    ClearRrs,
    /// `into_template` followed by `try_from_template` on a fresh buffer of
    /// `buf` octets (on failure the harness continues from the same template
    /// on a buffer of the previous size).
    Template { buf: usize },
    /// Same through `try_from_template_as_tsig_subsequent`.
    TemplateSubsequent { buf: usize },
    Question { name: WName, qtype: u16, qclass: u16 },
    /// add_{answer,authority,additional}_{rr,rrset}; `sec` 0/1/2; `set`
    /// selects the rrset variant (always with `rdatas.len() >= 1`); `hv`
    /// passes a hint vector.
    Add { sec: u8, set: bool, owner: Owner, typ: u16, class: u16, ttl: u32, rdatas: Vec<Arc<[u8]>>, hv: bool },
}

impl Op {
    /// Short kind tag for outcome classes.
    pub fn kind(&self) -> String {
        match self {
            Op::SetId(_) => "set_id".into(),
            Op::SetQr(_) | Op::SetAa(_) | Op::SetTc(_) | Op::SetRd(_) | Op::SetRa(_) => "set_flag".into(),
            Op::SetOpcode(_) => "set_opcode".into(),
            Op::SetRcode(_) => "set_rcode".into(),
            Op::SetExtRcode(_) => "set_extended_rcode".into(),
            Op::SetLimit(_) => "set_limit".into(),
            Op::SetMode(_) => "set_compression_mode".into(),
            Op::SetEdns(_) => "set_edns".into(),
            Op::SetTsig(_) => "set_tsig".into(),
            Op::UpdateTime(_) => "update_time_signed".into(),
            Op::ClearRrs => "clear_rrs".into(),
            Op::Template { .. } => "template".into(),
            Op::TemplateSubsequent { .. } => "template_subsequent".into(),
            Op::Question { .. } => "add_question".into(),
            Op::Add { sec, set, owner, .. } => format!(
                "add_{}_{}[{}]",
                ["answer", "authority", "additional"][*sec as usize],
                if *set { "rrset" } else { "rr" },
                match owner.hint {
                    HintSpec::Explicit(_) => "explicit".to_string(),
                    h => h.tag(),
                }
            ),
        }
    }

    pub fn to_json(&self) -> Value {
        match self {
            Op::SetId(v) => json!({"op": "set_id", "v": v}),
            Op::SetQr(v) => json!({"op": "set_qr", "v": v}),
            Op::SetAa(v) => json!({"op": "set_aa", "v": v}),
            Op::SetTc(v) => json!({"op": "set_tc", "v": v}),
            Op::SetRd(v) => json!({"op": "set_rd", "v": v}),
            Op::SetRa(v) => json!({"op": "set_ra", "v": v}),
            Op::SetOpcode(v) => json!({"op": "set_opcode", "v": v}),
            Op::SetRcode(v) => json!({"op": "set_rcode", "v": v}),
            Op::SetExtRcode(v) => json!({"op": "set_extended_rcode", "v": v}),
            Op::SetLimit(v) => json!({"op": "set_limit", "v": v}),
            Op::SetMode(m) => json!({"op": "set_compression_mode", "v": m.tag()}),
            Op::SetEdns(v) => json!({"op": "set_edns", "v": v}),
            Op::SetTsig(i) => json!({"op": "set_tsig", "v": i, "what": tsig_pool()[*i].what}),
            Op::UpdateTime(v) => json!({"op": "update_time_signed", "v": v}),
            Op::ClearRrs => json!({"op": "clear_rrs"}),
            Op::Template { buf } => json!({"op": "template", "buf": buf}),
            Op::TemplateSubsequent { buf } => json!({"op": "template_subsequent", "buf": buf}),
            Op::Question { name, qtype, qclass } => {
                json!({"op": "add_question", "name": hex(name), "name_text": name_text(name), "qtype": qtype, "qclass": qclass})
            }
            Op::Add { sec, set, owner, typ, class, ttl, rdatas, hv } => json!({
                "op": "add", "sec": sec, "set": set,
                "owner": hex(&owner.name), "owner_text": name_text(&owner.name),
                "hint": owner.hint.tag(), "flip": owner.flip,
                "type": typ, "class": class, "ttl": ttl,
                "rdatas": rdatas.iter().map(|r| compact_hex(r)).collect::<Vec<_>>(),
                "hv": hv,
            }),
        }
    }

    pub fn from_json(v: &Value) -> Result<Op, String> {
        let s = |k: &str| v.get(k).and_then(|x| x.as_str()).ok_or(format!("op lacks string {k}: {v}"));
        let n = |k: &str| v.get(k).and_then(|x| x.as_u64()).ok_or(format!("op lacks number {k}: {v}"));
        let b = |k: &str| v.get(k).and_then(|x| x.as_bool()).ok_or(format!("op lacks bool {k}: {v}"));
        Ok(match s("op")? {
            "set_id" => Op::SetId(n("v")? as u16),
            "set_qr" => Op::SetQr(b("v")?),
            "set_aa" => Op::SetAa(b("v")?),
            "set_tc" => Op::SetTc(b("v")?),
            "set_rd" => Op::SetRd(b("v")?),
            "set_ra" => Op::SetRa(b("v")?),
            "set_opcode" => Op::SetOpcode(n("v")? as u8),
            "set_rcode" => Op::SetRcode(n("v")? as u8),
            "set_extended_rcode" => Op::SetExtRcode(n("v")? as u16),
            "set_limit" => Op::SetLimit(n("v")? as usize),
            "set_compression_mode" => Op::SetMode(Mode::from_tag(s("v")?)),
            "set_edns" => Op::SetEdns(n("v")? as u16),
            "set_tsig" => Op::SetTsig(n("v")? as usize),
            "update_time_signed" => Op::UpdateTime(n("v")?),
            "clear_rrs" => Op::ClearRrs,
            "template" => Op::Template { buf: n("buf")? as usize },
            "template_subsequent" => Op::TemplateSubsequent { buf: n("buf")? as usize },
            "add_question" => Op::Question { name: unhex(s("name")?), qtype: n("qtype")? as u16, qclass: n("qclass")? as u16 },
            "add" => {
                let rdatas = v
                    .get("rdatas")
                    .and_then(|x| x.as_array())
                    .ok_or("add lacks rdatas")?
                    .iter()
                    .map(|r| compact_unhex(r.as_str().unwrap_or("")).into())
                    .collect();
                Op::Add {
                    sec: n("sec")? as u8,
                    set: b("set")?,
                    owner: Owner { name: unhex(s("owner")?), hint: HintSpec::from_tag(s("hint")?), flip: b("flip")? },
                    typ: n("type")? as u16,
                    class: n("class")? as u16,
                    ttl: n("ttl")? as u32,
                    rdatas,
                    hv: b("hv")?,
                }
            }
            other => return Err(format!("unknown op {other}")),
        })
    }
}

/// Hex with a run-length form for long runs of one octet ("<count>*<xx>"),
/// so that a 16 KiB TXT record does not bloat replay files. Segments are
/// separated by spaces.
fn compact_hex(b: &[u8]) -> String {
    if b.len() < 256 {
        return hex(b);
    }
    let mut out = String::new();
    let mut i = 0;
    let mut lit_start = 0;
    while i < b.len() {
        let mut j = i;
        while j < b.len() && b[j] == b[i] {
            j += 1;
        }
        if j - i >= 16 {
            if lit_start < i {
                out.push_str(&hex(&b[lit_start..i]));
                out.push(' ');
            }
            out.push_str(&format!("{}*{:02x} ", j - i, b[i]));
            lit_start = j;
        }
        i = j;
    }
    if lit_start < b.len() {
        out.push_str(&hex(&b[lit_start..]));
    }
    out.trim_end().to_string()
}

fn compact_unhex(s: &str) -> Vec<u8> {
    let mut out = Vec::new();
    for seg in s.split_whitespace() {
        if let Some((n, x)) = seg.split_once('*') {
            let n: usize = n.parse().unwrap_or(0);
            let x = unhex(x);
            out.extend(std::iter::repeat(x.first().copied().unwrap_or(0)).take(n));
        } else {
            out.extend_from_slice(&unhex(seg));
        }
    }
    out
}

// ------------------------------------------------------------ TSIG pool

#[derive(Clone, Copy, Debug, PartialEq, Eq)]
pub enum TsigKind {
    Request,
    Response,
    Subsequent,
    Unsigned,
}

#[derive(Clone, Debug)]
pub struct TsigSpec {
    pub what: &'static str,
    pub kind: TsigKind,
    /// true: HMAC-SHA256, false: HMAC-SHA1 (signing modes only).
    pub sha256: bool,
    /// Algorithm name for the unsigned mode (wire form, lower case).
    pub unsigned_alg: WName,
    pub key: Vec<u8>,
    /// Request MAC (Response) or prior MAC (Subsequent).
    pub other_mac: Vec<u8>,
    pub key_name: WName,
    pub time_signed: u64,
    pub fudge: u16,
    pub original_id: u16,
    pub error: u16,
    pub server_time: u64,
}

/// MAC handed to `try_from_template_as_tsig_subsequent`.
pub const SUBSEQUENT_PRIOR_MAC: [u8; 20] = [0x5a; 20];

pub fn tsig_pool() -> &'static [TsigSpec] {
    static POOL: std::sync::OnceLock<Vec<TsigSpec>> = std::sync::OnceLock::new();
    POOL.get_or_init(|| {
        let base = TsigSpec {
            what: "",
            kind: TsigKind::Unsigned,
            sha256: true,
            unsigned_alg: qvlib::wire::wname("hmac-sha256."),
            key: b"0123456789abcdef0123456789abcdef".to_vec(),
            other_mac: vec![],
            // Shares a suffix with the name pool so that the TSIG owner can
            // be compressed by the writer at finish().
            key_name: qvlib::wire::wname("k.example.test."),
            time_signed: 0x0000_6543_2100,
            fudge: 300,
            original_id: 0x1234,
            error: 0,
            server_time: 0x0000_6543_2fff,
        };
        vec![
            TsigSpec { what: "unsigned, hmac-sha256 name, NOERROR", ..base.clone() },
            TsigSpec { what: "request, HMAC-SHA256", kind: TsigKind::Request, ..base.clone() },
            TsigSpec {
                what: "response, HMAC-SHA1, 20-octet request MAC",
                kind: TsigKind::Response,
                sha256: false,
                other_mac: (1..=20).collect(),
                key: b"short".to_vec(),
                ..base.clone()
            },
            TsigSpec {
                what: "subsequent, HMAC-SHA256, 32-octet prior MAC",
                kind: TsigKind::Subsequent,
                other_mac: (101..=132).collect(),
                key_name: qvlib::wire::wname("key."),
                ..base.clone()
            },
            TsigSpec {
                what: "unsigned, unknown algorithm name, BADTIME (other data = server time)",
                unsigned_alg: qvlib::wire::wname("unknown-alg.example.test."),
                error: 18,
                original_id: 0xffff,
                fudge: 0xffff,
                time_signed: 0xffff_ffff_ffff,
                ..base.clone()
            },
            TsigSpec {
                what: "response, HMAC-SHA256, empty request MAC, BADSIG",
                kind: TsigKind::Response,
                error: 16,
                ..base
            },
        ]
    })
}
