//! Reference model of a DNS message under construction, written from the
//! writer's documented API contract, RFC 1035 §4.1, RFC 6891 §6.1.3 and
//! RFC 8945 §4.2. It never calls quandary. It is told the result of every
//! operation (it does not predict success in general, because whether a
//! record fits depends on how well it compressed) and
//!   * records what a successful operation must have added,
//!   * rejects results that the contract cannot explain (an error kind whose
//!     documented cause is absent; `Truncation` although the operation's
//!     uncompressed encoding fits in the remaining space),
//!   * tracks the size limit in effect, the reserved space, the compression
//!     mode and the names that hints may legally refer to.

#![allow(dead_code)]

use crate::dec::uncompressed_name_spans;
use crate::ops::{tsig_pool, HintSpec, Mode, Op, TsigKind, SUBSEQUENT_PRIOR_MAC};
use qvlib::wire::WName;
use std::sync::Arc;

#[derive(Clone, Copy, Debug, PartialEq, Eq)]
pub enum Res {
    /// The operation has no result (infallible setter).
    Unit,
    Ok,
    Err(&'static str),
}

impl Res {
    pub fn failed(self) -> bool {
        matches!(self, Res::Err(_))
    }
    pub fn tag(self) -> String {
        match self {
            Res::Unit => "done".into(),
            Res::Ok => "Ok".into(),
            Res::Err(e) => format!("Err({e})"),
        }
    }
}

#[derive(Clone, Debug)]
pub struct RefQ {
    pub name: WName,
    pub qtype: u16,
    pub qclass: u16,
    pub mode: Mode,
}

#[derive(Clone, Debug)]
pub struct RefRr {
    pub name: Arc<[u8]>,
    pub typ: u16,
    pub class: u16,
    pub ttl: u32,
    pub rdata: Arc<[u8]>,
    pub mode: Mode,
}

#[derive(Clone, Debug)]
pub struct RefTsig {
    pub spec: usize,
    pub kind: TsigKind,
    pub other_mac: Vec<u8>,
    pub time_signed: u64,
    pub reserved: usize,
}

#[derive(Clone, Debug)]
pub struct RefState {
    pub id: u16,
    pub qr: bool,
    pub aa: bool,
    pub tc: bool,
    pub rd: bool,
    pub ra: bool,
    pub opcode: u8,
    /// Full extended RCODE most recently set by a successful operation.
    pub ext_rcode: u16,
    pub qs: Vec<RefQ>,
    pub rrs: [Vec<RefRr>; 3],
    /// EDNS: requestor's payload size.
    pub edns: Option<u16>,
    pub tsig: Option<RefTsig>,
    /// 0 question, 1 answer, 2 authority, 3 additional.
    pub section: u8,
    pub limit: usize,
    pub buf_len: usize,
    pub reserved: usize,
    pub mode: Mode,
    pub qname: Option<WName>,
    pub mro: Option<WName>,
    pub mrnir: Option<WName>,
    pub hints: Vec<WName>,
}

/// The owner name and hint actually handed to the writer.
#[derive(Clone, Debug)]
pub struct RAdd {
    pub owner: WName,
    pub hint: HintSpec,
}

/// A result the contract cannot explain: (stable key, description).
pub type Verdict = (String, String);

pub fn flip_case(n: &[u8]) -> WName {
    // Length octets are <= 63 and thus not ASCII letters.
    n.iter().map(|b| if b.is_ascii_lowercase() { b.to_ascii_uppercase() } else if b.is_ascii_uppercase() { b.to_ascii_lowercase() } else { *b }).collect()
}

/// RFC 2181 §8: a TTL with the most significant bit set is treated as zero
/// (this is what constructing a `Ttl` from the raw value denotes).
pub fn ttl_given(raw: u32) -> u32 {
    if raw > 0x7fff_ffff {
        0
    } else {
        raw
    }
}

pub fn tsig_rr_len(spec: usize) -> usize {
    let s = &tsig_pool()[spec];
    let (alg_len, mac) = match s.kind {
        TsigKind::Unsigned => (s.unsigned_alg.len(), 0),
        _ => {
            if s.sha256 {
                (qvlib::wire::wname("hmac-sha256.").len(), 32)
            } else {
                (qvlib::wire::wname("hmac-sha1.").len(), 20)
            }
        }
    };
    // owner + type/class/ttl/rdlength (10) + algorithm + time (6) + fudge (2)
    // + MAC size (2) + MAC + original id (2) + error (2) + other len (2) +
    // other data (6 octets of server time for BADTIME, RFC 8945 §5.2.3).
    s.key_name.len() + 10 + alg_len + 16 + mac + if s.error == 18 { 6 } else { 0 }
}

impl RefState {
    pub fn new(buf_len: usize, limit: usize) -> RefState {
        RefState {
            id: 0,
            qr: false,
            aa: false,
            tc: false,
            rd: false,
            ra: false,
            opcode: 0,
            ext_rcode: 0,
            qs: vec![],
            rrs: [vec![], vec![], vec![]],
            edns: None,
            tsig: None,
            section: 0,
            limit: limit.min(buf_len),
            buf_len,
            reserved: 0,
            mode: Mode::Standard,
            qname: None,
            mro: None,
            mrnir: None,
            hints: vec![],
        }
    }

    /// Space an operation may still use.
    pub fn room(&self, cursor: usize) -> usize {
        (self.limit - self.reserved).saturating_sub(cursor)
    }

    pub fn n_records(&self) -> usize {
        self.rrs[0].len() + self.rrs[1].len() + self.rrs[2].len()
    }

    /// Decides which owner name and hint an `Add` hands to the writer.
    pub fn resolve(&self, op: &Op) -> Option<RAdd> {
        let Op::Add { owner, .. } = op else { return None };
        let prior: Option<&WName> = match owner.hint {
            HintSpec::None => None,
            HintSpec::Qname => self.qname.as_ref(),
            HintSpec::MostRecentOwner => self.mro.as_ref(),
            HintSpec::MostRecentNameInRdata => self.mrnir.as_ref(),
            HintSpec::Explicit(k) => self.hints.get(k),
        };
        Some(match (owner.hint, prior) {
            (HintSpec::None, _) => RAdd { owner: owner.name.clone(), hint: HintSpec::None },
            // An explicit hint that does not exist cannot be expressed.
            (HintSpec::Explicit(_), None) => RAdd { owner: owner.name.clone(), hint: HintSpec::None },
            (h, None) => RAdd { owner: owner.name.clone(), hint: h },
            (h, Some(p)) => RAdd { owner: if owner.flip { flip_case(p) } else { p.clone() }, hint: h },
        })
    }

    /// Applies `op` with the observed result. `cursor` is the length of the
    /// message body written before the operation (observed from the finished
    /// prefix). Returns the results the contract cannot explain.
    pub fn apply(&mut self, op: &Op, radd: Option<&RAdd>, res: Res, cursor: usize) -> Vec<Verdict> {
        let mut v: Vec<Verdict> = Vec::new();
        let mut explain = |ok: bool, res: Res, why: &str| {
            if !ok {
                v.push((format!("unexplained-result:{}:{}", op.kind(), res.tag()), why.to_string()));
            }
        };
        let need_total = cursor + self.reserved;
        match op {
            Op::SetId(x) => {
                explain(res == Res::Unit, res, "infallible");
                self.id = *x
            }
            Op::SetQr(x) => self.qr = *x,
            Op::SetAa(x) => self.aa = *x,
            Op::SetTc(x) => self.tc = *x,
            Op::SetRd(x) => self.rd = *x,
            Op::SetRa(x) => self.ra = *x,
            Op::SetOpcode(x) => self.opcode = *x,
            Op::SetRcode(x) => self.ext_rcode = *x as u16,
            Op::SetExtRcode(x) => match res {
                Res::Err("NotEdns") => explain(self.edns.is_none(), res, "EDNS is enabled"),
                Res::Err("ExtendedRcodeOverflow") => explain(*x > 4095, res, "the value fits in 12 bits"),
                Res::Err(_) | Res::Unit => explain(false, res, "not a documented result of set_extended_rcode"),
                Res::Ok => {
                    explain(self.edns.is_some(), res, "EDNS is not enabled: the upper bits cannot be carried");
                    explain(*x <= 4095, res, "the value does not fit in 12 bits");
                    self.ext_rcode = *x;
                }
            },
            Op::SetLimit(n) => {
                if *n >= self.limit {
                    self.limit = (*n).min(self.buf_len);
                } else {
                    self.limit = (*n).max(need_total);
                }
            }
            Op::SetMode(m) => self.mode = *m,
            Op::SetEdns(p) => match res {
                Res::Err("AlreadyEdns") => explain(self.edns.is_some(), res, "EDNS was not enabled"),
                Res::Err("Truncation") => explain(need_total + 11 > self.limit, res, "the 11-octet OPT record fits in the remaining space"),
                Res::Err(_) | Res::Unit => explain(false, res, "not a documented result of set_edns"),
                Res::Ok => {
                    explain(self.edns.is_none(), res, "EDNS was already enabled");
                    self.edns = Some(*p);
                    self.reserved += 11;
                    // The upper eight bits live in the OPT record; there were
                    // none before.
                    self.ext_rcode &= 0xf;
                }
            },
            Op::SetTsig(i) => {
                let size = tsig_rr_len(*i);
                match res {
                    Res::Err("AlreadyTsig") => explain(self.tsig.is_some(), res, "TSIG was not enabled"),
                    Res::Err("Truncation") => explain(need_total + size > self.limit, res, "the uncompressed TSIG record fits in the remaining space"),
                    Res::Err(_) | Res::Unit => explain(false, res, "not a documented result of set_tsig"),
                    Res::Ok => {
                        explain(self.tsig.is_none(), res, "TSIG was already enabled");
                        let s = &tsig_pool()[*i];
                        self.tsig = Some(RefTsig { spec: *i, kind: s.kind, other_mac: s.other_mac.clone(), time_signed: s.time_signed, reserved: size });
                        self.reserved += size;
                    }
                }
            }
            Op::UpdateTime(t) => match res {
                Res::Err("NotTsig") => explain(self.tsig.is_none(), res, "TSIG is enabled"),
                Res::Err(_) | Res::Unit => explain(false, res, "not a documented result of update_time_signed"),
                Res::Ok => match self.tsig.as_mut() {
                    Some(ts) => ts.time_signed = *t,
                    None => explain(false, res, "TSIG is not enabled"),
                },
            },
            Op::ClearRrs => {
                self.rrs = [vec![], vec![], vec![]];
                self.section = 0;
                self.mro = None;
                self.mrnir = None;
                self.hints.clear();
            }
            Op::Template { buf } => match res {
                Res::Err("Truncation") => explain(*buf < need_total, res, "the new buffer holds the message and the reserved space"),
                Res::Err(_) | Res::Unit => explain(false, res, "not a documented result of try_from_template"),
                Res::Ok => {
                    explain(*buf >= need_total, res, "the new buffer is smaller than the message plus reserved space");
                    self.buf_len = *buf;
                    self.limit = self.limit.min(*buf);
                }
            },
            Op::TemplateSubsequent { buf } => match res {
                Res::Err("NotTsig") => explain(self.tsig.is_none(), res, "TSIG is enabled"),
                Res::Err("NotSignedTsig") => explain(matches!(&self.tsig, Some(t) if t.kind == TsigKind::Unsigned), res, "TSIG is in a signing mode"),
                Res::Err("Truncation") => explain(*buf < need_total, res, "the new buffer holds the message and the reserved space"),
                Res::Err(_) | Res::Unit => explain(false, res, "not a documented result of try_from_template_as_tsig_subsequent"),
                Res::Ok => {
                    explain(*buf >= need_total, res, "the new buffer is smaller than the message plus reserved space");
                    match self.tsig.as_mut() {
                        Some(t) if t.kind != TsigKind::Unsigned => {
                            t.kind = TsigKind::Subsequent;
                            t.other_mac = SUBSEQUENT_PRIOR_MAC.to_vec();
                        }
                        _ => explain(false, res, "TSIG is not in a signing mode"),
                    }
                    self.buf_len = *buf;
                    self.limit = self.limit.min(*buf);
                }
            },
            Op::Question { name, qtype, qclass } => {
                let size = name.len() + 4;
                match res {
                    Res::Err("OutOfOrder") => explain(self.section != 0, res, "no record has been added since the last clear"),
                    Res::Err("Truncation") => explain(need_total + size > self.limit, res, "the uncompressed question fits in the remaining space"),
                    Res::Err(_) | Res::Unit => explain(false, res, "not a documented result of add_question"),
                    Res::Ok => {
                        explain(self.section == 0, res, "a question was accepted after a record");
                        if self.qs.is_empty() {
                            self.qname = Some(name.clone());
                        }
                        self.qs.push(RefQ { name: name.clone(), qtype: *qtype, qclass: *qclass, mode: self.mode });
                    }
                }
            }
            Op::Add { sec, typ, class, ttl, rdatas, hv, .. } => {
                let ra = radd.expect("Add without resolution");
                let size: usize = rdatas.iter().map(|r| ra.owner.len() + 10 + r.len()).sum();
                let in_order = self.section <= *sec + 1;
                match res {
                    Res::Err("OutOfOrder") => explain(!in_order, res, "the section order was respected"),
                    Res::Err("Truncation") => explain(need_total + size > self.limit, res, "the uncompressed record(s) fit in the remaining space"),
                    Res::Err("InvalidRdata") => {
                        explain(rdatas.iter().any(|r| !qvlib::wire::rdata_valid(*class, *typ, r)), res, "all RDATA is valid for its type")
                    }
                    Res::Err(_) | Res::Unit => explain(false, res, "not a documented result of adding records"),
                    Res::Ok => {
                        explain(in_order, res, "records were accepted out of section order");
                        let name: Arc<[u8]> = ra.owner.clone().into();
                        let mut names: Vec<WName> = Vec::new();
                        for r in rdatas {
                            self.rrs[*sec as usize].push(RefRr { name: name.clone(), typ: *typ, class: *class, ttl: ttl_given(*ttl), rdata: r.clone(), mode: self.mode });
                            for (o, n, _) in uncompressed_name_spans(*class, *typ, r) {
                                names.push(r[o..o + n].to_vec());
                            }
                        }
                        self.section = self.section.max(*sec + 1);
                        self.mro = Some(ra.owner.clone());
                        if let Some(last) = names.last() {
                            self.mrnir = Some(last.clone());
                        }
                        if *hv {
                            names.truncate(16);
                            self.hints = names;
                        }
                    }
                }
            }
        }
        v
    }
}
