//! The explicitly described finite spaces: alphabets of writer operations,
//! initial configurations and depth bounds.

use crate::drive::Config;
use crate::explore::Family;
use crate::ops::{HintSpec, Mode, Op, Owner};
use qvlib::wire::{c, t, wname};
use std::sync::Arc;

// ------------------------------------------------------------ builders

fn own(n: &str) -> Owner {
    Owner { name: wname(n), hint: HintSpec::None, flip: false }
}
/// Hinted owner: the name passed is the prior name the hint refers to (in
/// flipped case if `flip`), `fallback` if the reference model knows none.
fn hinted(h: HintSpec, fallback: &str, flip: bool) -> Owner {
    Owner { name: wname(fallback), hint: h, flip }
}
fn rr(sec: u8, owner: Owner, typ: u16, class: u16, ttl: u32, rdata: Vec<u8>, hv: bool) -> Op {
    Op::Add { sec, set: false, owner, typ, class, ttl, rdatas: vec![Arc::from(rdata)], hv }
}
fn rrset(sec: u8, owner: Owner, typ: u16, class: u16, ttl: u32, rdatas: Vec<Vec<u8>>, hv: bool) -> Op {
    Op::Add { sec, set: true, owner, typ, class, ttl, rdatas: rdatas.into_iter().map(Arc::from).collect(), hv }
}
fn q(n: &str, qtype: u16, qclass: u16) -> Op {
    Op::Question { name: wname(n), qtype, qclass }
}
fn rd_name(n: &str) -> Vec<u8> {
    wname(n)
}
fn rd_mx(pref: u16, n: &str) -> Vec<u8> {
    let mut v = pref.to_be_bytes().to_vec();
    v.extend_from_slice(&wname(n));
    v
}
fn rd_soa(m: &str, r: &str) -> Vec<u8> {
    let mut v = wname(m);
    v.extend_from_slice(&wname(r));
    for x in [2024010101u32, 7200, 900, 1209600, 300] {
        v.extend_from_slice(&x.to_be_bytes());
    }
    v
}
fn rd_srv(target: &str) -> Vec<u8> {
    let mut v = vec![0, 10, 0, 20, 0x01, 0xbb];
    v.extend_from_slice(&wname(target));
    v
}
fn rd_cha(n: &str) -> Vec<u8> {
    let mut v = wname(n);
    v.extend_from_slice(&[0o1, 0o377]);
    v
}
fn rd_txt(len: usize) -> Vec<u8> {
    // <character-string>s of at most 255 octets filling exactly `len` octets.
    let mut v = Vec::with_capacity(len);
    let mut left = len;
    while left > 0 {
        let n = (left - 1).min(255);
        v.push(n as u8);
        v.extend(std::iter::repeat(b'x').take(n));
        left -= n + 1;
    }
    v
}
/// A TXT record of 16 640 octets of RDATA: everything written after it lies
/// beyond offset 0x3fff, out of reach of a 14-bit pointer.
fn big_txt(sec: u8, owner: Owner) -> Op {
    rr(sec, owner, t::TXT, c::IN, 60, rd_txt(65 * 256), false)
}

const IN: u16 = c::IN;

fn whole() -> Config {
    Config { buf: 65535, limit: None }
}

// ------------------------------------------------------------ C12

fn full_alphabet() -> Vec<Op> {
    vec![
        Op::SetId(0xbeef),
        Op::SetQr(true),
        Op::SetAa(true),
        Op::SetOpcode(5),
        Op::SetRcode(3),
        Op::SetExtRcode(16),
        Op::SetExtRcode(2053),
        Op::SetExtRcode(4096),
        Op::SetEdns(1232),
        Op::SetLimit(40),
        Op::SetLimit(90),
        Op::SetLimit(70000),
        Op::SetMode(Mode::CasePreserving),
        Op::SetMode(Mode::Disabled),
        Op::SetMode(Mode::Standard),
        Op::SetTsig(0),
        Op::SetTsig(1),
        Op::UpdateTime(0x0000_7000_0001),
        Op::ClearRrs,
        Op::Template { buf: 65535 },
        Op::Template { buf: 64 },
        Op::TemplateSubsequent { buf: 65535 },
        q("example.test.", t::A, IN),
        q("WWW.Example.TEST.", t::TXT, c::CH),
        rr(0, hinted(HintSpec::Qname, "example.test.", false), t::A, IN, 3600, vec![192, 0, 2, 1], false),
        rr(0, own("www.example.test."), t::CNAME, IN, 0x7fff_ffff, rd_name("mail.example.test."), true),
        rrset(0, own("www.example.test."), t::MX, IN, 300, vec![rd_mx(10, "mail.example.test."), rd_mx(20, "a.www.example.test.")], true),
        rr(0, hinted(HintSpec::Explicit(0), "other.net.", true), t::A, IN, 0, vec![192, 0, 2, 2], false),
        rr(1, own("example.test."), t::NS, IN, 3600, rd_name("a.www.example.test."), true),
        rr(1, hinted(HintSpec::MostRecentOwner, "example.net.", true), t::NS, IN, 3600, rd_name("mail.example.test."), false),
        rr(1, own("test."), t::SOA, IN, 0x8000_0000, rd_soa("www.example.test.", "mail.example.test."), false),
        rr(2, hinted(HintSpec::MostRecentNameInRdata, "other.net.", false), t::A, IN, 3600, vec![192, 0, 2, 3], false),
        rr(2, own("a.www.example.test."), t::SRV, IN, 3600, rd_srv("www.example.test."), true),
        rr(2, own("other.net."), t::A, c::CH, 3600, rd_cha("www.example.test."), false),
        rr(2, own("WWW.Example.TEST."), 65280, IN, 0xffff_ffff, rd_name("www.example.test."), false),
        big_txt(2, own("www.example.test.")),
        // A label of type 0x40 inside NS RDATA: must be refused.
        rr(0, own("mail.example.test."), t::NS, IN, 3600, vec![3, b'w', b'w', b'w', 0x40, b'x', 0], false),
        // SOA with two octets of trailing junk: the writer serialises what it is given.
        rr(1, own("mail.example.test."), t::SOA, IN, 3600, { let mut v = rd_soa("test.", "other.net."); v.extend_from_slice(&[0xde, 0xad]); v }, false),
    ]
}

fn header_alphabet() -> Vec<Op> {
    let mut a = vec![Op::SetId(0xbeef), Op::SetId(0)];
    for b in [true, false] {
        a.extend([Op::SetQr(b), Op::SetAa(b), Op::SetTc(b), Op::SetRd(b), Op::SetRa(b)]);
    }
    a.extend([Op::SetOpcode(0), Op::SetOpcode(5), Op::SetOpcode(15), Op::SetRcode(0), Op::SetRcode(5), Op::SetRcode(15)]);
    a.extend([Op::SetEdns(0), Op::SetEdns(65535)]);
    for x in [0u16, 16, 2047, 2048, 4095, 4096, 65535] {
        a.push(Op::SetExtRcode(x));
    }
    a.extend([Op::ClearRrs, Op::Template { buf: 512 }]);
    a
}

fn limits_alphabet() -> Vec<Op> {
    vec![
        Op::SetLimit(12),
        Op::SetLimit(47),
        Op::SetLimit(64),
        Op::SetLimit(99),
        Op::SetLimit(100000),
        q("example.test.", t::A, IN),
        rr(0, hinted(HintSpec::Qname, "example.test.", false), t::A, IN, 3600, vec![192, 0, 2, 1], false),
        rr(2, own("www.example.test."), t::TXT, IN, 3600, rd_txt(30), false),
        Op::SetEdns(512),
        Op::SetTsig(0),
        Op::ClearRrs,
        Op::Template { buf: 60 },
        Op::Template { buf: 100 },
    ]
}

fn sweep_alphabet() -> Vec<Op> {
    vec![
        q("example.test.", t::A, IN),
        rr(0, hinted(HintSpec::Qname, "example.test.", false), t::A, IN, 3600, vec![192, 0, 2, 1], false),
        rrset(0, own("www.example.test."), t::MX, IN, 300, vec![rd_mx(10, "mail.example.test."), rd_mx(20, "www.example.test.")], false),
        rr(2, own("test."), t::TXT, IN, 3600, rd_txt(20), false),
        Op::SetEdns(512),
        Op::SetTsig(0),
        Op::SetTsig(1),
        Op::ClearRrs,
        Op::Template { buf: 80 },
    ]
}

fn edns_tsig_alphabet() -> Vec<Op> {
    vec![
        Op::SetEdns(1232),
        Op::SetExtRcode(2053),
        Op::SetRcode(1),
        Op::SetTsig(1),
        Op::SetTsig(2),
        Op::SetTsig(3),
        Op::SetTsig(4),
        Op::SetTsig(5),
        Op::UpdateTime(1),
        Op::ClearRrs,
        Op::Template { buf: 65535 },
        Op::Template { buf: 90 },
        Op::TemplateSubsequent { buf: 65535 },
        q("example.test.", t::SOA, IN),
        rr(2, own("k.example.test."), t::A, IN, 3600, vec![192, 0, 2, 9], false),
        Op::SetMode(Mode::Disabled),
    ]
}

/// Names and hints, with rollbacks forced by a small buffer.
fn hints_alphabet() -> Vec<Op> {
    vec![
        q("example.test.", t::A, IN),
        rr(0, hinted(HintSpec::Qname, "www.example.test.", true), t::A, IN, 3600, vec![192, 0, 2, 1], false),
        rr(0, own("www.example.test."), t::CNAME, IN, 3600, rd_name("mail.example.test."), true),
        rr(0, hinted(HintSpec::MostRecentOwner, "a.www.example.test.", false), t::NS, IN, 3600, rd_name("a.www.example.test."), false),
        rr(0, hinted(HintSpec::Explicit(0), "example.net.", true), t::A, IN, 3600, vec![192, 0, 2, 2], false),
        rr(1, own("test."), t::SOA, IN, 3600, rd_soa("WWW.example.test.", "mail.example.net."), false),
        rr(2, hinted(HintSpec::MostRecentNameInRdata, "other.net.", false), t::A, IN, 3600, vec![192, 0, 2, 3], false),
        rrset(2, own("www.example.test."), t::MX, IN, 300, vec![rd_mx(10, "mail.example.test."), rd_mx(20, "a.www.example.test.")], true),
        rr(2, hinted(HintSpec::Explicit(1), "example.net.", false), t::AAAA, IN, 3600, vec![0x20, 1, 0xd, 0xb8, 0, 0, 0, 0, 0, 0, 0, 0, 0, 0, 0, 1], false),
        Op::ClearRrs,
        Op::SetMode(Mode::CasePreserving),
        Op::SetMode(Mode::Disabled),
        Op::SetLimit(70000),
    ]
}

// ------------------------------------------------------------ C13

/// Many similar names over the labels a/b/c with case variants.
fn similar_names_alphabet() -> Vec<Op> {
    let mut a = vec![q("b.a.", t::A, IN), q("C.B.a.", t::NS, IN)];
    for o in ["a.", "b.a.", "B.A.", "a.b.a.", "b.b.a.", "a.a."] {
        a.push(rr(0, own(o), t::A, IN, 60, vec![10, 0, 0, 1], false));
    }
    for (i, n) in ["a.", "b.a.", "a.b.a.", "A.B.A.", "c.b.a.", "a.c."].iter().enumerate() {
        a.push(rr(0, hinted(HintSpec::MostRecentOwner, "b.a.", i % 2 == 1), t::NS, IN, 60, rd_name(n), i % 3 == 0));
    }
    a.push(rr(0, own("b.a."), t::SOA, IN, 60, rd_soa("a.b.a.", "b.b.a."), true));
    a.push(rrset(0, hinted(HintSpec::Qname, "c.b.a.", false), t::MX, IN, 60, vec![rd_mx(1, "a.b.a."), rd_mx(2, "c.b.a.")], true));
    a.push(rr(0, hinted(HintSpec::Explicit(0), "a.a.", false), t::CNAME, IN, 60, rd_name("b.a."), false));
    a.push(rr(0, own("a.b.a."), t::SRV, IN, 60, rd_srv("b.a."), false));
    a.push(rr(0, own("b.a."), t::A, c::CH, 60, rd_cha("a.b.a."), false));
    a.push(rr(0, own("b.a."), 65280, IN, 60, rd_name("a.b.a."), false));
    a.extend([Op::SetMode(Mode::CasePreserving), Op::SetMode(Mode::Disabled), Op::SetMode(Mode::Standard)]);
    a.push(big_txt(0, own("a.")));
    a.push(Op::ClearRrs);
    a
}

/// Histories that push names beyond the 14-bit pointer range.
fn beyond_alphabet() -> Vec<Op> {
    vec![
        q("b.a.", t::A, IN),
        big_txt(0, hinted(HintSpec::Qname, "a.", false)),
        rr(0, own("a.b.a."), t::NS, IN, 60, rd_name("c.a.b.a."), true),
        rr(0, hinted(HintSpec::MostRecentOwner, "b.a.", true), t::MX, IN, 60, rd_mx(5, "a.b.a."), false),
        rr(0, hinted(HintSpec::MostRecentNameInRdata, "b.a.", false), t::CNAME, IN, 60, rd_name("B.A."), false),
        rr(0, hinted(HintSpec::Explicit(0), "c.a.", false), t::A, IN, 60, vec![10, 0, 0, 2], false),
        rr(0, hinted(HintSpec::Qname, "b.a.", true), t::SRV, IN, 60, rd_srv("a.b.a."), false),
        Op::SetMode(Mode::CasePreserving),
        Op::ClearRrs,
        Op::Template { buf: 40000 },
        // 300 octets: later names sit at offsets whose pointers need the
        // upper six bits.
        rr(0, own("c.b.a."), t::TXT, IN, 60, rd_txt(300), false),
    ]
}

/// TXT records of every length in a 24-octet window chosen so that the names
/// written next start at every offset from a few octets below 0x3fff to a few
/// above it (a name may straddle the end of the 14-bit pointer range).
fn edge_alphabet() -> Vec<Op> {
    let mut a: Vec<Op> = (16338..=16361).map(|l| rr(0, own("a."), t::TXT, IN, 60, rd_txt(l), false)).collect();
    a.extend([
        q("b.a.", t::A, IN),
        rr(0, own("a.b.a."), t::NS, IN, 60, rd_name("c.a.b.a."), true),
        rr(0, hinted(HintSpec::MostRecentOwner, "b.a.", true), t::MX, IN, 60, rd_mx(5, "a.b.a."), false),
        rr(0, hinted(HintSpec::MostRecentNameInRdata, "b.a.", false), t::CNAME, IN, 60, rd_name("B.A."), false),
        rr(0, hinted(HintSpec::Explicit(0), "c.a.", false), t::A, IN, 60, vec![10, 0, 0, 2], false),
        rr(0, own("b.a."), t::SOA, IN, 60, rd_soa("a.b.a.", "b.b.a."), false),
    ]);
    a
}

/// Names that share their *leading* labels and differ in a middle or the last
/// label, written right around offset 0x4000: a prior name that starts inside
/// the 14-bit pointer range but whose later labels lie beyond it must still be
/// compared label by label (added after seeded change C12r2 was missed).
fn straddle_alphabet() -> Vec<Op> {
    let mut a: Vec<Op> = (16338..=16361).map(|l| rr(0, own("a."), t::TXT, IN, 60, rd_txt(l), false)).collect();
    for o in ["a.b.a.", "a.b.c.", "a.c.a.", "x.b.a.", "A.b.C.", "host.example.test.", "host.example.invalid.", "host.other.test."] {
        a.push(rr(0, own(o), t::A, IN, 60, vec![10, 0, 0, 1], false));
    }
    a.push(rr(0, own("a.b.a."), t::NS, IN, 60, rd_name("a.b.c."), true));
    a.push(rr(0, own("host.example.test."), t::CNAME, IN, 60, rd_name("host.example.invalid."), false));
    a.push(Op::SetMode(Mode::CasePreserving));
    a
}

/// Labels at the edges of ASCII case folding: pairs of equal length that
/// differ in bit 0x20 of an octet that is NOT a letter ('@' / '`', '[' / '{',
/// '_' / DEL, '-' / CR, '0' / 0x10, 0x80 / 0xa0) are different names and must
/// never be compressed against each other; pairs that differ in the case of
/// letters only may be (except in case-preserving mode).
fn case_fold_edge_alphabet() -> Vec<Op> {
    let mut a = vec![q("@b.t.", t::A, IN)];
    for o in ["@b.t.", "`b.t.", "[x].t.", "{x}.t.", "_s.t.", "\\127s.t.", "-a.t.", "\\013a.t.", "0.t.", "\\016.t.", "\\128.t.", "\\160.t.", "Ab.t.", "aB.t."] {
        a.push(rr(0, own(o), t::A, IN, 60, vec![10, 0, 0, 1], false));
    }
    for n in ["`b.t.", "{x}.t.", "\\127s.t.", "aB.t."] {
        a.push(rr(0, own("t."), t::NS, IN, 60, rd_name(n), false));
    }
    a.extend([Op::SetMode(Mode::CasePreserving), Op::SetMode(Mode::Standard)]);
    a
}

/// Families are listed cheapest first so that a wall-clock cap (overloaded
/// machine) cuts into the largest family only.
pub fn families(prop: crate::explore::Prop, quick: bool) -> Vec<Family> {
    use crate::explore::Prop::*;
    let tight = Config { buf: 160, limit: Some(120) };
    let small = Config { buf: 110, limit: None };
    let d = |q: usize, t: usize| if quick { q } else { t };
    const FULL: &str = "all writer methods: header setters, questions, rr/rrset in three sections with every hint kind, limits, compression modes, EDNS, extended RCODEs, TSIG, clear_rrs, templates, 16 KiB TXT, malformed RDATA";
    const HINTS: &str = "owners given with every hint kind (contract-respecting, incl. case-flipped), RDATA names, hint vectors, mode switches, clear_rrs";
    match prop {
        C12 => vec![
            Family {
                name: "full-tight",
                what: "the full alphabet in a 160-octet buffer with initial limit 120 (truncations and rollbacks everywhere)",
                alphabet: full_alphabet(),
                configs: vec![tight],
                depth: 4,
            },
            Family {
                name: "header",
                what: "every header setter with both values, RCODE / extended RCODE values 0, 16, 2047, 2048, 4095, 4096, 65535 with and without EDNS",
                alphabet: header_alphabet(),
                configs: vec![Config { buf: 512, limit: None }],
                depth: d(4, 5),
            },
            Family {
                name: "pointer-range-edge",
                what: "a TXT record of every length 16338..=16361 followed by names: name fields start at every offset around 0x3fff, the end of the 14-bit pointer range",
                alphabet: edge_alphabet(),
                configs: vec![whole()],
                depth: d(3, 4),
            },
            Family {
                name: "straddle-0x4000",
                what: "a TXT record of every length 16338..=16361 followed by owners / RDATA names that share leading labels and differ in a later label, so that a prior name straddles the end of the 14-bit pointer range",
                alphabet: straddle_alphabet(),
                configs: vec![whole()],
                depth: d(3, 4),
            },
            Family {
                name: "case-fold-edges",
                what: "owners and RDATA names whose labels differ in bit 0x20 of a non-letter octet ('@' / '`', '[' / '{', '_' / DEL, '-' / CR, '0' / 0x10, 0x80 / 0xa0) next to genuine case variants, unhinted, in standard and case-preserving mode",
                alphabet: case_fold_edge_alphabet(),
                configs: vec![whole()],
                depth: d(3, 4),
            },
            Family {
                name: "limits",
                what: "set_limit up/down across the written length, reservations by set_edns/set_tsig, templates into smaller buffers, in a 100-octet buffer",
                alphabet: limits_alphabet(),
                configs: vec![Config { buf: 100, limit: None }],
                depth: d(6, 7),
            },
            Family {
                name: "limit-sweep",
                what: "short histories under every initial limit 12..=140 (Writer::new with a limit, and TryFrom on a buffer of that size): exact-fit boundaries of every operation",
                alphabet: sweep_alphabet(),
                configs: (12..=140).flat_map(|l| [Config { buf: 140, limit: Some(l) }, Config { buf: l, limit: None }]).collect(),
                depth: d(4, 5),
            },
            Family {
                name: "edns-tsig-template",
                what: "EDNS, extended RCODE, five TSIG modes incl. BADTIME, update_time_signed, clear_rrs, template round trips incl. as_tsig_subsequent",
                alphabet: edns_tsig_alphabet(),
                configs: vec![whole(), Config { buf: 200, limit: None }],
                depth: d(5, 6),
            },
            Family { name: "names-and-hints", what: HINTS, alphabet: hints_alphabet(), configs: vec![whole()], depth: 6 },
            Family {
                name: "names-and-hints-small",
                what: "the names-and-hints alphabet in a 110-octet buffer: rollbacks of half-written records between hinted names",
                alphabet: hints_alphabet(),
                configs: vec![small],
                depth: d(6, 7),
            },
            Family { name: "full", what: FULL, alphabet: full_alphabet(), configs: vec![whole()], depth: d(4, 5) },
        ],
        C13 => vec![
            Family {
                name: "pointer-range-edge",
                what: "a TXT record of every length 16338..=16361 followed by names: name fields start at every offset around 0x3fff, the end of the 14-bit pointer range",
                alphabet: edge_alphabet(),
                configs: vec![whole()],
                depth: d(3, 4),
            },
            Family {
                name: "straddle-0x4000",
                what: "a TXT record of every length 16338..=16361 followed by owners / RDATA names that share leading labels and differ in a later label, so that a prior name straddles the end of the 14-bit pointer range",
                alphabet: straddle_alphabet(),
                configs: vec![whole()],
                depth: d(3, 4),
            },
            Family {
                name: "case-fold-edges",
                what: "owners and RDATA names whose labels differ in bit 0x20 of a non-letter octet ('@' / '`', '[' / '{', '_' / DEL, '-' / CR, '0' / 0x10, 0x80 / 0xa0) next to genuine case variants, unhinted, in standard and case-preserving mode",
                alphabet: case_fold_edge_alphabet(),
                configs: vec![whole()],
                depth: d(3, 4),
            },
            Family {
                name: "beyond-0x3fff",
                what: "histories around a 16 KiB TXT record so that later names lie beyond the 14-bit pointer range",
                alphabet: beyond_alphabet(),
                configs: vec![whole()],
                depth: d(6, 7),
            },
            Family {
                name: "names-and-hints",
                what: "the C12 names-and-hints alphabet under the pointer oracle, in a 65 535-octet and in a 110-octet buffer (rollbacks)",
                alphabet: hints_alphabet(),
                configs: vec![whole(), small],
                depth: d(5, 6),
            },
            Family { name: "full", what: "the C12 full alphabet under the pointer oracle", alphabet: full_alphabet(), configs: vec![whole(), tight], depth: 4 },
            Family {
                name: "similar-names",
                what: "owners and RDATA names over labels a/b/c with shared suffixes and case variants, all hint kinds, three compression modes, SRV / CH A / unknown-type RDATA that looks like a name, 16 KiB TXT, clear_rrs",
                alphabet: similar_names_alphabet(),
                configs: vec![whole()],
                depth: d(5, 6),
            },
        ],
    }
}
