//! C12 / C13 — bounded-exhaustive history exploration of
//! `quandary::message::Writer` against an independent reference model.
//!
//!   p-writer <C12|C13> <quick|thorough> [--replay FILE]

mod c12;
mod c13;
mod dec;
mod drive;
mod explore;
mod families;
mod ops;
mod refmodel;

use explore::{explore_family, family_size, Counters, Found, Prop};
use qvlib::{catch, json, Ctx};
use std::sync::atomic::Ordering;

/// `Writer::new` / `TryFrom`: every buffer size and limit around the
/// 12-octet header (part of C12's "size limit in effect").
fn constructors(ctx: &Ctx) -> u64 {
    let mut l = ctx.local();
    let mut n = 0;
    let sizes: Vec<usize> = (0..=14).chain([512, 65535]).collect();
    let limits: Vec<Option<usize>> = std::iter::once(None).chain((0..=14).chain([512, 65535, 70000, usize::MAX]).map(Some)).collect();
    for &buf in &sizes {
        for &limit in &limits {
            n += 1;
            l.tick();
            let case = json!({"constructor": true, "config": {"buf": buf, "limit": limit.map(|x| x as u64)}});
            let effective = limit.unwrap_or(buf).min(buf);
            match catch(|| drive::construct(buf, limit)) {
                Err(p) => l.violation(&qvlib::panic_key(&p), json!({"constructor": true, "config": {"buf": buf, "limit": limit.map(|x| x as u64)}, "violation": p})),
                Ok(None) => {
                    l.outcome("constructor:Err", || case.clone());
                    if effective >= 12 {
                        l.violation("constructor:refused", json!({"constructor": true, "config": {"buf": buf, "limit": limit.map(|x| x as u64)}, "violation": "a 12-octet header fits but construction failed"}));
                    }
                }
                Ok(Some(out)) => {
                    l.outcome("constructor:Ok", || case.clone());
                    if effective < 12 {
                        l.violation("constructor:accepted", json!({"constructor": true, "config": {"buf": buf, "limit": limit.map(|x| x as u64)}, "violation": "accepted a buffer/limit that cannot hold a header"}));
                    } else if out != vec![0u8; 12] {
                        l.violation(
                            "constructor:header",
                            json!({"constructor": true, "config": {"buf": buf, "limit": limit.map(|x| x as u64)}, "violation": format!("a fresh writer finishes to {} instead of a zeroed 12-octet header", qvlib::hex(&out))}),
                        );
                    }
                }
            }
        }
    }
    n
}

fn replay_constructor(ctx: &Ctx, case: &qvlib::Value) {
    let cfg = drive::Config::from_json(case.get("config").unwrap_or(&qvlib::Value::Null));
    let effective = cfg.limit.unwrap_or(cfg.buf).min(cfg.buf);
    let r = catch(|| drive::construct(cfg.buf, cfg.limit));
    println!("replay constructor buf={} limit={:?}: {:?}", cfg.buf, cfg.limit, r.as_ref().map(|o| o.as_ref().map(|x| qvlib::hex(x))));
    match r {
        Err(p) => ctx.violation(&qvlib::panic_key(&p), case.clone()),
        Ok(None) if effective >= 12 => ctx.violation("constructor:refused", case.clone()),
        Ok(Some(_)) if effective < 12 => ctx.violation("constructor:accepted", case.clone()),
        Ok(Some(out)) if out != vec![0u8; 12] => ctx.violation("constructor:header", case.clone()),
        _ => {}
    }
}

/// glibc returns freed heap tops to the kernel and maps them again on the
/// next large allocation; histories with 16 KiB records then spend most of
/// their time in page faults. Keep the heap (performance only).
#[cfg(all(target_os = "linux", target_env = "gnu"))]
fn tune_allocator() {
    extern "C" {
        fn mallopt(param: i32, value: i32) -> i32;
    }
    const M_TRIM_THRESHOLD: i32 = -1;
    const M_TOP_PAD: i32 = -2;
    const M_MMAP_THRESHOLD: i32 = -3;
    // SAFETY: plain libc tunables, called before any thread is spawned.
    unsafe {
        mallopt(M_TRIM_THRESHOLD, 1 << 30);
        mallopt(M_TOP_PAD, 16 << 20);
        mallopt(M_MMAP_THRESHOLD, 32 << 20);
    }
}
#[cfg(not(all(target_os = "linux", target_env = "gnu")))]
fn tune_allocator() {}

fn main() {
    tune_allocator();
    let ctx = Ctx::from_args(&["C12", "C13"]);
    qvlib::reftsig::self_test();
    let prop = if ctx.id == "C12" { Prop::C12 } else { Prop::C13 };

    if let Some(case) = ctx.replay_case() {
        let case = case.clone();
        if case.get("constructor").and_then(|x| x.as_bool()) == Some(true) {
            replay_constructor(&ctx, &case);
        } else {
            match explore::replay(prop, &case) {
                Ok((viols, shown)) => {
                    println!("{}", serde_json::to_string_pretty(&shown).unwrap());
                    for v in viols {
                        let mut c = case.clone();
                        c["violation"] = json!(v.detail);
                        ctx.violation(&v.key, c);
                    }
                }
                Err(e) => {
                    eprintln!("MACHINERY: bad replay case: {e}");
                    std::process::exit(2);
                }
            }
        }
        ctx.finish("model_checking", "replay of one recorded history", false);
    }

    let mut fams = families::families(prop, ctx.quick());
    // Debugging aid: restrict the run to one family (the evidence then says
    // `exhaustive: false`).
    let only = std::env::var("QVERIF_FAMILY").ok();
    if let Some(f) = &only {
        fams.retain(|x| x.name == f);
        ctx.mark_capped("QVERIF_FAMILY restricts the run to one family");
    }
    let cnt = Counters::default();
    let found = Found::default();
    let mut fam_info = Vec::new();
    let mut expected_total = 0u64;
    if prop == Prop::C12 {
        let n = constructors(&ctx);
        fam_info.push(json!({"family": "constructors", "cases": n, "what": "Writer::new(buf, limit) and TryFrom for buffer sizes 0..=14, 512, 65535 x limits none, 0..=14, 512, 65535, 70000, usize::MAX"}));
    }
    // Safety net for an overloaded machine: shards not started before the cap
    // are skipped and the run is reported as capped (never as exhaustive).
    let wall_cap_s: f64 = std::env::var("QVERIF_WALL_CAP_S").ok().and_then(|s| s.parse().ok()).unwrap_or(ctx.pick(55.0, 285.0));
    let mut capped: Vec<String> = Vec::new();
    for fam in &fams {
        let t0 = ctx.elapsed_s();
        let before = cnt.histories.load(Ordering::Relaxed);
        let (skipped, shards) = explore_family(&ctx, prop, fam, &cnt, &found, wall_cap_s);
        if skipped > 0 {
            capped.push(format!("{}: {skipped} of {shards} shards skipped", fam.name));
        }
        let n = cnt.histories.load(Ordering::Relaxed) - before;
        let size = family_size(fam);
        expected_total += size;
        fam_info.push(json!({
            "family": fam.name,
            "what": fam.what,
            "alphabet_size": fam.alphabet.len(),
            "depth": fam.depth,
            "configurations": fam.configs.len(),
            "histories_in_space": size,
            "histories_evaluated": n,
            "complete": skipped == 0,
            "wall_s": ((ctx.elapsed_s() - t0) * 100.0).round() / 100.0,
        }));
        eprintln!("[{}] family {}: {} histories ({} in space), {:.1}s", ctx.id, fam.name, n, size, ctx.elapsed_s() - t0);
    }
    found.flush(&ctx);
    let histories = cnt.histories.load(Ordering::Relaxed);
    let pruned = cnt.pruned.load(Ordering::Relaxed);
    ctx.set_extra("families", json!(fam_info));
    // Every history is a distinct state (no merging: the writer's hidden
    // compression state is part of the state); every history but the empty
    // ones is reached by exactly one transition from its prefix.
    ctx.set_extra("states", json!(histories));
    ctx.set_extra("transitions", json!(histories.saturating_sub(fams.iter().map(|f| f.configs.len() as u64).sum::<u64>())));
    ctx.set_extra("traces_validated_against_impl", json!(histories));
    ctx.set_extra("writer_runs", json!(cnt.runs.load(Ordering::Relaxed)));
    ctx.set_extra("writer_operation_calls", json!(cnt.op_calls.load(Ordering::Relaxed)));
    ctx.set_extra("subtrees_pruned_after_violation", json!(pruned));
    if prop == Prop::C13 {
        ctx.set_extra("pointers_checked", json!(cnt.pointers.load(Ordering::Relaxed)));
        ctx.set_extra("histories_with_pointers", json!(cnt.histories_with_pointer.load(Ordering::Relaxed)));
        ctx.set_extra("pointers_with_target_above_255", json!(cnt.high_targets.load(Ordering::Relaxed)));
        ctx.set_extra("highest_pointer_target", json!(cnt.max_target.load(Ordering::Relaxed)));
    }
    if !capped.is_empty() {
        ctx.mark_capped(&format!("wall-clock cap of {wall_cap_s} s reached (overloaded machine?): {}", capped.join("; ")));
        eprintln!("[{}] CAPPED: {}", ctx.id, capped.join("; "));
    }
    let complete = histories == expected_total;
    if !complete && pruned == 0 && capped.is_empty() {
        eprintln!("MACHINERY: evaluated {histories} histories, the space has {expected_total}");
        std::process::exit(3);
    }
    ctx.assume("the harness's decoder (p-writer/src/dec.rs on qvlib::wire::decode_name) and reference model (refmodel.rs) are correct");
    ctx.assume("hints are only used where the writer's documented contract allows them");
    let rule = match prop {
        Prop::C12 => "every operation sequence over each family's alphabet up to its depth, from every listed configuration, is run from scratch on the real Writer (no state merging), finished, decoded by the harness's independent decoder and compared with a reference model: header, questions, records in order, OPT (payload, extended RCODE), TSIG (fields and RFC 8945 MAC), size <= limit in effect, no Truncation when the uncompressed encoding fits, failed operations leave the finished message unchanged (also compared with the history without them), getters",
        Prop::C13 => "every operation sequence over each family's alphabet up to its depth is run from scratch on the real Writer (no state merging), finished and decoded; every compression pointer must target the first octet of a literal label of a name field that lies earlier in the message, sit in a QNAME / owner / RDATA name of an RFC 1035 type, never in a name written while compression was disabled, and decompress to the name given; unknown-type and class-specific RDATA must be carried verbatim",
    };
    ctx.finish("model_checking", rule, complete);
}
