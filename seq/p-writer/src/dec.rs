//! The harness's independent message decoder for writer output.
//!
//! Written from RFC 1035 §4.1; it never calls quandary. Unlike
//! `qvlib::wire::decode_message` it (a) attributes every compression pointer
//! to the *name field* that contains it (QNAME / owner / RDATA name that RFC
//! 3597 §4 allows to be compressed / RDATA name that must not be), with the
//! offsets of the literal labels of each field, which is what C13 needs; and
//! (b) is lenient about the non-name part of RDATA (the writer serialises
//! the RDATA it is given, including RDATA with trailing junk), while still
//! requiring exact consumption of the message.

#![allow(dead_code)]

use qvlib::wire::{self, decode_name, PtrRule, WName, F};

#[derive(Clone, Copy, Debug, PartialEq, Eq)]
pub enum FieldKind {
    Qname,
    Owner,
    /// Name inside RDATA of an RFC 1035 type (may be compressed).
    RdataC,
    /// Name inside RDATA that must not be compressed (SRV, CH A, TSIG).
    RdataU,
}

impl FieldKind {
    pub fn tag(self) -> &'static str {
        match self {
            FieldKind::Qname => "qname",
            FieldKind::Owner => "owner",
            FieldKind::RdataC => "rdata-compressible",
            FieldKind::RdataU => "rdata-uncompressible",
        }
    }
}

#[derive(Clone, Debug)]
pub struct NameField {
    pub kind: FieldKind,
    /// Index into `DMsg::rrs` (None for a QNAME).
    pub rr: Option<usize>,
    pub start: usize,
    /// Length of the field in the message (first chunk).
    pub len: usize,
    /// The decompressed name.
    pub name: WName,
    /// The pointer that ends the field's first chunk, if any: (offset, target).
    pub ptr: Option<(usize, usize)>,
    /// Offsets of the literal labels (root label included) in this field.
    pub literal_starts: Vec<usize>,
}

#[derive(Clone, Debug)]
pub struct DQ {
    pub name: WName,
    pub qtype: u16,
    pub qclass: u16,
    pub field: usize,
}

#[derive(Clone, Debug)]
pub struct DRr {
    /// 0 answer, 1 authority, 2 additional.
    pub sec: u8,
    pub offset: usize,
    pub owner: WName,
    pub typ: u16,
    pub class: u16,
    pub ttl: u32,
    pub rd_off: usize,
    pub rd_len: usize,
    /// RDATA with embedded names decompressed; `None` when the RDATA holds no
    /// name field, i.e. it is identical to the octets on the wire (see
    /// `DRr::rdata`).
    pub rdata_dec: Option<Vec<u8>>,
    /// Spans (offset, len) of the embedded names inside `rdata`.
    pub name_spans: Vec<(usize, usize)>,
    pub owner_field: usize,
    pub rdata_fields: Vec<usize>,
}

impl DRr {
    /// The RDATA with embedded names decompressed (`msg`: the message).
    pub fn rdata<'a>(&'a self, msg: &'a [u8]) -> &'a [u8] {
        match &self.rdata_dec {
            Some(v) => v,
            None => &msg[self.rd_off..self.rd_off + self.rd_len],
        }
    }
}

#[derive(Clone, Debug)]
pub struct DMsg {
    pub hdr: wire::Header,
    pub qs: Vec<DQ>,
    pub rrs: Vec<DRr>,
    /// Every name field in message order.
    pub fields: Vec<NameField>,
    pub len: usize,
}

fn name_at(b: &[u8], at: usize, kind: FieldKind, rr: Option<usize>) -> Result<NameField, String> {
    let d = decode_name(b, at, PtrRule::BeforePointer).map_err(|e| format!("{} at {at}: {e:?}", kind.tag()))?;
    let end = at + d.first_chunk_len;
    let ptr = d.pointers.first().copied().filter(|(a, _)| *a < end);
    let literal_starts = d.label_offsets.iter().copied().filter(|o| *o >= at && *o < end).collect();
    Ok(NameField { kind, rr, start: at, len: d.first_chunk_len, name: d.name, ptr, literal_starts })
}

/// Walks the name-bearing prefix of the RDATA layout; everything that is not
/// a name is copied verbatim.
fn rdata_at(b: &[u8], off: usize, len: usize, class: u16, typ: u16, rr: usize, fields: &mut Vec<NameField>) -> Result<(Option<Vec<u8>>, Vec<(usize, usize)>, Vec<usize>), String> {
    let end = off + len;
    let has_names = wire::layout(class, typ).map(|l| l.iter().any(|f| matches!(f, F::NameC | F::NameU))).unwrap_or(false);
    if !has_names {
        return Ok((None, vec![], vec![]));
    }
    let bounded = &b[..end];
    let mut out = Vec::with_capacity(len + 16);
    let mut spans = Vec::new();
    let mut idx = Vec::new();
    let mut i = off;
    if let Some(lay) = wire::layout(class, typ) {
        for f in lay {
            match *f {
                F::NameC | F::NameU => {
                    if i >= end {
                        // RDATA ends before this name: nothing more to walk.
                        break;
                    }
                    let kind = if *f == F::NameC { FieldKind::RdataC } else { FieldKind::RdataU };
                    let nf = name_at(bounded, i, kind, Some(rr)).map_err(|e| format!("RDATA of type {typ}: {e}"))?;
                    spans.push((out.len(), nf.name.len()));
                    out.extend_from_slice(&nf.name);
                    i += nf.len;
                    idx.push(fields.len());
                    fields.push(nf);
                }
                F::Fixed(n) => {
                    if i + n > end {
                        break;
                    }
                    out.extend_from_slice(&b[i..i + n]);
                    i += n;
                }
                _ => break,
            }
        }
    }
    if i > end {
        return Err(format!("a name in the RDATA of type {typ} runs past RDLENGTH"));
    }
    out.extend_from_slice(&b[i..end]);
    Ok((Some(out), spans, idx))
}

pub fn decode(b: &[u8]) -> Result<DMsg, String> {
    let hdr = wire::Header::parse(b).ok_or("shorter than a header")?;
    let mut m = DMsg { hdr: hdr.clone(), qs: vec![], rrs: vec![], fields: vec![], len: b.len() };
    let mut i = 12;
    for q in 0..hdr.qdcount {
        let nf = name_at(b, i, FieldKind::Qname, None).map_err(|e| format!("question {q}: {e}"))?;
        let e = i + nf.len;
        if e + 4 > b.len() {
            return Err(format!("question {q}: fixed fields truncated"));
        }
        m.qs.push(DQ {
            name: nf.name.clone(),
            qtype: u16::from_be_bytes([b[e], b[e + 1]]),
            qclass: u16::from_be_bytes([b[e + 2], b[e + 3]]),
            field: m.fields.len(),
        });
        m.fields.push(nf);
        i = e + 4;
    }
    for (sec, count) in [(0u8, hdr.ancount), (1, hdr.nscount), (2, hdr.arcount)] {
        for k in 0..count {
            let rr_index = m.rrs.len();
            let nf = name_at(b, i, FieldKind::Owner, Some(rr_index)).map_err(|e| format!("section {sec} record {k}: {e}"))?;
            let e = i + nf.len;
            if e + 10 > b.len() {
                return Err(format!("section {sec} record {k}: fixed fields truncated"));
            }
            let typ = u16::from_be_bytes([b[e], b[e + 1]]);
            let class = u16::from_be_bytes([b[e + 2], b[e + 3]]);
            let ttl = u32::from_be_bytes([b[e + 4], b[e + 5], b[e + 6], b[e + 7]]);
            let rd_len = u16::from_be_bytes([b[e + 8], b[e + 9]]) as usize;
            let rd_off = e + 10;
            if rd_off + rd_len > b.len() {
                return Err(format!("section {sec} record {k}: RDATA (RDLENGTH {rd_len}) runs past the end of the message"));
            }
            let owner = nf.name.clone();
            let owner_field = m.fields.len();
            m.fields.push(nf);
            let (rdata_dec, name_spans, rdata_fields) =
                rdata_at(b, rd_off, rd_len, class, typ, rr_index, &mut m.fields).map_err(|e| format!("section {sec} record {k}: {e}"))?;
            m.rrs.push(DRr { sec, offset: i, owner, typ, class, ttl, rd_off, rd_len, rdata_dec, name_spans, owner_field, rdata_fields });
            i = rd_off + rd_len;
        }
    }
    if i != b.len() {
        return Err(format!("{} octets after the last counted record", b.len() - i));
    }
    Ok(m)
}

/// Spans (offset, len) of the embedded names of *uncompressed* RDATA, walking
/// the layout as far as it parses (same leniency as `rdata_at`).
pub fn uncompressed_name_spans(class: u16, typ: u16, rd: &[u8]) -> Vec<(usize, usize, bool)> {
    let mut out = Vec::new();
    let Some(lay) = wire::layout(class, typ) else { return out };
    let mut i = 0;
    for f in lay {
        match *f {
            F::NameC | F::NameU => match wire::valid_uncompressed_len(&rd[i.min(rd.len())..]) {
                Some(n) => {
                    out.push((i, n, *f == F::NameC));
                    i += n;
                }
                None => break,
            },
            F::Fixed(n) => {
                if i + n > rd.len() {
                    break;
                }
                i += n;
            }
            _ => break,
        }
    }
    out
}
