//! Reference models for the response-rate-limiting properties, written from
//! the property statements and the documentation of `RrlParams`. Nothing in
//! here calls quandary.
//!
//! * `Table` / `Bucket`: the token bucket of C26 (capacity rate x window,
//!   refilled by `rate` per whole elapsed second, sub-second phase kept), in a
//!   one-slot table so that "a different stream replaced the entry" can be
//!   expressed too.
//! * `StreamId` / `same_stream`: the stream-grouping predicate of C27.

use std::net::IpAddr;

/// Time in nanoseconds since the start of a history. 128 bits: idle periods
/// of 2^40 s and more must not overflow the *model*.
pub type Ns = u128;

pub const NS_PER_S: Ns = 1_000_000_000;

#[derive(Clone, Copy, Debug, PartialEq, Eq)]
pub enum Verdict {
    /// The bucket has room: the response goes out unchanged.
    Send,
    /// The bucket is full: the response is slipped or dropped.
    Limited,
}

impl Verdict {
    pub fn name(self) -> &'static str {
        match self {
            Verdict::Send => "send",
            Verdict::Limited => "limited",
        }
    }
}

/// The counter of one response stream.
#[derive(Clone, Copy, Debug, PartialEq, Eq, Hash)]
pub struct Bucket {
    /// Responses accounted for and not yet refilled.
    pub count: u128,
    /// The instant up to which refills have been credited.
    pub refilled_to: Ns,
}

/// A rate-limit table with a single slot ("size 1"): a request of a stream
/// other than the one held evicts the holder. With one stream only, this is
/// just that stream's bucket, whatever the real table size.
#[derive(Clone, Debug)]
pub struct Table {
    pub rate: u128,
    pub capacity: u128,
    pub slot: Option<(u32, Bucket)>,
}

impl Table {
    pub fn new(rate: u32, window: u32) -> Table {
        Table { rate: rate as u128, capacity: rate as u128 * window as u128, slot: None }
    }

    /// A response of `stream` is about to be sent at time `now`.
    pub fn request(&mut self, stream: u32, now: Ns) -> Verdict {
        match &mut self.slot {
            Some((s, b)) if *s == stream => {
                let elapsed = now - b.refilled_to;
                if elapsed >= NS_PER_S {
                    let whole = elapsed / NS_PER_S;
                    b.count = b.count.saturating_sub(self.rate.saturating_mul(whole));
                    b.refilled_to += whole * NS_PER_S;
                }
                if b.count >= self.capacity {
                    Verdict::Limited
                } else {
                    b.count += 1;
                    Verdict::Send
                }
            }
            _ => {
                // First response of the stream (or its entry was evicted):
                // the bucket starts with this one response in it. The
                // capacity is at least 1, so it is always sent.
                self.slot = Some((stream, Bucket { count: 1, refilled_to: now }));
                Verdict::Send
            }
        }
    }

    /// A fingerprint of the model state at time `now` (for counting the
    /// distinct states a run visited).
    pub fn fingerprint(&self, now: Ns) -> (u32, u128, Ns) {
        match &self.slot {
            None => (u32::MAX, 0, 0),
            Some((s, b)) => (*s, b.count, now - b.refilled_to),
        }
    }
}

// ------------------------------------------------------------------ C27

#[derive(Clone, Copy, Debug, PartialEq, Eq, Hash, PartialOrd, Ord)]
pub enum Category {
    NoError,
    NxDomain,
    Error,
}

impl Category {
    pub fn name(self) -> &'static str {
        match self {
            Category::NoError => "noerror",
            Category::NxDomain => "nxdomain",
            Category::Error => "error",
        }
    }
    /// From the full (12-bit) RCODE of a response.
    pub fn of_rcode(ext_rcode: u16) -> Category {
        match ext_rcode {
            0 => Category::NoError,
            3 => Category::NxDomain,
            _ => Category::Error,
        }
    }
}

/// What the statement says determines the stream of a response.
#[derive(Clone, Debug, PartialEq, Eq)]
pub struct StreamId {
    pub v6: bool,
    /// The leading `prefix_len` bits of the (canonical) source address.
    pub network: u128,
    pub category: Category,
    /// Lower-cased wire name (QNAME or source of synthesis) for NOERROR
    /// responses; empty otherwise.
    pub name: Vec<u8>,
}

/// IPv4-mapped IPv6 addresses (::ffff:a.b.c.d, RFC 4291 §2.5.5.2) count as
/// IPv4. Returns (is_v6, address bits, address width).
pub fn canonical_source(ip: IpAddr) -> (bool, u128, u32) {
    match ip {
        IpAddr::V4(a) => (false, u32::from_be_bytes(a.octets()) as u128, 32),
        IpAddr::V6(a) => {
            let bits = u128::from_be_bytes(a.octets());
            if bits >> 32 == 0xffff {
                (false, bits & 0xffff_ffff, 32)
            } else {
                (true, bits, 128)
            }
        }
    }
}

fn leading_bits(addr: u128, width: u32, prefix_len: u32) -> u128 {
    if prefix_len == 0 {
        0
    } else {
        addr >> (width - prefix_len)
    }
}

pub fn stream_of(source: IpAddr, v4_prefix: u8, v6_prefix: u8, category: Category, name_lower: &[u8]) -> StreamId {
    let (v6, addr, width) = canonical_source(source);
    let plen = if v6 { v6_prefix } else { v4_prefix } as u32;
    StreamId {
        v6,
        network: leading_bits(addr, width, plen),
        category,
        name: if category == Category::NoError { name_lower.to_vec() } else { Vec::new() },
    }
}
