//! Checks for the response-rate-limiting properties.
//!
//!   p-rrl C26 <tier> [--replay FILE]   token bucket over time (history exploration)
//!   p-rrl C27 <tier> [--replay FILE]   stream grouping (ordered request pairs)

mod c26;
mod c27;
mod model;
mod sut;

fn main() {
    let ctx = qvlib::Ctx::from_args(&["C26", "C27"]);
    match ctx.id.as_str() {
        "C26" => c26::run(ctx),
        _ => c27::run(ctx),
    }
}
