//! Adapters to the system under test shared by C26 and C27: the fixture zone,
//! the request menu, server construction with rate-limiting parameters, and
//! the classification of what `Server::handle_message` returned (sent
//! unchanged / slipped / dropped). No oracle logic lives here.

use std::net::IpAddr;
use std::sync::Arc;
use std::time::Duration;

use quandary::db::zone::GluePolicy;
use quandary::server::{ReceivedInfo, Response, RrlParams, Server, Transport, TsigKeyMap};

use qvlib::fixtures::{soa_rdata, tsig_keys};
use qvlib::qd::{self, Cat, Rec, Tp};
use qvlib::reftsig::{self, Alg};
use qvlib::templates::{KEY1_NAME, KEY1_SECRET, TSIG_TIME};
use qvlib::wire::{self, c, t, wname, MsgBuilder, PtrRule};
use qvlib::{catch, hex, json, Value};

use crate::model::Category;

// --------------------------------------------------------------- zone

/// Zone `t.`: plain names, two wildcards, a CNAME, a CNAME loop, a delegation.
pub fn zone_recs() -> Vec<Rec> {
    let r = |o: &str, ty: u16, rd: Vec<u8>| Rec::new(&wname(o), ty, c::IN, 300, &rd);
    vec![
        r("t.", t::SOA, soa_rdata("ns.t.", "admin.t.", 1, 3600, 600, 86400, 300)),
        r("t.", t::NS, wname("ns.t.")),
        r("ns.t.", t::A, vec![192, 0, 2, 1]),
        r("a.t.", t::A, vec![192, 0, 2, 10]),
        r("a.t.", t::TXT, vec![2, b'h', b'i']),
        r("b.t.", t::A, vec![192, 0, 2, 11]),
        r("aa.t.", t::A, vec![192, 0, 2, 12]),
        // the same octets with the label boundaries elsewhere: different names
        r("p.qr.t.", t::A, vec![192, 0, 2, 13]),
        r("pq.r.t.", t::A, vec![192, 0, 2, 14]),
        r("pqr.t.", t::A, vec![192, 0, 2, 15]),
        r("*.w.t.", t::A, vec![192, 0, 2, 20]),
        r("*.v.t.", t::A, vec![192, 0, 2, 21]),
        r("c.t.", t::CNAME, wname("a.t.")),
        r("loop1.t.", t::CNAME, wname("loop2.t.")),
        r("loop2.t.", t::CNAME, wname("loop1.t.")),
        // wildcard CNAMEs whose chase ends in NXDOMAIN / in a loop (SERVFAIL):
        // error responses that involved wildcard synthesis
        r("*.m.t.", t::CNAME, wname("missing.t.")),
        r("*.l.t.", t::CNAME, wname("loop.l.t.")),
        r("d.t.", t::NS, wname("ns.d.t.")),
        r("ns.d.t.", t::A, vec![192, 0, 2, 30]),
        // answers too large for a 512-octet UDP response (three 200-octet
        // strings): without EDNS the response is truncated (NOERROR, TC)
        r("*.big.t.", t::TXT, big_txt(b'x')),
        r("*.big.t.", t::TXT, big_txt(b'y')),
        r("*.big.t.", t::TXT, big_txt(b'z')),
        r("big2.t.", t::TXT, big_txt(b'x')),
        r("big2.t.", t::TXT, big_txt(b'y')),
        r("big2.t.", t::TXT, big_txt(b'z')),
    ]
}

fn big_txt(fill: u8) -> Vec<u8> {
    let mut v = vec![200u8];
    v.extend(std::iter::repeat(fill).take(200));
    v
}

pub fn catalog() -> Arc<Cat> {
    let z = qd::build_zone(&wname("t."), c::IN, GluePolicy::Narrow, &zone_recs()).expect("fixture zone");
    Arc::new(qd::catalog_of(vec![z]))
}

// ------------------------------------------------------------ requests

/// How a request is "dressed": what accompanies the question.
#[derive(Clone, Copy, Debug, PartialEq, Eq)]
pub enum Dress {
    Plain,
    /// OPT, version 0, payload 1232.
    Edns,
    /// OPT plus a valid TSIG (key k1., hmac-sha256).
    EdnsTsig,
    /// OPT with EDNS version 1 (answered BADVERS, extended RCODE 16).
    EdnsV1,
    /// TSIG naming a key the server does not have (answered NOTAUTH).
    TsigUnknownKey,
    /// One junk octet after the last counted record (answered FORMERR).
    TrailingJunk,
}

/// A menu entry: the message, its transport, and the hand-written labels the
/// oracles use (what RFC 1034/1035/2136/6891/8945 say the answer's RCODE is
/// for the fixture zone, and which name identifies a NOERROR stream).
#[derive(Clone, Debug)]
pub struct Kind {
    pub name: &'static str,
    pub msg: Vec<u8>,
    pub tp: Tp,
    pub opcode: u8,
    /// Does the server answer at all (requests with QR set or two questions
    /// are ignored)?
    pub answered: bool,
    /// Full RCODE expected without rate limiting.
    pub rcode: u16,
    /// Lower-cased wire form of the QNAME, or of the wildcard the answer is
    /// synthesised from.
    pub stream_name: Vec<u8>,
    /// The QNAME is itself a wildcard owner name (asked for directly).
    pub direct_wildcard: bool,
    /// The answer is synthesised from a wildcard.
    pub synthesised: bool,
    /// Even without rate limiting the response is truncated (TC, no
    /// records): a slipped response is then indistinguishable from it.
    pub truncated_baseline: bool,
}

impl Kind {
    pub fn category(&self) -> Category {
        Category::of_rcode(self.rcode)
    }
}

pub fn build_query(id: u16, opcode: u8, qname: &[u8], qtype: u16, dress: Dress) -> Vec<u8> {
    let flags = (opcode as u16 & 0xf) << 11;
    let b = MsgBuilder::new(id, flags).question(qname, qtype, c::IN);
    match dress {
        Dress::Plain => b.build(),
        Dress::Edns => b.opt(1232, 0, 0, 0, &[]).build(),
        Dress::EdnsV1 => b.opt(1232, 0, 1, 0, &[]).build(),
        Dress::TrailingJunk => {
            let mut m = b.build();
            m.push(0x55);
            m
        }
        Dress::EdnsTsig => {
            let m = b.opt(1232, 0, 0, 0, &[]).build();
            reftsig::sign_request(&m, &wname(KEY1_NAME), Alg::Sha256, &Alg::Sha256.wire_name(), KEY1_SECRET, TSIG_TIME, 300, None).0
        }
        Dress::TsigUnknownKey => {
            let m = b.build();
            reftsig::sign_request(&m, &wname("nokey."), Alg::Sha256, &Alg::Sha256.wire_name(), KEY1_SECRET, TSIG_TIME, 300, None).0
        }
    }
}

#[allow(clippy::too_many_arguments)]
fn kind(name: &'static str, qname: &str, qtype: u16, dress: Dress, tp: Tp, opcode: u8, rcode: u16, stream: &str) -> Kind {
    let q = wname(qname);
    let stream_name = wire::lower(&wname(stream));
    Kind {
        name,
        msg: build_query(0x2600 | (name.len() as u16 & 0xff), opcode, &q, qtype, dress),
        tp,
        opcode,
        answered: true,
        rcode,
        direct_wildcard: qname.starts_with('*'),
        synthesised: stream.starts_with('*') && !qname.starts_with('*'),
        stream_name,
        truncated_baseline: name.ends_with("-truncated"),
    }
}

/// The complete request menu. Entries are looked up by name.
pub fn menu() -> Vec<Kind> {
    use Dress::*;
    const Q: u8 = 0; // opcode QUERY
    let u = Tp::Udp;
    let mut v = vec![
        // ---- NOERROR
        kind("a-A", "a.t.", t::A, Plain, u, Q, 0, "a.t."),
        kind("a-A-upper", "A.T.", t::A, Plain, u, Q, 0, "a.t."),
        kind("a-TXT", "a.t.", t::TXT, Plain, u, Q, 0, "a.t."),
        kind("a-MX-nodata", "a.t.", t::MX, Plain, u, Q, 0, "a.t."),
        kind("a-ANY", "a.t.", t::ANY, Plain, u, Q, 0, "a.t."),
        kind("a-A-edns", "a.t.", t::A, Edns, u, Q, 0, "a.t."),
        kind("a-A-tsig", "a.t.", t::A, EdnsTsig, u, Q, 0, "a.t."),
        kind("b-A", "b.t.", t::A, Plain, u, Q, 0, "b.t."),
        kind("aa-A", "aa.t.", t::A, Plain, u, Q, 0, "aa.t."),
        kind("shifted-1", "p.qr.t.", t::A, Plain, u, Q, 0, "p.qr.t."),
        kind("shifted-2", "pq.r.t.", t::A, Plain, u, Q, 0, "pq.r.t."),
        kind("shifted-3", "PQR.t.", t::A, Plain, u, Q, 0, "pqr.t."),
        kind("c-A-cname", "c.t.", t::A, Plain, u, Q, 0, "c.t."),
        kind("apex-SOA", "t.", t::SOA, Plain, u, Q, 0, "t."),
        kind("referral", "s.d.t.", t::A, Plain, u, Q, 0, "s.d.t."),
        kind("wild-x", "x.w.t.", t::A, Plain, u, Q, 0, "*.w.t."),
        kind("wild-y-edns", "y.w.t.", t::A, Edns, u, Q, 0, "*.w.t."),
        kind("wild-x-upper", "X.W.T.", t::A, Plain, u, Q, 0, "*.w.t."),
        kind("wild-x-MX-nodata", "x.w.t.", t::MX, Plain, u, Q, 0, "*.w.t."),
        kind("wild-deep", "p.q.w.t.", t::A, Plain, u, Q, 0, "*.w.t."),
        kind("wild-direct", "*.w.t.", t::A, Plain, u, Q, 0, "*.w.t."),
        kind("wild2-x", "x.v.t.", t::A, Plain, u, Q, 0, "*.v.t."),
        kind("ent-w-nodata", "w.t.", t::A, Plain, u, Q, 0, "w.t."),
        // wildcard synthesis x truncation: the truncated response (no EDNS)
        // and the complete one (EDNS) belong to the wildcard's stream
        kind("wild-big-x-truncated", "x.big.t.", t::TXT, Plain, u, Q, 0, "*.big.t."),
        kind("wild-big-y-truncated", "y.big.t.", t::TXT, Plain, u, Q, 0, "*.big.t."),
        kind("wild-big-x-edns", "x.big.t.", t::TXT, Edns, u, Q, 0, "*.big.t."),
        kind("wild-big-z-A-nodata", "z.big.t.", t::A, Plain, u, Q, 0, "*.big.t."),
        // the same through the QTYPE * path, which writes its answers in
        // a loop of its own
        kind("wild-big-x-ANY-truncated", "x.big.t.", t::ANY, Plain, u, Q, 0, "*.big.t."),
        kind("wild-big-y-ANY-truncated", "y.big.t.", t::ANY, Plain, u, Q, 0, "*.big.t."),
        kind("wild-big-y-ANY-edns", "y.big.t.", t::ANY, Edns, u, Q, 0, "*.big.t."),
        kind("wild-x-ANY", "x.w.t.", t::ANY, Plain, u, Q, 0, "*.w.t."),
        kind("big2-ANY-truncated", "big2.t.", t::ANY, Plain, u, Q, 0, "big2.t."),
        kind("big2-truncated", "big2.t.", t::TXT, Plain, u, Q, 0, "big2.t."),
        kind("big2-edns", "BIG2.t.", t::TXT, Edns, u, Q, 0, "big2.t."),
        // ---- NXDOMAIN
        kind("nx1", "nx1.t.", t::A, Plain, u, Q, 3, "nx1.t."),
        kind("nx2-edns", "nx2.t.", t::A, Edns, u, Q, 3, "nx2.t."),
        kind("nx1-TXT-tsig", "nx1.t.", t::TXT, EdnsTsig, u, Q, 3, "nx1.t."),
        kind("nx-below-a", "x.a.t.", t::A, Plain, u, Q, 3, "x.a.t."),
        kind("nx-via-wildcard-cname", "q.m.t.", t::A, Plain, u, Q, 3, "q.m.t."),
        kind("nx-via-wildcard-cname-2", "r.m.t.", t::TXT, Edns, u, Q, 3, "r.m.t."),
        // ---- other RCODEs
        kind("servfail-wildcard-loop", "q.l.t.", t::A, Plain, u, Q, 2, "q.l.t."),
        kind("refused-x", "x.u.", t::A, Plain, u, Q, 5, "x.u."),
        kind("refused-y-edns", "y.u.", t::A, Edns, u, Q, 5, "y.u."),
        kind("notimp-axfr", "a.t.", t::AXFR, Plain, u, Q, 4, "a.t."),
        kind("servfail-loop", "loop1.t.", t::A, Plain, u, Q, 2, "loop1.t."),
        kind("formerr-junk", "a.t.", t::A, TrailingJunk, u, Q, 1, "a.t."),
        kind("badvers", "a.t.", t::A, EdnsV1, u, Q, 16, "a.t."),
        kind("notauth-badkey", "a.t.", t::A, TsigUnknownKey, u, Q, 9, "a.t."),
        // ---- never limited: TCP, opcodes other than QUERY
        kind("tcp-a-A", "a.t.", t::A, Plain, Tp::Tcp, Q, 0, "a.t."),
        kind("tcp-nx1", "nx1.t.", t::A, Plain, Tp::Tcp, Q, 3, "nx1.t."),
        kind("tcp-refused", "x.u.", t::A, Edns, Tp::Tcp, Q, 5, "x.u."),
        kind("notify", "t.", t::SOA, Plain, u, 4, 4, "t."),
        kind("update-edns", "t.", t::SOA, Edns, u, 5, 4, "t."),
        kind("status", "a.t.", t::A, Plain, u, 2, 4, "a.t."),
    ];
    // QUERY whose question cannot be parsed: a bare header claiming one
    // question (FORMERR, no question to key on).
    v.push(Kind {
        name: "formerr-noquestion",
        msg: MsgBuilder::new(0x2601, 0).counts(1, 0, 0, 0).build(),
        tp: u,
        opcode: 0,
        answered: true,
        rcode: 1,
        stream_name: vec![0],
        direct_wildcard: false,
        synthesised: false,
        truncated_baseline: false,
    });
    // QUERY with QDCOUNT 0 (FORMERR).
    v.push(Kind {
        name: "formerr-qdcount0",
        msg: MsgBuilder::new(0x2602, 0).build(),
        tp: u,
        opcode: 0,
        answered: true,
        rcode: 1,
        stream_name: vec![0],
        direct_wildcard: false,
        synthesised: false,
        truncated_baseline: false,
    });
    // Ignored messages: QR set; two questions.
    let mut ignored = kind("ignored-qr", "a.t.", t::A, Plain, u, Q, 0, "a.t.");
    ignored.msg[2] |= 0x80;
    ignored.answered = false;
    v.push(ignored);
    let mut two = kind("ignored-2q", "a.t.", t::A, Plain, u, Q, 0, "a.t.");
    two.msg = MsgBuilder::new(0x2603, 0).question(&wname("a.t."), t::A, c::IN).question(&wname("a.t."), t::A, c::IN).build();
    two.answered = false;
    v.push(two);
    v
}

// -------------------------------------------------------------- server

#[derive(Clone, Debug, PartialEq, Eq)]
pub struct RrlCfg {
    pub noerror_rate: u32,
    pub nxdomain_rate: u32,
    pub error_rate: u32,
    pub window: u32,
    pub slip: usize,
    /// None = leave quandary's default (24 / 56 / 65 537).
    pub v4_prefix: Option<u8>,
    pub v6_prefix: Option<u8>,
    pub size: Option<usize>,
}

impl RrlCfg {
    pub fn to_json(&self) -> Value {
        json!({
            "noerror_rate": self.noerror_rate, "nxdomain_rate": self.nxdomain_rate, "error_rate": self.error_rate,
            "window": self.window, "slip": self.slip,
            "v4_prefix": self.v4_prefix, "v6_prefix": self.v6_prefix, "size": self.size,
        })
    }
    pub fn from_json(v: &Value) -> Option<RrlCfg> {
        let u = |k: &str| v.get(k).and_then(|x| x.as_u64());
        Some(RrlCfg {
            noerror_rate: u("noerror_rate")? as u32,
            nxdomain_rate: u("nxdomain_rate")? as u32,
            error_rate: u("error_rate")? as u32,
            window: u("window")? as u32,
            slip: u("slip")? as usize,
            v4_prefix: u("v4_prefix").map(|x| x as u8),
            v6_prefix: u("v6_prefix").map(|x| x as u8),
            size: u("size").map(|x| x as usize),
        })
    }
    pub fn rate_of(&self, cat: Category) -> u32 {
        match cat {
            Category::NoError => self.noerror_rate,
            Category::NxDomain => self.nxdomain_rate,
            Category::Error => self.error_rate,
        }
    }
    /// The documented defaults where the configuration leaves them unset.
    pub fn effective_v4_prefix(&self) -> u8 {
        self.v4_prefix.unwrap_or(24)
    }
    pub fn effective_v6_prefix(&self) -> u8 {
        self.v6_prefix.unwrap_or(56)
    }
    fn params(&self) -> RrlParams {
        let mut p = RrlParams::new(self.noerror_rate, self.nxdomain_rate, self.error_rate, self.window).expect("harness uses valid RRL parameters");
        p.set_slip(self.slip);
        if let Some(l) = self.v4_prefix {
            p.set_ipv4_prefix_len(l).expect("valid IPv4 prefix length");
        }
        if let Some(l) = self.v6_prefix {
            p.set_ipv6_prefix_len(l).expect("valid IPv6 prefix length");
        }
        if let Some(s) = self.size {
            p.set_size(s).expect("valid table size");
        }
        p
    }
}

/// Everything a worker needs that is expensive to build.
pub struct Env {
    pub catalog: Arc<Cat>,
    pub keys: Arc<TsigKeyMap>,
    pub menu: Vec<Kind>,
    /// Response of a server *without* rate limiting to each menu entry.
    pub baseline: Vec<Option<Vec<u8>>>,
}

pub fn set_rrl_clock(now: Duration) {
    quandary::server::verif_hooks::set_rrl_elapsed(Some(now));
}

pub fn init_thread_clocks() {
    quandary::server::verif_hooks::set_tsig_unix_time(Some(TSIG_TIME));
    set_rrl_clock(Duration::ZERO);
}

impl Env {
    /// Builds the environment and checks the hand-written labels of the menu
    /// against a server without rate limiting. A disagreement there is not a
    /// verdict on C26/C27 (it belongs to the resolution properties): it is
    /// reported as a machinery error.
    pub fn new() -> Env {
        init_thread_clocks();
        let catalog = catalog();
        let keys = Arc::new(tsig_keys());
        let menu = menu();
        let mut env = Env { catalog, keys, menu, baseline: Vec::new() };
        let plain = env.server_without_rrl();
        let src: IpAddr = "192.0.2.77".parse().unwrap();
        let mut buf = vec![0u8; 65535];
        for k in &env.menu {
            let got = match call(&plain, &k.msg, src, k.tp, &mut buf) {
                Ok(n) => n.map(|n| buf[..n].to_vec()),
                Err(p) => machinery(&format!("menu entry {} panics without rate limiting: {p}", k.name)),
            };
            match (&got, k.answered) {
                (None, false) => {}
                (Some(b), true) => {
                    let m = wire::decode_message(b, PtrRule::BeforePointer, false)
                        .unwrap_or_else(|e| machinery(&format!("menu entry {}: baseline response does not decode: {e}", k.name)));
                    if m.ext_rcode() != k.rcode {
                        machinery(&format!("menu entry {}: labelled RCODE {} but the server without rate limiting answers {}", k.name, k.rcode, m.ext_rcode()));
                    }
                    if m.header.tc != k.truncated_baseline {
                        machinery(&format!("menu entry {}: baseline response has TC={} but the entry is labelled truncated={}", k.name, m.header.tc, k.truncated_baseline));
                    }
                }
                _ => machinery(&format!("menu entry {}: answered={} but got {:?}", k.name, k.answered, got.as_ref().map(|b| hex(b)))),
            }
            env.baseline.push(got);
        }
        env
    }

    pub fn server_without_rrl(&self) -> Server<Cat> {
        let s = Server::new(self.catalog.clone());
        s.set_tsig_keys(self.keys.clone());
        s
    }

    /// A server with a fresh rate limiter. The virtual RRL clock of the
    /// calling thread must already be set.
    pub fn server(&self, cfg: &RrlCfg) -> Server<Cat> {
        let mut s = self.server_without_rrl();
        s.set_rrl_params(Some(cfg.params()));
        s
    }

    pub fn kind_index(&self, name: &str) -> usize {
        self.menu.iter().position(|k| k.name == name).unwrap_or_else(|| machinery(&format!("unknown request kind {name}")))
    }
}

/// Replaces the server's rate limiter with a fresh one (new table, new hash
/// keys).
pub fn reset_rrl(server: &mut Server<Cat>, cfg: &RrlCfg) {
    server.set_rrl_params(Some(cfg.params()));
}

/// Stable key for a panic: `panic@src/<file>:<line>` whatever the location of
/// the source tree.
pub fn panic_class(msg: &str) -> String {
    let k = qvlib::panic_key(msg);
    match k.find("src/") {
        Some(i) => format!("panic@{}", &k[i..]),
        None => k,
    }
}

pub fn machinery(msg: &str) -> ! {
    eprintln!("MACHINERY: {msg}");
    std::process::exit(3)
}

/// `Server::handle_message` under `catch_unwind`, into the caller's buffer.
pub fn call(server: &Server<Cat>, req: &[u8], src: IpAddr, tp: Tp, buf: &mut [u8]) -> Result<Option<usize>, String> {
    let info = ReceivedInfo::new(src, if tp == Tp::Udp { Transport::Udp } else { Transport::Tcp });
    match catch(|| server.handle_message(req, info, buf)) {
        Ok(Response::Single(n)) if n <= buf.len() => Ok(Some(n)),
        Ok(Response::Single(n)) => Err(format!("handle_message returned length {n} beyond the buffer")),
        Ok(Response::None) => Ok(None),
        Err(p) => Err(p),
    }
}

// ------------------------------------------------------- observation

/// What came back for one request, relative to the response of a server
/// without rate limiting.
#[derive(Clone, Debug, PartialEq, Eq)]
pub enum Observed {
    /// Octet-for-octet the unlimited response (or, for ignored requests, no
    /// response, as without rate limiting).
    Sent,
    /// TC set, no records other than OPT/TSIG.
    Slipped,
    /// No response although the unlimited server answers.
    Dropped,
    /// Neither of the above.
    Malformed(String),
    Panic(String),
}

impl Observed {
    pub fn name(&self) -> &'static str {
        match self {
            Observed::Sent => "sent",
            Observed::Slipped => "slipped",
            Observed::Dropped => "dropped",
            Observed::Malformed(_) => "malformed",
            Observed::Panic(_) => "panic",
        }
    }
    pub fn detail(&self) -> String {
        match self {
            Observed::Malformed(s) | Observed::Panic(s) => s.clone(),
            o => o.name().to_string(),
        }
    }
}

/// Classifies a response. `req` is the request, `baseline` what a server
/// without rate limiting answers to it.
pub fn classify(req: &[u8], baseline: Option<&[u8]>, got: Result<Option<&[u8]>, String>) -> Observed {
    let got = match got {
        Ok(g) => g,
        Err(p) => return Observed::Panic(p),
    };
    match (baseline, got) {
        (None, None) => Observed::Sent,
        (Some(_), None) => Observed::Dropped,
        (None, Some(g)) => Observed::Malformed(format!("response {} to a request the server ignores without rate limiting", hex(g))),
        (Some(b), Some(g)) => {
            if b == g {
                return Observed::Sent;
            }
            // Must be a slip: TC set, no records other than OPT/TSIG, and
            // still a response to this request.
            let m = match wire::decode_message(g, PtrRule::BeforePointer, false) {
                Ok(m) => m,
                Err(e) => return Observed::Malformed(format!("response {} does not decode: {e}", hex(g))),
            };
            let mut why = Vec::new();
            if !m.header.tc {
                why.push("differs from the unlimited response but TC is clear".to_string());
            }
            if !m.header.qr {
                why.push("QR clear".to_string());
            }
            if g[0..2] != req[0..2] {
                why.push("ID differs from the request".to_string());
            }
            if m.header.opcode != (req[2] >> 3) & 0xf {
                why.push("opcode differs from the request".to_string());
            }
            if !m.answers.is_empty() || !m.authority.is_empty() {
                why.push(format!("{} answer and {} authority records", m.answers.len(), m.authority.len()));
            }
            for r in &m.additional {
                if r.typ != t::OPT && r.typ != t::TSIG {
                    why.push(format!("additional record of type {}", r.typ));
                }
            }
            if m.additional.iter().filter(|r| r.typ == t::OPT).count() > 1 || m.additional.iter().filter(|r| r.typ == t::TSIG).count() > 1 {
                why.push("more than one OPT or TSIG".to_string());
            }
            if why.is_empty() {
                Observed::Slipped
            } else {
                Observed::Malformed(format!("{} (response {})", why.join("; "), hex(g)))
            }
        }
    }
}
