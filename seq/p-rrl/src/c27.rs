//! C27 — rate limiting groups responses into the documented streams.
//!
//! Input-shape exploration: every ordered pair of requests from the menu
//! (sources straddling the prefix boundaries x request kinds) under every
//! prefix configuration, with a limit of one response per stream (rate 1,
//! window 1, clock frozen). The second response is limited exactly when the
//! reference predicate says both responses belong to one stream.

use std::net::{IpAddr, Ipv4Addr, Ipv6Addr};
use std::sync::atomic::{AtomicU64, Ordering};

use quandary::server::Server;
use qvlib::qd::{Cat, Tp};
use qvlib::{json, Ctx, Local, Value};

use crate::model::{self, Category};
use crate::sut::{self, Env, Kind, Observed, RrlCfg};

// ------------------------------------------------------------- sources

const V4_BASE: u32 = 0x0a00_0001; // 10.0.0.1
const V6_BASE: u128 = 0x2001_0db8_0001_0002_0003_0004_0005_0006;

/// Bit positions (0 = most significant) at which a source differs from the
/// base address: both sides of every prefix length used below.
const V4_FLIPS: [u32; 7] = [0, 7, 8, 23, 24, 30, 31];
const V6_FLIPS: [u32; 8] = [0, 47, 48, 55, 56, 63, 64, 127];

pub fn sources() -> Vec<(String, IpAddr)> {
    let mut v: Vec<(String, IpAddr)> = Vec::new();
    v.push(("v4-base".into(), IpAddr::V4(Ipv4Addr::from(V4_BASE))));
    for k in V4_FLIPS {
        v.push((format!("v4-flip{k}"), IpAddr::V4(Ipv4Addr::from(V4_BASE ^ (1u32 << (31 - k))))));
    }
    // IPv4-mapped IPv6 forms of the base and of the address differing at bit 7.
    v.push(("mapped-v4-base".into(), IpAddr::V6(Ipv6Addr::from(0xffff_0000_0000u128 | V4_BASE as u128))));
    v.push(("mapped-v4-flip7".into(), IpAddr::V6(Ipv6Addr::from(0xffff_0000_0000u128 | (V4_BASE ^ (1 << 24)) as u128))));
    v.push(("v6-base".into(), IpAddr::V6(Ipv6Addr::from(V6_BASE))));
    for k in V6_FLIPS {
        v.push((format!("v6-flip{k}"), IpAddr::V6(Ipv6Addr::from(V6_BASE ^ (1u128 << (127 - k))))));
    }
    // IPv6 addresses that are *not* IPv4-mapped although they look similar,
    // all with an all-zero upper half ...
    v.push(("v6-loopback".into(), IpAddr::V6(Ipv6Addr::from(1u128))));
    v.push(("v6-compat-v4-base".into(), IpAddr::V6(Ipv6Addr::from(V4_BASE as u128))));
    v.push(("v6-almost-mapped".into(), IpAddr::V6(Ipv6Addr::from((1u128 << 48) | 0xffff_0000_0000u128 | V4_BASE as u128))));
    // ... and one whose upper half equals the IPv4 base address as a number.
    v.push(("v6-upper-eq-v4-base".into(), IpAddr::V6(Ipv6Addr::from((V4_BASE as u128) << 64))));
    v
}

// ------------------------------------------------------ configurations

const V4_LENS: [Option<u8>; 8] = [None, Some(0), Some(1), Some(8), Some(24), Some(25), Some(31), Some(32)];
const V6_LENS: [Option<u8>; 8] = [None, Some(0), Some(1), Some(48), Some(56), Some(57), Some(63), Some(64)];

fn cfg(v4: Option<u8>, v6: Option<u8>, slip: usize, size: Option<usize>) -> RrlCfg {
    RrlCfg { noerror_rate: 1, nxdomain_rate: 1, error_rate: 1, window: 1, slip, v4_prefix: v4, v6_prefix: v6, size }
}

fn main_cfgs(ctx: &Ctx) -> Vec<RrlCfg> {
    let mut out = Vec::new();
    if ctx.quick() {
        // Every IPv4 and every IPv6 prefix length twice, with both slip
        // values and both table sizes.
        for i in 0..8 {
            out.push(cfg(V4_LENS[i], V6_LENS[i], i % 2, Some(1)));
        }
        for i in 0..8 {
            out.push(cfg(V4_LENS[i], V6_LENS[(i + 3) % 8], (i + 1) % 2, Some(257)));
        }
    } else {
        for (i, v4) in V4_LENS.iter().enumerate() {
            for (j, v6) in V6_LENS.iter().enumerate() {
                for slip in [0usize, 1] {
                    out.push(cfg(*v4, *v6, slip, Some(if (i + j + slip) % 2 == 0 { 1 } else { 257 })));
                }
            }
        }
    }
    out
}

/// Reduced menu run against quandary's default table size (65 537 entries,
/// expensive to construct).
const DEFAULT_SIZE_SOURCES: [&str; 7] = ["v4-base", "v4-flip24", "v4-flip23", "mapped-v4-base", "v6-base", "v6-flip56", "v6-flip55"];
const DEFAULT_SIZE_KINDS: [&str; 10] = ["a-A", "a-A-upper", "b-A", "wild-x", "wild-y-edns", "nx1", "nx2-edns", "refused-x", "badvers", "tcp-a-A"];

fn default_size_cfgs() -> Vec<RrlCfg> {
    vec![cfg(None, None, 0, None), cfg(None, None, 1, None), cfg(Some(32), Some(64), 1, None), cfg(Some(0), Some(0), 0, None)]
}

// -------------------------------------------------------------- oracle

#[derive(Clone, Copy, Debug, PartialEq, Eq)]
enum Expect {
    Limited,
    NotLimited,
    /// The statement does not decide (see the oracle decision log).
    Either,
}

impl Expect {
    fn name(self) -> &'static str {
        match self {
            Expect::Limited => "limited",
            Expect::NotLimited => "not-limited",
            Expect::Either => "either",
        }
    }
}

/// Is a response to this request subject to rate limiting at all? Only UDP
/// responses to opcode QUERY are; a request the server ignores has no
/// response to limit.
fn subject(k: &Kind) -> bool {
    k.answered && k.tp == Tp::Udp && k.opcode == 0
}

struct Relation {
    expect: Expect,
    /// Human-readable description of how the two requests relate.
    text: String,
}

fn relate(c: &RrlCfg, s1: IpAddr, k1: &Kind, s2: IpAddr, k2: &Kind) -> Relation {
    if !subject(k2) {
        return Relation { expect: Expect::NotLimited, text: format!("second-exempt({})", exempt_reason(k2)) };
    }
    if !subject(k1) {
        return Relation { expect: Expect::NotLimited, text: format!("first-exempt({})", exempt_reason(k1)) };
    }
    let (v4p, v6p) = (c.effective_v4_prefix(), c.effective_v6_prefix());
    let a = model::stream_of(s1, v4p, v6p, k1.category(), &k1.stream_name);
    let b = model::stream_of(s2, v4p, v6p, k2.category(), &k2.stream_name);
    let fam = match (a.v6, b.v6) {
        (false, false) => "v4-v4",
        (true, true) => "v6-v6",
        _ => "v4-v6",
    };
    let net = if a.v6 == b.v6 && a.network == b.network { "same-net" } else { "other-net" };
    let cats = format!("{}-{}", a.category.name(), b.category.name());
    let mut text = format!("{fam}/{net}/{cats}");
    let mut expect = if a == b { Expect::Limited } else { Expect::NotLimited };
    if a.category == Category::NoError && b.category == Category::NoError {
        let same_name = a.name == b.name;
        text.push_str(if same_name { "/same-name" } else { "/other-name" });
        // A query for the wildcard owner name itself against an answer
        // synthesised from that wildcard: "QNAME or source of synthesis" does
        // not say whether these two are the same stream.
        if same_name && ((k1.synthesised && k2.direct_wildcard) || (k2.synthesised && k1.direct_wildcard)) {
            text.push_str("(qname-vs-synthesis)");
            if expect == Expect::Limited {
                expect = Expect::Either;
            }
        } else if same_name && k1.synthesised && k2.synthesised {
            text.push_str("(both-synthesised)");
        }
    }
    if c.slip == 1 && k2.truncated_baseline && expect == Expect::Limited {
        // The unlimited response is itself "TC, no records": a slipped
        // response is octet for octet the same, so limiting is not observable
        // (it is under slip 0, where the response is dropped).
        text.push_str("(truncated-baseline)");
        expect = Expect::Either;
    }
    Relation { expect, text }
}

fn exempt_reason(k: &Kind) -> &'static str {
    if !k.answered {
        "ignored"
    } else if k.tp != Tp::Udp {
        "tcp"
    } else {
        "opcode"
    }
}

// ------------------------------------------------------------ one pair

struct PairRun<'e> {
    env: &'e Env,
    buf: Vec<u8>,
}

struct Mismatch {
    key: String,
    detail: Value,
}

impl<'e> PairRun<'e> {
    fn observe(&mut self, server: &Server<Cat>, ki: usize, src: IpAddr) -> Observed {
        let k = &self.env.menu[ki];
        let got = sut::call(server, &k.msg, src, k.tp, &mut self.buf);
        sut::classify(&k.msg, self.env.baseline[ki].as_deref(), got.map(|n| n.map(|n| &self.buf[..n])))
    }

    /// Runs the pair once on a fresh limiter. Ok(observed second response) or
    /// the mismatch.
    fn once(&mut self, server: &mut Server<Cat>, c: &RrlCfg, rel: &Relation, first: (IpAddr, usize), second: (IpAddr, usize)) -> Result<Observed, Mismatch> {
        use std::time::Duration;
        let r = self.once_at(server, c, rel, first, second, Duration::ZERO, Duration::ZERO)?;
        if matches!(rel.expect, Expect::Limited) {
            // Two responses of one stream less than a second apart share the
            // single token whatever the clock's phase relative to the moment
            // the limiter was created (clock 0): the first response at a
            // fractional second, the second across the next whole second.
            for (t1, t2) in [(Duration::from_millis(700), Duration::from_millis(1100)), (Duration::new(2, 999_999_999), Duration::new(3, 999_999_998))] {
                self.once_at(server, c, rel, first, second, t1, t2).map_err(|mut m| {
                    m.key = format!("{}/clock-phase", m.key);
                    m.detail["clock_s"] = json!([t1.as_secs_f64(), t2.as_secs_f64()]);
                    m
                })?;
            }
        }
        Ok(r)
    }

    fn once_at(&mut self, server: &mut Server<Cat>, c: &RrlCfg, rel: &Relation, first: (IpAddr, usize), second: (IpAddr, usize), t1: std::time::Duration, t2: std::time::Duration) -> Result<Observed, Mismatch> {
        sut::set_rrl_clock(std::time::Duration::ZERO);
        sut::reset_rrl(server, c);
        sut::set_rrl_clock(t1);
        let o1 = self.observe(server, first.1, first.0);
        sut::set_rrl_clock(t2);
        if o1 != Observed::Sent {
            let k = match &o1 {
                Observed::Panic(p) => sut::panic_class(p),
                o => o.name().to_string(),
            };
            return Err(Mismatch { key: format!("first-response-{k}"), detail: json!({"which": "first", "expected": "sent", "observed": o1.detail()}) });
        }
        let o2 = self.observe(server, second.1, second.0);
        let ok = match (&o2, rel.expect) {
            (Observed::Sent, Expect::NotLimited | Expect::Either) => true,
            (Observed::Dropped, Expect::Limited | Expect::Either) => c.slip == 0,
            (Observed::Slipped, Expect::Limited | Expect::Either) => c.slip == 1,
            _ => false,
        };
        if ok {
            Ok(o2)
        } else {
            let k = match &o2 {
                Observed::Panic(p) => sut::panic_class(p),
                o => o.name().to_string(),
            };
            Err(Mismatch {
                key: format!("second-expected-{}-observed-{}/slip{}/{}", rel.expect.name(), k, c.slip, rel.text),
                detail: json!({"which": "second", "expected": rel.expect.name(), "observed": o2.detail(), "relation": rel.text}),
            })
        }
    }
}

fn case_json(env: &Env, c: &RrlCfg, srcs: &[(String, IpAddr)], first: (usize, usize), second: (usize, usize), failure: Option<&Mismatch>) -> Value {
    let r = |(s, k): (usize, usize)| json!({"source_label": srcs[s].0, "source": srcs[s].1.to_string(), "kind": env.menu[k].name, "request": qvlib::hex(&env.menu[k].msg)});
    json!({"property": "C27", "cfg": c.to_json(), "first": r(first), "second": r(second), "failure": failure.map(|f| f.detail.clone())})
}

// -------------------------------------------------------------- driver

struct Item {
    cfg_idx: usize,
    /// Index into the request list (source, kind) of the first request.
    first: usize,
}

struct Sweep {
    name: &'static str,
    cfgs: Vec<RrlCfg>,
    /// (source index, kind index)
    requests: Vec<(usize, usize)>,
}

pub fn run(ctx: Ctx) -> ! {
    let env = Env::new();
    let srcs = sources();
    if let Some(case) = ctx.replay_case().cloned() {
        replay(ctx, &env, case);
    }

    let all_requests: Vec<(usize, usize)> = (0..srcs.len()).flat_map(|s| (0..env.menu.len()).map(move |k| (s, k))).collect();
    let src_idx = |label: &str| srcs.iter().position(|(l, _)| l == label).unwrap_or_else(|| sut::machinery(&format!("unknown source {label}")));
    let reduced: Vec<(usize, usize)> = DEFAULT_SIZE_SOURCES.iter().flat_map(|s| DEFAULT_SIZE_KINDS.iter().map(move |k| (*s, *k))).map(|(s, k)| (src_idx(s), env.kind_index(k))).collect();
    let sweeps = vec![
        Sweep { name: "main", cfgs: main_cfgs(&ctx), requests: all_requests },
        Sweep { name: "default-table-size", cfgs: default_size_cfgs(), requests: reduced },
    ];

    let unconfirmed = AtomicU64::new(0);
    let requests_sent = AtomicU64::new(0);
    let mut planned = 0u64;
    for sw in &sweeps {
        planned += (sw.cfgs.len() * sw.requests.len() * sw.requests.len()) as u64;
        let mut items: Vec<Item> = Vec::new();
        for ci in 0..sw.cfgs.len() {
            for f in 0..sw.requests.len() {
                items.push(Item { cfg_idx: ci, first: f });
            }
        }
        if !items.is_empty() {
            let r = (ctx.seed as usize) % items.len();
            items.rotate_left(r);
        }
        ctx.par_for_each(&items, |l: &mut Local, it: &Item| {
            sut::init_thread_clocks();
            let c = &sw.cfgs[it.cfg_idx];
            let mut server = env.server(c);
            let mut pr = PairRun { env: &env, buf: vec![0u8; 65535] };
            let first = sw.requests[it.first];
            let mut nreq = 0u64;
            for second in &sw.requests {
                l.tick();
                let (s1, k1) = (srcs[first.0].1, &env.menu[first.1]);
                let (s2, k2) = (srcs[second.0].1, &env.menu[second.1]);
                let rel = relate(c, s1, k1, s2, k2);
                nreq += 2;
                match pr.once(&mut server, c, &rel, (s1, first.1), (s2, second.1)) {
                    Ok(o2) => l.outcome(&format!("{} -> {} [{}]", rel.text, o2.name(), sw.name), || case_json(&env, c, &srcs, first, *second, None)),
                    Err(m) => {
                        // The table and QNAME hashes are keyed randomly per
                        // limiter: a genuine violation reproduces on fresh
                        // limiters, a 2^-32 hash collision does not.
                        let again1 = pr.once(&mut server, c, &rel, (s1, first.1), (s2, second.1));
                        let again2 = pr.once(&mut server, c, &rel, (s1, first.1), (s2, second.1));
                        nreq += 4;
                        match (again1, again2) {
                            (Err(_), Err(_)) => l.violation(&m.key, case_json(&env, c, &srcs, first, *second, Some(&m))),
                            _ => {
                                unconfirmed.fetch_add(1, Ordering::Relaxed);
                                l.outcome("unconfirmed mismatch (did not reproduce on fresh limiters)", || case_json(&env, c, &srcs, first, *second, Some(&m)));
                            }
                        }
                    }
                }
            }
            requests_sent.fetch_add(nreq, Ordering::Relaxed);
        });
    }

    ctx.set_extra("sources", json!(srcs.iter().map(|(l, a)| format!("{l}={a}")).collect::<Vec<_>>()));
    ctx.set_extra("request_kinds", json!(env.menu.iter().map(|k| k.name).collect::<Vec<_>>()));
    ctx.set_extra("requests_in_menu", json!(sweeps[0].requests.len()));
    ctx.set_extra("configurations", json!(sweeps.iter().map(|s| json!({"sweep": s.name, "count": s.cfgs.len(), "requests": s.requests.len()})).collect::<Vec<_>>()));
    ctx.set_extra("pairs_planned", json!(planned));
    ctx.set_extra("requests_handled", json!(requests_sent.load(Ordering::Relaxed)));
    ctx.set_extra("unconfirmed_mismatches", json!(unconfirmed.load(Ordering::Relaxed)));
    ctx.assume("RandomState (bucket index, 32-bit QNAME hash) cannot be seeded: an apparent violation is reported only if it reproduces on two more fresh limiters (residue 2^-32 per pair for a false 'same stream')");
    ctx.assume("the RCODE category and the source of synthesis of every menu entry are hand-written labels, cross-checked at start-up against a server without rate limiting");
    if ctx.evaluations() != planned {
        sut::machinery(&format!("enumerated {} pairs but planned {planned}", ctx.evaluations()));
    }
    let rule = format!(
        "every ordered pair (first, second) of requests from the menu {{{} source addresses straddling every configured prefix length, IPv4-mapped and look-alike IPv6 forms}} x {{{} request kinds: NOERROR same/other QNAME, case variants, wildcard-synthesised, NXDOMAIN, REFUSED/NOTIMP/SERVFAIL/FORMERR/BADVERS/NOTAUTH, TCP, other opcodes, ignored messages}}, under every listed (IPv4 prefix, IPv6 prefix, slip, table size) configuration, rate 1 x window 1, clock frozen (same-stream pairs also with the first response 0.7 s and the second 1.1 s after the limiter was created, and at 2.999999999 s / 3.999999998 s), each pair on a fresh limiter; oracle: the second response is limited (dropped with slip 0, TC-only with slip 1) iff both are UDP QUERY responses from the same prefix of the same family (IPv4-mapped = IPv4) in the same category and, for NOERROR, with the same QNAME/source of synthesis ignoring case; otherwise it is octet-identical to the unlimited response; the first response is never limited",
        srcs.len(),
        env.menu.len()
    );
    ctx.finish("exploration", &rule, true)
}

fn replay(ctx: Ctx, env: &Env, case: Value) -> ! {
    sut::init_thread_clocks();
    let parsed = (|| {
        let c = RrlCfg::from_json(case.get("cfg")?)?;
        let r = |v: &Value| -> Option<(IpAddr, usize)> {
            let src: IpAddr = v.get("source")?.as_str()?.parse().ok()?;
            let kind = v.get("kind")?.as_str()?;
            Some((src, env.kind_index(kind)))
        };
        Some((c, r(case.get("first")?)?, r(case.get("second")?)?))
    })();
    let Some((c, first, second)) = parsed else { sut::machinery("replay file does not hold a C27 case (cfg, first, second)") };
    let rel = relate(&c, first.0, &env.menu[first.1], second.0, &env.menu[second.1]);
    eprintln!(
        "replaying C27 pair: cfg {} first {} {} second {} {}: relation {} => second expected {}",
        c.to_json(), first.0, env.menu[first.1].name, second.0, env.menu[second.1].name, rel.text, rel.expect.name()
    );
    let mut server = env.server(&c);
    let mut pr = PairRun { env, buf: vec![0u8; 65535] };
    let mut l = ctx.local();
    l.tick();
    let mut failures = Vec::new();
    for round in 0..3 {
        match pr.once(&mut server, &c, &rel, first, second) {
            Ok(o) => eprintln!("  round {round}: second response {} (conforms)", o.name()),
            Err(m) => {
                eprintln!("  round {round}: MISMATCH {}", m.detail);
                failures.push(m);
            }
        }
    }
    if failures.len() == 3 {
        eprintln!("replay: VIOLATION reproduced on three fresh limiters");
        let m = &failures[0];
        l.violation(&m.key, json!({"property": "C27", "cfg": c.to_json(), "first": case.get("first"), "second": case.get("second"), "failure": m.detail}));
    } else {
        eprintln!("replay: not reproduced ({} of 3 rounds mismatched)", failures.len());
        l.outcome("replay conforms", || Value::Null);
    }
    drop(l);
    ctx.finish("exploration", "replay of one recorded pair", false)
}
