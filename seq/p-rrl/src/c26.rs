//! C26 — response rate limiting follows its token-bucket rule over time.
//!
//! History exploration: for every configuration (rate, window, slip, response
//! category) and every sequence of operations up to a depth over a small
//! alphabet {one request, a burst that fills the bucket, a request of another
//! stream, advance the clock by g}, the real `Server::handle_message` (with a
//! fresh rate limiter, virtual clock) is driven step by step and every single
//! response is compared with the reference bucket of `model::Table`.
//! No merging of histories: the limiter's counter and refill time are hidden
//! state.

use std::collections::HashSet;
use std::hash::{Hash, Hasher};
use std::net::IpAddr;
use std::sync::Mutex;
use std::time::Duration;

use quandary::server::Server;
use qvlib::enumerate::for_each_seq_exact;
use qvlib::qd::Cat;
use qvlib::{json, Ctx, Local, Value};

use crate::model::{Category, Table, Verdict, NS_PER_S};
use crate::sut::{self, Env, Observed, RrlCfg};

// ------------------------------------------------------------ alphabet

#[derive(Clone, Copy, Debug, PartialEq, Eq, Hash)]
pub enum Op {
    /// One request of the stream under test.
    Req,
    /// A burst of `fill` requests at one instant (fills an empty bucket).
    Fill,
    /// One request of another stream (only with a one-entry table, where it
    /// evicts the stream under test).
    Other,
    /// Advance the clock.
    Adv(Duration),
}

impl Op {
    pub fn text(&self) -> String {
        match self {
            Op::Req => "R".into(),
            Op::Fill => "F".into(),
            Op::Other => "X".into(),
            Op::Adv(d) => format!("A{}.{:09}", d.as_secs(), d.subsec_nanos()),
        }
    }
    pub fn parse(s: &str) -> Option<Op> {
        match s {
            "R" => Some(Op::Req),
            "F" => Some(Op::Fill),
            "X" => Some(Op::Other),
            _ => {
                let rest = s.strip_prefix('A')?;
                let (a, b) = rest.split_once('.')?;
                if b.len() != 9 {
                    return None;
                }
                Some(Op::Adv(Duration::new(a.parse().ok()?, b.parse().ok()?)))
            }
        }
    }
}

fn secs(s: u64) -> Op {
    Op::Adv(Duration::from_secs(s))
}
fn nanos(s: u64, n: u32) -> Op {
    Op::Adv(Duration::new(s, n))
}

// ------------------------------------------------------- configuration

#[derive(Clone, Debug)]
pub struct Cfg {
    pub rrl: RrlCfg,
    /// Request kind (menu entry) of the stream under test and its source.
    pub kind: String,
    pub source: IpAddr,
    /// The evicting stream: same request, source in another network.
    pub other_source: IpAddr,
    /// Requests in a `Fill` burst: the capacity, capped.
    pub fill: u32,
}

const FILL_MAX: u64 = 80;

impl Cfg {
    fn to_json(&self) -> Value {
        json!({"rrl": self.rrl.to_json(), "kind": self.kind, "source": self.source.to_string(),
               "other_source": self.other_source.to_string(), "fill": self.fill})
    }
    fn from_json(v: &Value) -> Option<Cfg> {
        Some(Cfg {
            rrl: RrlCfg::from_json(v.get("rrl")?)?,
            kind: v.get("kind")?.as_str()?.to_string(),
            source: v.get("source")?.as_str()?.parse().ok()?,
            other_source: v.get("other_source")?.as_str()?.parse().ok()?,
            fill: v.get("fill")?.as_u64()? as u32,
        })
    }
}

/// The request kind and source address used for (category, slip): spreads
/// plain / EDNS / TSIG requests, wildcard answers, IPv4 / IPv6 / IPv4-mapped
/// sources over the configurations.
fn dress(cat: Category, slip: usize) -> (&'static str, &'static str) {
    match (cat, slip) {
        (Category::NoError, 0) => ("a-A", "10.0.0.1"),
        (Category::NoError, 1) => ("a-A-tsig", "2001:db8::1"),
        (Category::NoError, _) => ("wild-y-edns", "::ffff:10.0.0.1"),
        (Category::NxDomain, 0) => ("nx1", "::ffff:10.0.0.1"),
        (Category::NxDomain, 1) => ("nx2-edns", "10.0.0.1"),
        (Category::NxDomain, _) => ("nx1-TXT-tsig", "2001:db8::1"),
        (Category::Error, 0) => ("formerr-junk", "2001:db8::1"),
        (Category::Error, 1) => ("badvers", "::ffff:10.0.0.1"),
        (Category::Error, _) => ("notauth-badkey", "10.0.0.1"),
    }
}

fn make_cfg(rate: u32, window: u32, slip: usize, cat: Category, distinct_rates: bool, size: Option<usize>) -> Cfg {
    // The two categories not under test get different rates, so that picking
    // the wrong category's rate is visible.
    let (o1, o2) = if distinct_rates { (rate + 1, rate + 2) } else { (1, 1) };
    let (ne, nx, er) = match cat {
        Category::NoError => (rate, o1, o2),
        Category::NxDomain => (o2, rate, o1),
        Category::Error => (o1, o2, rate),
    };
    let (kind, source) = dress(cat, slip);
    let source: IpAddr = source.parse().unwrap();
    let other_source: IpAddr = if source.is_ipv6() && !source.to_string().starts_with("::ffff:") { "2001:db8:ffff::9" } else { "203.0.113.9" }.parse().unwrap();
    let cap = rate as u64 * window as u64;
    Cfg {
        rrl: RrlCfg { noerror_rate: ne, nxdomain_rate: nx, error_rate: er, window, slip, v4_prefix: None, v6_prefix: None, size },
        kind: kind.to_string(),
        source,
        other_source,
        fill: cap.min(FILL_MAX) as u32,
    }
}

const CATS: [Category; 3] = [Category::NoError, Category::NxDomain, Category::Error];

/// (rate, window) pairs of the main sweep, and of the extreme sweep.
const RW: [(u32, u32); 9] = [(1, 1), (1, 2), (1, 15), (2, 1), (2, 2), (2, 15), (5, 1), (5, 2), (5, 15)];
const RW_EXTREME: [(u32, u32); 3] = [(u32::MAX, 1), (1, u32::MAX), (65536, 65535)];

// ------------------------------------------------------------ families

#[derive(Clone, Debug)]
pub struct Family {
    pub name: &'static str,
    pub alphabet: Vec<Op>,
    pub depth: usize,
    /// Table size: Some(1), or None for quandary's default (65 537 entries).
    pub size: Option<usize>,
}

fn dedup(v: Vec<Op>) -> Vec<Op> {
    let mut out: Vec<Op> = Vec::new();
    for o in v {
        if !out.contains(&o) {
            out.push(o);
        }
    }
    out
}

fn families(ctx: &Ctx, rate: u32, window: u32, extreme: bool) -> Vec<Family> {
    let w = window as u64;
    let cap = rate as u64 * w;
    // Smallest idle time whose refill (rate x seconds) no longer fits 32 bits.
    let wrap = (1u64 << 32).div_ceil(rate as u64);
    let phase = dedup(vec![
        Op::Req,
        Op::Fill,
        nanos(0, 400_000_000),
        nanos(0, 600_000_000),
        nanos(0, 999_999_999),
        secs(1),
        nanos(1, 600_000_000),
        secs(w),
    ]);
    let idle = dedup(vec![
        Op::Req,
        Op::Fill,
        nanos(0, 400_000_000),
        secs(1),
        secs(w),
        secs(w + 1),
        secs(1_000_000),
        nanos(1_000_000_000, 500_000_000),
        secs(wrap - 1),
        secs(wrap),
        secs(1 << 32),
        secs((1 << 32) + 1),
        secs(1 << 40),
    ]);
    // Long idle periods with a sub-second part, followed by requests placed
    // exactly on / one nanosecond off the refill boundaries they imply: the
    // refill phase must be kept to the nanosecond however long the idle time
    // (2 and 3 years, 10^9 s; complementary fractions .3/.7, .999999999/.5).
    let long_phase = dedup(vec![
        Op::Req,
        Op::Fill,
        nanos(94_608_000, 300_000_000),
        nanos(63_072_000, 700_000_000),
        nanos(1_000_000_000, 999_999_999),
        nanos(0, 700_000_000),
        nanos(0, 300_000_000),
        nanos(0, 299_999_999),
        nanos(0, 500_000_000),
        nanos(0, 1),
    ]);
    let evict = dedup(vec![Op::Req, Op::Fill, Op::Other, nanos(0, 400_000_000), secs(1), secs(w)]);
    let dflt = dedup(vec![Op::Req, Op::Fill, secs(1), secs(w), secs(1 << 32)]);
    if extreme {
        // The capacity cannot be reached; what matters is arithmetic.
        return vec![
            Family { name: "idle", alphabet: idle, depth: ctx.pick(3, 4), size: Some(1) },
            Family { name: "phase", alphabet: phase, depth: ctx.pick(3, 4), size: Some(1) },
        ];
    }
    // One more level where a burst is cheap (capacity 1 or 2).
    let small = cap <= 2;
    vec![
        Family { name: "phase", alphabet: phase, depth: if small { ctx.pick(6, 7) } else { ctx.pick(5, 6) }, size: Some(1) },
        Family { name: "idle", alphabet: idle, depth: ctx.pick(4, 5), size: Some(1) },
        Family { name: "long-idle-phase", alphabet: long_phase, depth: ctx.pick(5, 6), size: Some(1) },
        Family { name: "evict", alphabet: evict, depth: ctx.pick(5, 6), size: Some(1) },
        Family { name: "default-size", alphabet: dflt, depth: ctx.pick(3, 4), size: None },
    ]
}

// ------------------------------------------------------- one history

#[derive(Default)]
struct Flags {
    sent: bool,
    slipped: bool,
    dropped: bool,
    partial_refill: bool,
    full_refill: bool,
    evicted: bool,
}

#[derive(Default)]
pub struct Stats {
    pub requests: u64,
    pub transitions: u64,
    pub sent: u64,
    pub slipped: u64,
    pub dropped: u64,
    pub states: HashSet<u64>,
}

pub struct Failure {
    pub key: String,
    pub step: usize,
    pub detail: Value,
}

struct Runner<'e> {
    env: &'e Env,
    buf: Vec<u8>,
}

fn ns_of(d: Duration) -> u128 {
    d.as_secs() as u128 * NS_PER_S + d.subsec_nanos() as u128
}

impl<'e> Runner<'e> {
    /// Runs one history on `server` (whose limiter is replaced by a fresh
    /// one). Returns the outcome class of the history, or the first failure.
    fn run(&mut self, server: &mut Server<Cat>, cfg: &Cfg, cfg_idx: usize, ops: &[Op], stats: &mut Stats, trace: bool) -> Result<String, Failure> {
        let env = self.env;
        let ki = env.kind_index(&cfg.kind);
        let kind = &env.menu[ki];
        let cat = kind.category();
        let rate = cfg.rrl.rate_of(cat);
        // Where the menu has a second spelling of the same stream (the QNAME
        // in another letter case), every other request of the stream under
        // test uses it: the stream, not the spelling, owns the bucket.
        let alt = env.menu.iter().position(|k| k.name.strip_suffix("-upper") == Some(cfg.kind.as_str()));
        let mut req_no = 0usize;
        let mut now = Duration::ZERO;
        sut::set_rrl_clock(now);
        sut::reset_rrl(server, &cfg.rrl);
        let mut model = Table::new(rate, cfg.rrl.window);
        let mut flags = Flags::default();
        for (step, op) in ops.iter().enumerate() {
            let (n, stream, src) = match op {
                Op::Adv(d) => {
                    now += *d;
                    sut::set_rrl_clock(now);
                    stats.transitions += 1;
                    (0, 0, cfg.source)
                }
                Op::Req => (1, 0u32, cfg.source),
                Op::Fill => (cfg.fill, 0u32, cfg.source),
                Op::Other => (1, 1u32, cfg.other_source),
            };
            for i in 0..n {
                let t = ns_of(now);
                // Bookkeeping for the outcome class only.
                let before = model.slot;
                let expected = model.request(stream, t);
                match (before, model.slot) {
                    (Some((s0, b0)), Some((s1, b1))) if s0 == s1 => {
                        if b1.refilled_to != b0.refilled_to {
                            let after_refill = b1.count - (expected == Verdict::Send) as u128;
                            if after_refill == 0 {
                                flags.full_refill = true;
                            } else {
                                flags.partial_refill = true;
                            }
                        }
                    }
                    (Some(_), Some(_)) => flags.evicted = true,
                    _ => {}
                }
                let use_ki = match alt {
                    Some(a) if stream == 0 && req_no % 2 == 1 => a,
                    _ => ki,
                };
                req_no += 1;
                let kind = &env.menu[use_ki];
                let baseline = env.baseline[use_ki].as_deref();
                let got = sut::call(server, &kind.msg, src, kind.tp, &mut self.buf);
                let observed = sut::classify(&kind.msg, baseline, got.map(|n| n.map(|n| &self.buf[..n])));
                stats.requests += 1;
                stats.transitions += 1;
                if trace {
                    eprintln!("  step {step} {} #{i} t={}ns stream={stream}: expected {} observed {}", op.text(), t, expected.name(), observed.detail());
                }
                let ok = match (expected, &observed) {
                    (Verdict::Send, Observed::Sent) => {
                        flags.sent = true;
                        stats.sent += 1;
                        true
                    }
                    (Verdict::Limited, Observed::Slipped) if cfg.rrl.slip != 0 => {
                        flags.slipped = true;
                        stats.slipped += 1;
                        true
                    }
                    (Verdict::Limited, Observed::Dropped) if cfg.rrl.slip != 1 => {
                        flags.dropped = true;
                        stats.dropped += 1;
                        true
                    }
                    _ => false,
                };
                if !ok {
                    let obs_key = match &observed {
                        Observed::Panic(p) => sut::panic_class(p),
                        o => o.name().to_string(),
                    };
                    return Err(Failure {
                        key: format!("expected-{}/observed-{}/slip{}", expected.name(), obs_key, cfg.rrl.slip.min(2)),
                        step,
                        detail: json!({
                            "step": step, "op": op.text(), "burst_index": i, "time_ns": t.to_string(), "stream": stream,
                            "expected": expected.name(), "observed": observed.detail(),
                            "model_before": before.map(|(s, b)| json!({"stream": s, "count": b.count.to_string(), "refilled_to_ns": b.refilled_to.to_string()})),
                        }),
                    });
                }
            }
            let mut h = std::collections::hash_map::DefaultHasher::new();
            (cfg_idx, model.fingerprint(ns_of(now))).hash(&mut h);
            stats.states.insert(h.finish());
        }
        let mut class = format!("{}/slip{}:", cat.name(), cfg.rrl.slip);
        for (f, c) in [
            (flags.sent, "sent "),
            (flags.slipped, "slipped "),
            (flags.dropped, "dropped "),
            (flags.partial_refill, "partial-refill "),
            (flags.full_refill, "full-refill "),
            (flags.evicted, "evicted "),
        ] {
            if f {
                class.push_str(c);
            }
        }
        Ok(class)
    }
}

fn case_json(cfg: &Cfg, ops: &[Op], family: &str, failure: Option<&Failure>) -> Value {
    json!({
        "property": "C26",
        "family": family,
        "cfg": cfg.to_json(),
        "ops": ops.iter().map(|o| o.text()).collect::<Vec<_>>(),
        "failure": failure.map(|f| f.detail.clone()),
    })
}

// -------------------------------------------------------------- driver

struct Item {
    cfg_idx: usize,
    fam_idx: usize,
    prefix: Vec<usize>,
}

pub fn run(ctx: Ctx) -> ! {
    let env = Env::new();
    if let Some(case) = ctx.replay_case().cloned() {
        replay(ctx, &env, case);
    }

    // Configurations and their families.
    let mut cfgs: Vec<(Cfg, Vec<Family>)> = Vec::new();
    for (rate, window) in RW {
        for slip in [0usize, 1, 2] {
            for cat in CATS {
                let fams = families(&ctx, rate, window, false);
                cfgs.push((make_cfg(rate, window, slip, cat, true, Some(1)), fams));
            }
        }
    }
    for (rate, window) in RW_EXTREME {
        for (slip, cat) in [(1usize, Category::NoError), (0, Category::NxDomain), (2, Category::Error)] {
            cfgs.push((make_cfg(rate, window, slip, cat, false, Some(1)), families(&ctx, rate, window, true)));
        }
    }

    let mut items: Vec<Item> = Vec::new();
    let mut planned: u64 = 0;
    for (ci, (_, fams)) in cfgs.iter().enumerate() {
        for (fi, f) in fams.iter().enumerate() {
            let base = f.alphabet.len();
            planned += (base as u64).pow(f.depth as u32);
            let plen = f.depth.min(2);
            for_each_seq_exact(base, plen, |p| {
                items.push(Item { cfg_idx: ci, fam_idx: fi, prefix: p.to_vec() });
                true
            });
        }
    }
    // The seed only rotates the order in which shards are visited.
    if !items.is_empty() {
        let r = (ctx.seed as usize) % items.len();
        items.rotate_left(r);
    }

    let totals = Mutex::new(Stats::default());
    ctx.par_for_each(&items, |l: &mut Local, it: &Item| {
        sut::init_thread_clocks();
        let (cfg0, fams) = &cfgs[it.cfg_idx];
        let fam = &fams[it.fam_idx];
        let mut cfg = cfg0.clone();
        cfg.rrl.size = fam.size;
        let mut server = env.server(&cfg.rrl);
        let mut runner = Runner { env: &env, buf: vec![0u8; 65535] };
        let mut stats = Stats::default();
        let base = fam.alphabet.len();
        let rest = fam.depth - it.prefix.len();
        let mut ops: Vec<Op> = vec![Op::Req; fam.depth];
        for (i, s) in it.prefix.iter().enumerate() {
            ops[i] = fam.alphabet[*s];
        }
        for_each_seq_exact(base, rest, |s| {
            for (i, k) in s.iter().enumerate() {
                ops[it.prefix.len() + i] = fam.alphabet[*k];
            }
            l.tick();
            match runner.run(&mut server, &cfg, it.cfg_idx, &ops, &mut stats, false) {
                Ok(class) => l.outcome(&class, || case_json(&cfg, &ops, fam.name, None)),
                Err(f) => {
                    // Report the shortest failing prefix.
                    let failing = &ops[..=f.step];
                    l.violation(&f.key, case_json(&cfg, failing, fam.name, Some(&f)));
                }
            }
            true
        });
        let mut t = totals.lock().unwrap();
        t.requests += stats.requests;
        t.transitions += stats.transitions;
        t.sent += stats.sent;
        t.slipped += stats.slipped;
        t.dropped += stats.dropped;
        t.states.extend(stats.states);
    });

    let t = totals.into_inner().unwrap();
    ctx.set_extra("configurations", json!(cfgs.len()));
    ctx.set_extra("histories_planned", json!(planned));
    ctx.set_extra("states", json!(t.states.len()));
    ctx.set_extra("transitions", json!(t.transitions));
    ctx.set_extra("traces_validated_against_impl", json!(ctx.evaluations()));
    ctx.set_extra("responses_compared", json!(t.requests));
    ctx.set_extra("responses_sent", json!(t.sent));
    ctx.set_extra("responses_slipped", json!(t.slipped));
    ctx.set_extra("responses_dropped", json!(t.dropped));
    let fam_desc: Vec<Value> = cfgs[0].1.iter().map(|f| json!({"family": f.name, "alphabet": f.alphabet.iter().map(|o| o.text()).collect::<Vec<_>>(), "depth": f.depth, "table_size": f.size})).collect();
    ctx.set_extra("families_for_rate1_window1", json!(fam_desc));
    ctx.assume("the virtual RRL clock hook (verif_hooks::set_rrl_elapsed) is the only clock the limiter reads");
    ctx.assume("slip >= 2 draws from rand::thread_rng, which the harness does not control: either a slip or a drop is accepted for a limited response there");
    ctx.assume("one stream per server (two with a one-entry table), so hash-bucket placement cannot influence the result");
    if ctx.evaluations() != planned && ctx.violation_count() == 0 {
        sut::machinery(&format!("enumerated {} histories but planned {planned}", ctx.evaluations()));
    }
    ctx.finish(
        "model_checking",
        "every operation sequence of exactly the family's depth (thereby every shorter one as a prefix) over the family's alphabet {R = one request, F = burst of min(capacity,80) requests, X = request of another stream, A<g> = advance the virtual clock by g}, for every configuration (rate,window) in {1,2,5}x{1,2,15} x slip {0,1,2} x category {NOERROR,NXDOMAIN,error} plus 9 extreme-rate configurations; each history runs Server::handle_message on a fresh limiter and every response is compared (sent = octet-identical to the unlimited response, slipped = TC and no records but OPT/TSIG, dropped = none) with an independent reference bucket (capacity rate*window, refill rate per whole second, phase kept); evaluations = histories, states = distinct reference-model states visited, transitions = requests + clock advances",
        true,
    )
}

fn replay(ctx: Ctx, env: &Env, case: Value) -> ! {
    sut::init_thread_clocks();
    let parsed = (|| {
        let cfg = Cfg::from_json(case.get("cfg")?)?;
        let ops: Option<Vec<Op>> = case.get("ops")?.as_array()?.iter().map(|o| Op::parse(o.as_str()?)).collect();
        Some((cfg, ops?))
    })();
    let Some((cfg, ops)) = parsed else { sut::machinery("replay file does not hold a C26 case (cfg, ops)") };
    let family = case.get("family").and_then(|f| f.as_str()).unwrap_or("replay").to_string();
    eprintln!("replaying C26 history: cfg {} ops {:?}", cfg.to_json(), ops.iter().map(|o| o.text()).collect::<Vec<_>>());
    let mut server = env.server(&cfg.rrl);
    let mut runner = Runner { env, buf: vec![0u8; 65535] };
    let mut stats = Stats::default();
    let mut l = ctx.local();
    l.tick();
    match runner.run(&mut server, &cfg, 0, &ops, &mut stats, true) {
        Ok(class) => {
            eprintln!("replay: history conforms to the reference bucket ({class})");
            l.outcome(&class, || Value::Null);
        }
        Err(f) => {
            eprintln!("replay: VIOLATION reproduced: {}", f.detail);
            l.violation(&f.key, case_json(&cfg, &ops[..=f.step], &family, Some(&f)));
        }
    }
    drop(l);
    ctx.finish("model_checking", "replay of one recorded history", false)
}
