//! Shared reference model for C10 / C11: an independent reading of RFC 8945
//! (what a TSIG-signed message is, when it verifies, what the digest covers)
//! on top of qvlib's independent wire codec and SHA/HMAC. Nothing in this
//! file calls quandary.

use qvlib::reftsig::{self, Alg, TsigRdata, TsigVars};
use qvlib::wire::{self, c, t, Msg, PtrRule, Rr};

/// One configured TSIG key (name in wire form as configured).
#[derive(Clone, Debug)]
pub struct Key {
    pub name: Vec<u8>,
    pub alg: Alg,
    pub secret: Vec<u8>,
}

/// The algorithm a wire-form algorithm name denotes (names compare
/// ASCII-case-insensitively), if it is one of the two RFC 8945 §6 mandatory
/// algorithms.
pub fn alg_by_name(name: &[u8]) -> Option<Alg> {
    let l = wire::lower(name);
    if l == Alg::Sha1.wire_name() {
        Some(Alg::Sha1)
    } else if l == Alg::Sha256.wire_name() {
        Some(Alg::Sha256)
    } else {
        None
    }
}

/// RFC 8945 §5.2.2.1: a transmitted MAC longer than the hash output, or
/// shorter than the larger of 10 octets and half the hash output, is a format
/// error.
pub fn mac_len_allowed(alg: Alg, n: usize) -> bool {
    let full = alg.mac_len();
    n <= full && n >= std::cmp::max(10, full / 2)
}

/// RFC 8945 §5.2.3: |now - time signed| <= fudge (48-bit times, no wrap).
pub fn time_ok(time_signed: u64, fudge: u16, now: u64) -> bool {
    let lo = time_signed.saturating_sub(fudge as u64);
    let hi = time_signed + fudge as u64;
    now >= lo && now <= hi
}

pub fn time48(t: u64) -> [u8; 6] {
    let b = t.to_be_bytes();
    [b[2], b[3], b[4], b[5], b[6], b[7]]
}

/// What the digest of a message is computed in.
#[derive(Clone, Debug, PartialEq, Eq)]
pub enum Mode {
    Request,
    /// Response to a request whose MAC (as transmitted) is given.
    Response(Vec<u8>),
    /// Subsequent message of a multi-message response; prior MAC given.
    Subsequent(Vec<u8>),
}

impl Mode {
    pub fn name(&self) -> &'static str {
        match self {
            Mode::Request => "request",
            Mode::Response(_) => "response",
            Mode::Subsequent(_) => "subsequent",
        }
    }
}

/// The full-length MAC RFC 8945 §4.3 prescribes for `covered` (the message up
/// to the TSIG RR, as transmitted, ARCOUNT counting the TSIG RR) and the TSIG
/// variables of the TSIG RR (`key_name` = owner of the TSIG RR, `td` = its
/// RDATA).
pub fn reference_mac(mode: &Mode, alg: Alg, secret: &[u8], covered: &[u8], key_name: &[u8], td: &TsigRdata) -> Vec<u8> {
    let vars = TsigVars {
        key_name: key_name.to_vec(),
        alg_name: td.alg_name.clone(),
        time_signed: td.time_signed,
        fudge: td.fudge,
        error: td.error,
        other: td.other.clone(),
    };
    match mode {
        Mode::Request => reftsig::mac_request(alg, secret, covered, td.original_id, &vars),
        Mode::Response(req_mac) => reftsig::mac_response(alg, secret, req_mac, covered, td.original_id, &vars),
        Mode::Subsequent(prior) => reftsig::mac_subsequent(alg, secret, prior, covered, td.original_id, td.time_signed, td.fudge),
    }
}

/// A decoded message whose last additional record is a TSIG RR.
#[derive(Clone, Debug)]
pub struct Signed {
    pub tsig: Rr,
    pub td: TsigRdata,
    /// Offset of the TSIG RR = length of the covered message.
    pub covered_len: usize,
}

/// Decodes `b` under both pointer rules (so that the result does not depend
/// on which reading of "backwards" an implementation uses).
pub fn decode_both(b: &[u8]) -> Result<Msg, String> {
    let m = wire::decode_message(b, PtrRule::BeforeChunkStart, false)?;
    wire::decode_message(b, PtrRule::BeforePointer, false)?;
    Ok(m)
}

pub fn count_type(rrs: &[Rr], typ: u16) -> usize {
    rrs.iter().filter(|r| r.typ == typ).count()
}

/// If the last additional record of `m` is of type TSIG, returns it with its
/// parsed RDATA (None if there is none or the RDATA is malformed).
pub fn last_tsig(m: &Msg) -> Option<Signed> {
    let last = m.additional.last()?;
    if last.typ != t::TSIG {
        return None;
    }
    let td = reftsig::parse_tsig_rdata(&last.rdata)?;
    Some(Signed { tsig: last.clone(), td, covered_len: last.offset })
}

pub fn tsig_class_ttl_ok(rr: &Rr) -> bool {
    rr.class == c::ANY && rr.ttl == 0
}

/// "No answer data": nothing in the answer and authority sections and nothing
/// but OPT / TSIG in the additional section.
pub fn no_answer_data(m: &Msg) -> bool {
    m.answers.is_empty() && m.authority.is_empty() && m.additional_data().is_empty()
}

/// Appends a TSIG RR to `msg` (a complete message whose ARCOUNT does not yet
/// count the TSIG RR). `owner_on_wire` is what is written as the owner (it
/// may end in a compression pointer); `key_name` is the decompressed key
/// name that enters the digest. Returns (message, full MAC, transmitted MAC).
#[allow(clippy::too_many_arguments)]
pub fn append_tsig(
    msg: &[u8],
    mode: &Mode,
    owner_on_wire: &[u8],
    key_name: &[u8],
    alg: Alg,
    alg_on_wire: &[u8],
    secret: &[u8],
    time_signed: u64,
    fudge: u16,
    original_id: u16,
    error: u16,
    other: &[u8],
    mac_len: usize,
    corrupt: Option<(usize, u8)>,
) -> (Vec<u8>, Vec<u8>, Vec<u8>) {
    let mut counted = msg.to_vec();
    let ar = u16::from_be_bytes([counted[10], counted[11]]).wrapping_add(1);
    counted[10..12].copy_from_slice(&ar.to_be_bytes());
    let td = TsigRdata { alg_name: alg_on_wire.to_vec(), time_signed, fudge, mac: vec![], original_id, error, other: other.to_vec() };
    let full = reference_mac(mode, alg, secret, &counted, key_name, &td);
    let mut sent: Vec<u8> = full.iter().copied().take(mac_len).collect();
    // Lengths beyond the hash output: pad with a fixed octet.
    while sent.len() < mac_len {
        sent.push(0xa5);
    }
    if let Some((i, mask)) = corrupt {
        if !sent.is_empty() {
            let i = i.min(sent.len() - 1);
            sent[i] ^= mask;
        }
    }
    let rd = reftsig::tsig_rdata(alg_on_wire, time_signed, fudge, &sent, original_id, error, other);
    let mut out = counted;
    out.extend_from_slice(owner_on_wire);
    out.extend_from_slice(&t::TSIG.to_be_bytes());
    out.extend_from_slice(&c::ANY.to_be_bytes());
    out.extend_from_slice(&0u32.to_be_bytes());
    out.extend_from_slice(&(rd.len() as u16).to_be_bytes());
    out.extend_from_slice(&rd);
    (out, full, sent)
}

/// Outcome of RFC 8945 §5.2 verification of a message that carries a TSIG RR
/// as its last record, in the RFC's order of checks.
#[derive(Clone, Copy, Debug, PartialEq, Eq)]
pub enum Verdict {
    /// §5.2.2.1 MAC length outside the allowed range.
    FormErr,
    /// §5.2.2 MAC does not match.
    BadSig,
    /// §5.2.3 time outside the fudge window.
    BadTime,
    Ok,
}

/// Verifies `s` (decoded from `bytes`) with `alg`/`secret` at time `now`.
pub fn verify(bytes: &[u8], s: &Signed, mode: &Mode, alg: Alg, secret: &[u8], now: u64) -> Verdict {
    if !mac_len_allowed(alg, s.td.mac.len()) {
        return Verdict::FormErr;
    }
    let full = reference_mac(mode, alg, secret, &bytes[..s.covered_len], &s.tsig.name, &s.td);
    if full[..s.td.mac.len()] != s.td.mac[..] {
        return Verdict::BadSig;
    }
    if !time_ok(s.td.time_signed, s.td.fudge, now) {
        return Verdict::BadTime;
    }
    Verdict::Ok
}

/// 255-octet name: three 63-octet labels of `a` and one 61-octet label of `b`.
pub fn long_name(a: u8, b: u8) -> Vec<u8> {
    let l63 = vec![a; 63];
    let n = wire::wname_from_labels(&[&l63[..], &l63[..], &l63[..], &vec![b; 61][..]]);
    assert_eq!(n.len(), 255);
    n
}

/// Self-test of the reference model against the one externally generated
/// vector available: the BIND 9 AXFR request / response / subsequent triple
/// from RFC-conforming software (dig + named), key "topsecret", also used by
/// quandary's own unit tests. Panics on mismatch.
pub fn self_test() {
    reftsig::self_test();
    const REQ: &[u8] = b"\x7a\xae\x00\x00\x00\x01\x00\x00\x00\x00\x00\x01\x08\x71\x75\x61\
\x6e\x64\x61\x72\x79\x04\x74\x65\x73\x74\x00\x00\xfc\x00\x01\x01\
\x61\x04\x74\x73\x69\x67\x03\x6b\x65\x79\x00\x00\xfa\x00\xff\x00\
\x00\x00\x00\x00\x3d\x0b\x68\x6d\x61\x63\x2d\x73\x68\x61\x32\x35\
\x36\x00\x00\x00\x63\x85\x22\x50\x01\x2c\x00\x20\x63\xe1\x08\x04\
\x14\x8f\x1c\x1c\x3d\x69\x98\x56\xa1\x89\x70\x28\x02\xbd\xe7\xea\
\x48\x2c\x0a\x7d\x04\xc7\x99\x4c\xeb\x2b\x60\xa5\x7a\xae\x00\x00\
\x00\x00";
    const RESP: &[u8] = b"\x7a\xae\x84\x00\x00\x01\x00\x01\x00\x00\x00\x01\x08\x71\x75\x61\
\x6e\x64\x61\x72\x79\x04\x74\x65\x73\x74\x00\x00\xfc\x00\x01\xc0\
\x0c\x00\x06\x00\x01\x00\x00\x0e\x10\x00\x21\x02\x6e\x73\xc0\x0c\
\x05\x61\x64\x6d\x69\x6e\xc0\x0c\x00\x00\x00\x01\x00\x00\x0e\x10\
\x00\x00\x03\x84\x00\x01\x51\x80\x00\x00\x0e\x10\x01\x61\x04\x74\
\x73\x69\x67\x03\x6b\x65\x79\x00\x00\xfa\x00\xff\x00\x00\x00\x00\
\x00\x3d\x0b\x68\x6d\x61\x63\x2d\x73\x68\x61\x32\x35\x36\x00\x00\
\x00\x63\x85\x22\x50\x01\x2c\x00\x20\x81\xf5\xda\x70\x0a\x1f\x28\
\xbf\xe9\xb3\x3c\xe5\x61\x20\xc5\x36\xa7\x8e\xdc\x4d\xea\x5e\x5e\
\x85\xdd\xf7\xb8\x93\xce\xfc\xab\xfd\x7a\xae\x00\x00\x00\x00";
    const SUBS: &[u8] = b"\x7a\xae\x84\x00\x00\x00\x00\x01\x00\x00\x00\x01\x08\x71\x75\x61\
\x6e\x64\x61\x72\x79\x04\x74\x65\x73\x74\x00\x00\x02\x00\x01\x00\
\x00\x0e\x10\x00\x05\x02\x6e\x73\xc0\x0c\x01\x61\x04\x74\x73\x69\
\x67\x03\x6b\x65\x79\x00\x00\xfa\x00\xff\x00\x00\x00\x00\x00\x3d\
\x0b\x68\x6d\x61\x63\x2d\x73\x68\x61\x32\x35\x36\x00\x00\x00\x63\
\x85\x22\x50\x01\x2c\x00\x20\xb7\x06\x58\x44\xa8\x37\xfb\x75\xcd\
\xe5\x5a\x72\xa6\x84\x6f\xec\x3c\xd7\x49\x43\xd4\x99\x6c\x58\x96\
\x59\xe1\x20\x2d\xda\x30\xdc\x7a\xae\x00\x00\x00\x00";
    let key = b"topsecret";
    let now = 1669669456u64;
    let dec = |b: &[u8]| last_tsig(&decode_both(b).expect("BIND vector decodes")).expect("BIND vector has TSIG");
    let rq = dec(REQ);
    assert_eq!(verify(REQ, &rq, &Mode::Request, Alg::Sha256, key, now), Verdict::Ok, "BIND request vector");
    let rs = dec(RESP);
    assert_eq!(verify(RESP, &rs, &Mode::Response(rq.td.mac.clone()), Alg::Sha256, key, now), Verdict::Ok, "BIND response vector");
    // The third message has no question: qvlib's decoder accepts QDCOUNT 0.
    let sb = dec(SUBS);
    assert_eq!(verify(SUBS, &sb, &Mode::Subsequent(rs.td.mac.clone()), Alg::Sha256, key, now), Verdict::Ok, "BIND subsequent vector");
    assert_eq!(verify(REQ, &rq, &Mode::Request, Alg::Sha256, key, now + 301), Verdict::BadTime);
    assert_eq!(verify(REQ, &rq, &Mode::Request, Alg::Sha256, b"topsecreu", now), Verdict::BadSig);
    assert!(mac_len_allowed(Alg::Sha1, 10) && !mac_len_allowed(Alg::Sha1, 9) && mac_len_allowed(Alg::Sha1, 20) && !mac_len_allowed(Alg::Sha1, 21));
    assert!(mac_len_allowed(Alg::Sha256, 16) && !mac_len_allowed(Alg::Sha256, 15) && mac_len_allowed(Alg::Sha256, 32) && !mac_len_allowed(Alg::Sha256, 33));
}
