//! C10 — TSIG-signed requests are authenticated before being answered.
//!
//! Every case is (key set, request octets, server time, transport). The
//! request is built and signed by the harness's own RFC 8945 signer; the real
//! `Server::handle_message` answers it under a virtual clock; the oracle
//! re-derives what RFC 8945 §5.2/§5.3 and the property statement demand *from
//! the request octets alone* (independent decoder, independent HMAC) and
//! checks the response, including an independent verification of the
//! response MAC.

use std::collections::HashMap;
use std::sync::Arc;

use quandary::server::{Server, TsigKeyMap};

use qvlib::fixtures;
use qvlib::qd::{self, Cat, Tp};
use qvlib::reftsig::Alg;
use qvlib::wire::{self, c, rc, t, Msg, MsgBuilder};
use qvlib::{hex, json, panic_key, unhex, Ctx, Local, Value};

use crate::refmodel::{self as rm, Key, Mode, Signed, Verdict};

pub const NOW0: u64 = 1_700_000_000;
const T48_MAX: u64 = (1 << 48) - 1;
const SERVER_EDNS: u16 = 1232;

// ------------------------------------------------------------------ world

pub struct Question {
    pub label: &'static str,
    pub qname: Vec<u8>,
    pub qtype: u16,
    pub opcode: u8,
    /// Independent expectation of the *normal* answer: RCODE and the
    /// canonical answer-section records (from the fixture zone's record list).
    pub rcode: u8,
    pub answers: Vec<(Vec<u8>, u16, u16, u32, Vec<u8>)>,
}

pub struct World {
    pub keysets: Vec<Vec<Key>>,
    pub servers: Vec<Server<Cat>>,
    pub questions: Vec<Question>,
}

fn zone_rrs(owner: &str, typ: u16) -> Vec<(Vec<u8>, u16, u16, u32, Vec<u8>)> {
    let o = wire::wname(owner);
    let mut v: Vec<_> = fixtures::std_zone_recs()
        .into_iter()
        .filter(|r| wire::eq_ci(&r.owner, &o) && r.typ == typ)
        .map(|r| (wire::lower(&r.owner), r.typ, r.class, r.ttl, wire::canon_rdata(r.class, r.typ, &r.rdata)))
        .collect();
    v.sort();
    v
}

pub fn key1_name() -> Vec<u8> {
    wire::wname("k1.")
}
pub fn key2_name() -> Vec<u8> {
    wire::wname("key2.t.")
}
pub fn long_key_name() -> Vec<u8> {
    rm::long_name(b'x', b'k')
}

fn secret(n: usize, seed: u8) -> Vec<u8> {
    (0..n).map(|i| (i as u8).wrapping_mul(37).wrapping_add(seed)).collect()
}

impl World {
    pub fn new() -> World {
        // Key sets: none; one SHA-256 key; SHA-1 + SHA-256 (secret longer than
        // the HMAC block) + a 255-octet key name + a key whose name differs
        // from k1. only in its last label.
        let keysets = vec![
            vec![],
            vec![Key { name: key1_name(), alg: Alg::Sha256, secret: secret(32, 1) }],
            vec![
                Key { name: key1_name(), alg: Alg::Sha1, secret: secret(20, 2) },
                // configured with capital letters: key names are domain names
                // and match whatever the case of either side
                Key { name: wire::wname("Key2.T."), alg: Alg::Sha256, secret: secret(65, 3) },
                Key { name: long_key_name(), alg: Alg::Sha256, secret: secret(1, 4) },
                Key { name: wire::wname("k1.t."), alg: Alg::Sha256, secret: secret(64, 5) },
            ],
        ];
        let servers = keysets
            .iter()
            .map(|ks| {
                let mut s = Server::new(Arc::new(qd::catalog_of(vec![fixtures::std_zone()])));
                s.set_edns_udp_payload_size(SERVER_EDNS).unwrap();
                let mut m: TsigKeyMap = HashMap::new();
                for k in ks {
                    m.insert(qd::qname(&k.name), (fixtures::alg_of(k.alg), k.secret.clone().into_boxed_slice()));
                }
                s.set_tsig_keys(Arc::new(m));
                s
            })
            .collect();
        let mut chain = zone_rrs("c2.t.", t::CNAME);
        chain.extend(zone_rrs("c.t.", t::CNAME));
        chain.extend(zone_rrs("a.t.", t::A));
        chain.sort();
        let q = |label, qname: Vec<u8>, qtype, opcode, rcode, answers| Question { label, qname, qtype, opcode, rcode, answers };
        let questions = vec![
            q("a.t/A", wire::wname("a.t."), t::A, 0, rc::NOERROR, zone_rrs("a.t.", t::A)),
            q("nope.t/A", wire::wname("nope.t."), t::A, 0, rc::NXDOMAIN, vec![]),
            q("big.t/TXT", wire::wname("big.t."), t::TXT, 0, rc::NOERROR, zone_rrs("big.t.", t::TXT)),
            q("long255/A", rm::long_name(b'x', b'y'), t::A, 0, rc::REFUSED, vec![]),
            q("other.example/A", wire::wname("other.example."), t::A, 0, rc::REFUSED, vec![]),
            q("notify:t/SOA", wire::wname("t."), t::SOA, 4, rc::NOTIMP, vec![]),
            q("c2.t/A", wire::wname("c2.t."), t::A, 0, rc::NOERROR, chain),
        ];
        assert_eq!(questions[0].answers.len(), 2);
        assert_eq!(questions[2].answers.len(), 8);
        assert_eq!(questions[6].answers.len(), 4);
        World { keysets, servers, questions }
    }

    fn normal(&self, m: &Msg) -> Option<&Question> {
        let q = m.questions.first()?;
        self.questions.iter().find(|x| x.qname == q.qname && x.qtype == q.qtype && q.qclass == c::IN && x.opcode == m.header.opcode)
    }
}

// ----------------------------------------------------------------- oracle

#[derive(Clone, Copy, Debug, PartialEq, Eq)]
pub enum Expect {
    /// Not a request C10 speaks about (C01/C02/C08 territory): only
    /// totality is required here.
    OutOfScope(&'static str),
    /// TSIG RR misplaced, repeated, or with CLASS != ANY / TTL != 0.
    FormErrStructure,
    BadKey,
    /// Unknown key *and* MAC length outside the allowed range: the statement
    /// prescribes both BADKEY and FORMERR; either is accepted.
    BadKeyOrFormErr,
    FormErrMac,
    BadSig,
    BadTime,
    Answered,
}

impl Expect {
    pub fn name(&self) -> String {
        match self {
            Expect::OutOfScope(r) => format!("out-of-scope({r})"),
            Expect::FormErrStructure => "FORMERR-structure".into(),
            Expect::BadKey => "BADKEY".into(),
            Expect::BadKeyOrFormErr => "BADKEY|FORMERR".into(),
            Expect::FormErrMac => "FORMERR-maclen".into(),
            Expect::BadSig => "BADSIG".into(),
            Expect::BadTime => "BADTIME".into(),
            Expect::Answered => "answered".into(),
        }
    }
}

pub struct Classified {
    pub expect: Expect,
    pub msg: Option<Msg>,
    pub signed: Option<Signed>,
    pub key: Option<Key>,
}

/// What RFC 8945 §5.2 and the statement demand for `req`, from its octets.
pub fn classify(req: &[u8], keys: &[Key], now: u64) -> Classified {
    let oos = |r, msg| Classified { expect: Expect::OutOfScope(r), msg, signed: None, key: None };
    let m = match rm::decode_both(req) {
        Ok(m) => m,
        Err(_) => return oos("undecodable", None),
    };
    if m.header.qr {
        return oos("qr=1", Some(m));
    }
    if m.header.qdcount > 1 {
        return oos("qdcount>1", Some(m));
    }
    let tsig_early = rm::count_type(&m.answers, t::TSIG) + rm::count_type(&m.authority, t::TSIG);
    let opt_early = rm::count_type(&m.answers, t::OPT) + rm::count_type(&m.authority, t::OPT);
    let n_tsig = rm::count_type(&m.additional, t::TSIG);
    let n_opt = rm::count_type(&m.additional, t::OPT);
    if tsig_early + n_tsig == 0 {
        return oos("unsigned", Some(m));
    }
    if opt_early > 0 || n_opt > 1 {
        return oos("opt-structure", Some(m));
    }
    if let Some(o) = m.opt() {
        if o.name != [0u8] || (o.ttl >> 16) & 0xff != 0 {
            return oos("opt-invalid", Some(m));
        }
    }
    let structure = |m| Classified { expect: Expect::FormErrStructure, msg: Some(m), signed: None, key: None };
    if tsig_early > 0 || n_tsig > 1 || m.additional.last().map(|r| r.typ) != Some(t::TSIG) {
        return structure(m);
    }
    let last = m.additional.last().unwrap().clone();
    if !rm::tsig_class_ttl_ok(&last) {
        return structure(m);
    }
    if m.pointers.iter().any(|p| p.typ == t::TSIG && p.place != wire::PtrPlace::Owner) {
        return oos("tsig-rdata-compressed", Some(m));
    }
    let signed = match rm::last_tsig(&m) {
        Some(s) => s,
        None => return oos("tsig-rdata", Some(m)),
    };
    let done = |expect, key: Option<&Key>| Classified { expect, msg: Some(m.clone()), signed: Some(signed.clone()), key: key.cloned() };
    let alg = match rm::alg_by_name(&signed.td.alg_name) {
        Some(a) => a,
        None => return done(Expect::BadKey, None),
    };
    let len_ok = rm::mac_len_allowed(alg, signed.td.mac.len());
    let key = keys.iter().find(|k| wire::eq_ci(&k.name, &last.name) && k.alg == alg);
    let key = match key {
        Some(k) => k,
        None => return done(if len_ok { Expect::BadKey } else { Expect::BadKeyOrFormErr }, None),
    };
    let e = match rm::verify(req, &signed, &Mode::Request, alg, &key.secret, now) {
        Verdict::FormErr => Expect::FormErrMac,
        Verdict::BadSig => Expect::BadSig,
        Verdict::BadTime => Expect::BadTime,
        Verdict::Ok => Expect::Answered,
    };
    done(e, Some(key))
}

struct RespView {
    msg: Msg,
    tsig: Option<Signed>,
}

fn decode_response(resp: &[u8]) -> Result<RespView, String> {
    let msg = wire::decode_message(resp, wire::PtrRule::BeforePointer, true).map_err(|e| format!("response does not decode: {e}"))?;
    let n = rm::count_type(&msg.answers, t::TSIG) + rm::count_type(&msg.authority, t::TSIG) + rm::count_type(&msg.additional, t::TSIG);
    if n == 0 {
        return Ok(RespView { msg, tsig: None });
    }
    if n > 1 || msg.additional.last().map(|r| r.typ) != Some(t::TSIG) {
        return Err("response TSIG RR is not the single last record".into());
    }
    let s = rm::last_tsig(&msg).ok_or("response TSIG RDATA malformed")?;
    if !rm::tsig_class_ttl_ok(&s.tsig) {
        return Err("response TSIG RR has CLASS != ANY or TTL != 0".into());
    }
    Ok(RespView { msg, tsig: Some(s) })
}

/// Whether question + OPT + a TSIG RR with the given MAC / other-data sizes
/// fit into the response size limit (DESIGN.md §7a: "carries a TSIG" is
/// required only when it physically can).
fn tsig_fits(req: &Msg, s: &Signed, tp: Tp, mac: usize, other: usize) -> bool {
    let limit = match tp {
        Tp::Tcp => 65535usize,
        Tp::Udp => match req.opt() {
            Some(o) => (o.class as usize).clamp(512, SERVER_EDNS as usize),
            None => 512,
        },
    };
    let q: usize = req.questions.iter().map(|q| q.qname.len() + 4).sum();
    let opt = if req.opt().is_some() { 11 } else { 0 };
    let tsig = s.tsig.name.len() + 10 + s.td.alg_name.len() + 16 + mac + other;
    12 + q + opt + tsig <= limit
}

type Chk = Result<String, (String, String)>;

fn fail<T>(key: &str, why: impl Into<String>) -> Result<T, (String, String)> {
    Err((key.to_string(), why.into()))
}

/// Checks an error response that must carry an unsigned TSIG RR.
fn chk_unsigned(tag: &str, r: &RespView, req: &Msg, s: &Signed, tp: Tp, rcode: u8, err: u16) -> Chk {
    if r.msg.header.rcode != rcode {
        return fail(&format!("{tag}:rcode"), format!("RCODE {} instead of {rcode}", r.msg.header.rcode));
    }
    if !rm::no_answer_data(&r.msg) {
        return fail(&format!("{tag}:answer-data"), "answer data returned for an unauthenticated request");
    }
    match &r.tsig {
        None => {
            if tsig_fits(req, s, tp, 0, 0) {
                return fail(&format!("{tag}:tsig-missing"), "response carries no TSIG RR although it fits");
            }
            if !r.msg.header.tc {
                return fail(&format!("{tag}:nofit-no-tc"), "TSIG RR does not fit and TC is not set");
            }
            Ok(format!("{tag}|nofit:tc,no-tsig"))
        }
        Some(t) => {
            names_match(tag, t, s)?;
            if t.td.error != err {
                return fail(&format!("{tag}:tsig-error"), format!("TSIG error {} instead of {err}", t.td.error));
            }
            if !t.td.mac.is_empty() {
                return fail(&format!("{tag}:mac-not-empty"), format!("{}-octet MAC in a response that must be unsigned", t.td.mac.len()));
            }
            Ok(format!("{tag}|rcode={rcode},tsig-error={err},mac=empty"))
        }
    }
}

fn names_match(tag: &str, t: &Signed, s: &Signed) -> Result<(), (String, String)> {
    if !wire::eq_ci(&t.tsig.name, &s.tsig.name) {
        return fail(&format!("{tag}:key-name"), "response TSIG key name differs from the request's");
    }
    if !wire::eq_ci(&t.td.alg_name, &s.td.alg_name) {
        return fail(&format!("{tag}:alg-name"), "response TSIG algorithm name differs from the request's");
    }
    Ok(())
}

/// Independent verification of a signed response (RFC 8945 §4.3.1: request
/// MAC as transmitted, then the response with original ID and ARCOUNT-1,
/// then the response's TSIG variables).
fn chk_signed(tag: &str, resp: &[u8], t: &Signed, s: &Signed, key: &Key, now: u64) -> Result<(), (String, String)> {
    names_match(tag, t, s)?;
    let mode = Mode::Response(s.td.mac.clone());
    match rm::verify(resp, t, &mode, key.alg, &key.secret, now) {
        Verdict::Ok => Ok(()),
        Verdict::FormErr => fail(&format!("{tag}:resp-mac-length"), format!("response MAC of {} octets", t.td.mac.len())),
        Verdict::BadSig => fail(&format!("{tag}:resp-mac-mismatch"), "response MAC differs from the independent RFC 8945 computation"),
        Verdict::BadTime => fail(&format!("{tag}:resp-time"), format!("response time signed {} fudge {} does not cover server time {now}", t.td.time_signed, t.td.fudge)),
    }
}

fn sub_multiset<T: Ord + Clone>(small: &[T], big: &[T]) -> bool {
    let mut b = big.to_vec();
    for x in small {
        match b.iter().position(|y| y == x) {
            Some(i) => {
                b.swap_remove(i);
            }
            None => return false,
        }
    }
    true
}

fn check_expect(w: &World, cl: &Classified, resp: &[u8], now: u64, tp: Tp) -> Chk {
    let r = match decode_response(resp) {
        Ok(r) => r,
        Err(e) => return fail("response-malformed", e),
    };
    if !r.msg.header.qr {
        return fail("response-qr", "QR clear in response");
    }
    let req = cl.msg.as_ref().unwrap();
    // "Answered normally" / "gives NOTAUTH ...": every response is a response
    // to the message as received, i.e. under the ID of its header - which a
    // forwarder may have rewritten, so it need not be the TSIG original ID.
    if r.msg.header.id != req.header.id {
        return fail("response-id", format!("response ID {:#06x}, request header ID {:#06x} (TSIG original ID may differ)", r.msg.header.id, req.header.id));
    }
    match cl.expect {
        Expect::OutOfScope(_) => unreachable!(),
        Expect::FormErrStructure => {
            if r.msg.header.rcode != rc::FORMERR {
                return fail("structure:rcode", format!("RCODE {} instead of FORMERR", r.msg.header.rcode));
            }
            if !rm::no_answer_data(&r.msg) {
                return fail("structure:answer-data", "answer data returned");
            }
            Ok("FORMERR-structure|rcode=1".into())
        }
        Expect::FormErrMac => chk_formerr_mac(&r),
        Expect::BadKey => chk_unsigned("BADKEY", &r, req, cl.signed.as_ref().unwrap(), tp, rc::NOTAUTH, 17),
        Expect::BadSig => chk_unsigned("BADSIG", &r, req, cl.signed.as_ref().unwrap(), tp, rc::NOTAUTH, 16),
        Expect::BadKeyOrFormErr => match chk_unsigned("BADKEY", &r, req, cl.signed.as_ref().unwrap(), tp, rc::NOTAUTH, 17) {
            Ok(c) => Ok(format!("either:{c}")),
            Err(e1) => match chk_formerr_mac(&r) {
                Ok(c) => Ok(format!("either:{c}")),
                Err(_) => Err((format!("either:{}", e1.0), e1.1)),
            },
        },
        Expect::BadTime => {
            let s = cl.signed.as_ref().unwrap();
            let key = cl.key.as_ref().unwrap();
            if r.msg.header.rcode != rc::NOTAUTH {
                return fail("BADTIME:rcode", format!("RCODE {} instead of NOTAUTH", r.msg.header.rcode));
            }
            if !rm::no_answer_data(&r.msg) {
                return fail("BADTIME:answer-data", "answer data returned for a request outside the time window");
            }
            let t = match &r.tsig {
                Some(t) => t,
                None => {
                    if tsig_fits(req, s, tp, key.alg.mac_len(), 6) {
                        return fail("BADTIME:tsig-missing", "no TSIG RR although it fits");
                    }
                    if !r.msg.header.tc {
                        return fail("BADTIME:nofit-no-tc", "TSIG RR does not fit and TC is not set");
                    }
                    return Ok("BADTIME|nofit:tc,no-tsig".into());
                }
            };
            if t.td.error != 18 {
                return fail("BADTIME:tsig-error", format!("TSIG error {} instead of 18", t.td.error));
            }
            if t.td.other != rm::time48(now) {
                return fail("BADTIME:other-data", format!("other data {} is not the 48-bit server time {now}", hex(&t.td.other)));
            }
            if t.td.time_signed != s.td.time_signed {
                return fail("BADTIME:time-signed", "time signed is not the request's (RFC 8945 §5.2.3)");
            }
            // The client cannot apply its own time check to a BADTIME
            // response (time signed is its own stale value): verify the MAC at
            // the response's time signed.
            chk_signed("BADTIME", resp, t, s, key, t.td.time_signed)?;
            Ok(format!("BADTIME|rcode=9,signed={},{}", t.td.mac.len(), key.alg.text()))
        }
        Expect::Answered => {
            let s = cl.signed.as_ref().unwrap();
            let key = cl.key.as_ref().unwrap();
            let t = match &r.tsig {
                Some(t) => t,
                None => {
                    if tsig_fits(req, s, tp, key.alg.mac_len(), 0) {
                        return fail("answered:tsig-missing", "no TSIG RR in the response to an authenticated request although it fits");
                    }
                    if !r.msg.header.tc || !rm::no_answer_data(&r.msg) {
                        return fail("answered:nofit", "TSIG RR does not fit: expected TC and no answer data");
                    }
                    return Ok("answered|nofit:tc,no-tsig".into());
                }
            };
            if t.td.error != 0 {
                return fail("answered:tsig-error", format!("TSIG error {} in the response to a valid request", t.td.error));
            }
            if !t.td.other.is_empty() {
                return fail("answered:other-data", "other data in a NOERROR TSIG");
            }
            chk_signed("answered", resp, t, s, key, now)?;
            let mut detail = String::from("rcode=?");
            if let Some(q) = w.normal(req) {
                if r.msg.header.rcode != q.rcode {
                    return fail("answered:rcode", format!("RCODE {} instead of the normal answer's {}", r.msg.header.rcode, q.rcode));
                }
                let got: Vec<_> = wire::sorted(r.msg.answers.iter().map(wire::canon_rr).collect());
                let ok = if r.msg.header.tc { sub_multiset(&got, &q.answers) } else { got == q.answers };
                if !ok {
                    return fail("answered:answers", format!("answer section differs from the normal answer ({} records, expected {})", got.len(), q.answers.len()));
                }
                detail = format!("rcode={},an={}", q.rcode, got.len());
            }
            Ok(format!("answered|{detail},tc={},signed={},{}", r.msg.header.tc as u8, t.td.mac.len(), key.alg.text()))
        }
    }
}

fn chk_formerr_mac(r: &RespView) -> Chk {
    if r.msg.header.rcode != rc::FORMERR {
        return fail("maclen:rcode", format!("RCODE {} instead of FORMERR", r.msg.header.rcode));
    }
    if !rm::no_answer_data(&r.msg) {
        return fail("maclen:answer-data", "answer data returned");
    }
    Ok(format!("FORMERR-maclen|rcode=1,tsig={}", match &r.tsig {
        None => "none".to_string(),
        Some(t) => format!("error{},mac{}", t.td.error, t.td.mac.len()),
    }))
}

pub struct Outcome {
    pub class: String,
    pub expect: Expect,
    pub violation: Option<(String, String)>,
    pub response: Option<Vec<u8>>,
}

/// Runs one case on the real server and judges it.
pub fn check_one(w: &World, ks: usize, req: &[u8], now: u64, tp: Tp) -> Outcome {
    let cl = classify(req, &w.keysets[ks], now);
    quandary::server::verif_hooks::set_tsig_unix_time(Some(now));
    let got = qd::handle(&w.servers[ks], req, qd::localhost(), tp);
    let (response, res): (Option<Vec<u8>>, Chk) = match got {
        Err(p) => (None, Err((panic_key(&p), p))),
        Ok(resp) => {
            let res = match (&cl.expect, &resp) {
                (Expect::OutOfScope(r), _) => Ok(format!("out-of-scope({r})|{}", if resp.is_some() { "response" } else { "silent" })),
                (_, None) => fail("no-response", "no response to a request that must be answered"),
                (_, Some(b)) => check_expect(w, &cl, b, now, tp),
            };
            (resp, res)
        }
    };
    match res {
        Ok(class) => Outcome { class, expect: cl.expect, violation: None, response },
        Err((k, why)) => Outcome { class: format!("VIOLATION:{k}"), expect: cl.expect, violation: Some((k, why)), response },
    }
}

// -------------------------------------------------------------- generator

#[derive(Clone, Debug)]
pub struct Spec {
    pub q: usize,
    pub id: u16,
    pub orig_id: u16,
    pub edns: Option<u16>,
    /// An ordinary additional record before the TSIG RR (covered by the MAC).
    pub extra: bool,
    /// Further ordinary additional records before the TSIG RR (ARCOUNT, TSIG
    /// RR included, reaches and passes 256: the digest covers ARCOUNT - 1).
    pub extra_n: usize,
    /// Key name as decompressed; `compress` writes its last label `t` as a
    /// pointer into the QNAME.
    pub key_name: Vec<u8>,
    pub compress: bool,
    pub alg_on_wire: Vec<u8>,
    pub sign_alg: Alg,
    pub secret: Vec<u8>,
    pub time_signed: u64,
    pub fudge: u16,
    pub mac_len: usize,
    pub corrupt: Option<(usize, u8)>,
}

pub fn base_message(w: &World, s: &Spec) -> Vec<u8> {
    let q = &w.questions[s.q];
    let mut b = MsgBuilder::new(s.id, (q.opcode as u16) << 11).question(&q.qname, q.qtype, c::IN);
    if let Some(p) = s.edns {
        b = b.opt(p, 0, 0, 0, &[]);
    }
    if s.extra {
        b = b.rr(3, &wire::wname("x."), t::A, c::IN, 1, &[192, 0, 2, 99]);
    }
    for i in 0..s.extra_n {
        b = b.rr(3, &wire::wname("x."), t::A, c::IN, 1, &[198, 51, (i >> 8) as u8, i as u8]);
    }
    b.build()
}

pub fn build_request(w: &World, s: &Spec) -> Vec<u8> {
    let msg = base_message(w, s);
    let qn = &w.questions[s.q].qname;
    let owner = if s.compress && qn.ends_with(&[1, b't', 0]) && s.key_name.ends_with(&[1, b't', 0]) {
        let mut o = s.key_name[..s.key_name.len() - 3].to_vec();
        o.extend_from_slice(&wire::ptr(12 + qn.len() - 3));
        o
    } else {
        s.key_name.clone()
    };
    rm::append_tsig(&msg, &Mode::Request, &owner, &s.key_name, s.sign_alg, &s.alg_on_wire, &s.secret, s.time_signed, s.fudge, s.orig_id, 0, &[], s.mac_len, s.corrupt).0
}

/// What the generator *meant* the case to be, from its parameters (a second,
/// differently structured derivation that cross-checks `classify`).
fn intent(keys: &[Key], s: &Spec, now: u64) -> Expect {
    let alg = match rm::alg_by_name(&s.alg_on_wire) {
        Some(a) => a,
        None => return Expect::BadKey,
    };
    let len_ok = rm::mac_len_allowed(alg, s.mac_len);
    let key = keys.iter().find(|k| wire::eq_ci(&k.name, &s.key_name) && k.alg == alg);
    let key = match key {
        None => return if len_ok { Expect::BadKey } else { Expect::BadKeyOrFormErr },
        Some(k) => k,
    };
    if !len_ok {
        return Expect::FormErrMac;
    }
    if key.secret != s.secret || s.corrupt.is_some() || s.sign_alg != alg {
        return Expect::BadSig;
    }
    if !rm::time_ok(s.time_signed, s.fudge, now) {
        return Expect::BadTime;
    }
    Expect::Answered
}

fn case_json(family: &str, ks: usize, req: &[u8], now: u64, tp: Tp, desc: Value) -> Value {
    json!({"family": family, "keyset": ks, "request": hex(req), "now": now, "transport": tp.name(), "desc": desc})
}

fn spec_json(w: &World, s: &Spec) -> Value {
    json!({
        "question": w.questions[s.q].label, "id": s.id, "original_id": s.orig_id, "edns": s.edns, "extra_additional": s.extra,
        "key_name": wire::name_text(&s.key_name), "owner_compressed": s.compress, "algorithm_on_wire": wire::name_text(&s.alg_on_wire),
        "signed_with": s.sign_alg.text(), "secret": hex(&s.secret), "time_signed": s.time_signed, "fudge": s.fudge,
        "mac_len": s.mac_len, "corrupt": s.corrupt.map(|(i, m)| json!([i, m])),
    })
}

fn record(l: &mut Local, family: &str, o: &Outcome, case: impl FnOnce() -> Value) {
    l.tick();
    let class = format!("{family}|{}", o.class);
    match &o.violation {
        Some((k, why)) => {
            let mut v = case();
            if let Some(obj) = v.as_object_mut() {
                obj.insert("violated".into(), json!(k));
                obj.insert("why".into(), json!(why));
                obj.insert("expected".into(), json!(o.expect.name()));
                obj.insert("response".into(), json!(o.response.as_ref().map(|r| hex(r))));
            }
            l.outcome(&class, || v.clone());
            l.violation(&format!("{family}:{k}"), v);
        }
        None => l.outcome(&class, case),
    }
}

/// (now, time signed, fudge) triples: each fudge with the request signed at
/// the window edges, plus the ends of the 48-bit time range.
fn timing(thorough: bool) -> Vec<(u64, u64, u16)> {
    let fudges: &[u16] = if thorough { &[0, 1, 299, 300, 301, 32768, 65535] } else { &[0, 300, 65535] };
    let mut v = Vec::new();
    for &f in fudges {
        let f64_ = f as i64;
        let mut ds = vec![-(f64_ + 1), -f64_, 0, f64_, f64_ + 1];
        if thorough {
            ds.extend_from_slice(&[-(f64_ - 1), f64_ - 1, -1, 1]);
        }
        ds.sort();
        ds.dedup();
        for d in ds {
            v.push((NOW0, (NOW0 as i64 + d) as u64, f));
        }
    }
    v.extend_from_slice(&[
        (0, 0, 0),
        (0, 300, 300),
        (0, 301, 300),
        (T48_MAX, T48_MAX, 65535),
        (T48_MAX, T48_MAX - 65536, 65535),
        (T48_MAX - 300, T48_MAX, 300),
        (T48_MAX - 301, T48_MAX, 300),
        // time signed < fudge: the window starts at 0, it does not wrap.
        (0, 100, 300),
        (400, 100, 300),
        (401, 100, 300),
        (T48_MAX, T48_MAX - 100, 300),
    ]);
    v.sort();
    v.dedup();
    v
}

fn mac_lens(alg: Alg, thorough: bool) -> Vec<usize> {
    let full = alg.mac_len();
    let half = full / 2;
    if thorough {
        (0..=full + 1).collect()
    } else {
        let mut v = vec![0, 9, 10, half.saturating_sub(1), half, full - 1, full, full + 1];
        v.sort();
        v.dedup();
        v
    }
}

#[derive(Clone)]
struct Outer {
    ks: usize,
    key_name: Vec<u8>,
    compress: bool,
    alg_on_wire: Vec<u8>,
    right_secret: bool,
    q: usize,
    edns: Option<u16>,
    tp: Tp,
    ids: (u16, u16),
}

fn product_family(ctx: &Ctx, w: &World) {
    let th = !ctx.quick();
    let key_names: Vec<(Vec<u8>, bool)> = vec![
        (key1_name(), false),
        (wire::wname("K1."), false),
        (key2_name(), false),
        (key2_name(), true),
        (wire::wname("kEy2.T."), false),
        (wire::wname("nokey."), false),
        (long_key_name(), false),
        (vec![0], false),
    ];
    let algs: Vec<Vec<u8>> = vec![
        Alg::Sha1.wire_name(),
        Alg::Sha256.wire_name(),
        wire::wname("HMAC-Sha256."),
        wire::wname("hmac-md5.sig-alg.reg.int."),
        rm::long_name(b'a', b'g'),
    ];
    let qs: Vec<usize> = if th { (0..w.questions.len()).collect() } else { vec![0, 1, 2, 3] };
    let edns: Vec<Option<u16>> = if th { vec![None, Some(512), Some(4096)] } else { vec![None, Some(1232)] };
    let mut outer = Vec::new();
    for ks in 0..w.keysets.len() {
        for (kn, compress) in &key_names {
            for a in &algs {
                for right_secret in [true, false] {
                    for &q in &qs {
                        if *compress && !w.questions[q].qname.ends_with(&[1, b't', 0]) {
                            continue;
                        }
                        for &e in &edns {
                            for tp in [Tp::Udp, Tp::Tcp] {
                                for ids in [(0x1234u16, 0x1234u16), (0x1234, 0xfedc)] {
                                    outer.push(Outer { ks, key_name: kn.clone(), compress: *compress, alg_on_wire: a.clone(), right_secret, q, edns: e, tp, ids });
                                }
                            }
                        }
                    }
                }
            }
        }
    }
    let times = timing(th);
    let corrupts: Vec<Option<(usize, u8)>> = if th { vec![None, Some((0, 0x01)), Some((usize::MAX, 0x80)), Some((5, 0xff))] } else { vec![None, Some((0, 0x01)), Some((usize::MAX, 0x80))] };
    ctx.set_extra("product_outer_combinations", json!(outer.len()));
    ctx.set_extra("product_timing_triples", json!(times.len()));
    ctx.par_for_each(&outer, |l, o| {
        let keys = &w.keysets[o.ks];
        let sign_alg = rm::alg_by_name(&o.alg_on_wire).unwrap_or(Alg::Sha256);
        // The signer uses the configured secret of the key of that name (any
        // algorithm) if there is one, else a secret of its own.
        let configured = keys.iter().find(|k| wire::eq_ci(&k.name, &o.key_name)).map(|k| k.secret.clone()).unwrap_or_else(|| secret(24, 9));
        let sec = if o.right_secret { configured } else { secret(configured.len().max(1), 77) };
        // Deviation bounding: when no configured key has this name and
        // algorithm (BADKEY whatever else is wrong), the timing and corruption
        // axes are reduced to one in-window, one stale and one range-end
        // triple and one corruption.
        let key_known = rm::alg_by_name(&o.alg_on_wire).map(|a| keys.iter().any(|k| wire::eq_ci(&k.name, &o.key_name) && k.alg == a)).unwrap_or(false);
        let reduced_times = [(NOW0, NOW0, 300u16), (NOW0, NOW0 - 301, 300), (T48_MAX, T48_MAX - 65536, 65535)];
        let times: &[(u64, u64, u16)] = if key_known { &times } else { &reduced_times };
        let corrupts: &[Option<(usize, u8)>] = if key_known { &corrupts } else { &corrupts[..2] };
        for &(now, ts, fudge) in times {
            for mac_len in mac_lens(sign_alg, th) {
                for &corrupt in corrupts {
                    if corrupt.is_some() && mac_len == 0 {
                        continue;
                    }
                    let s = Spec {
                        q: o.q,
                        id: o.ids.0,
                        orig_id: o.ids.1,
                        edns: o.edns,
                        extra: false,
                        extra_n: 0,
                        key_name: o.key_name.clone(),
                        compress: o.compress,
                        alg_on_wire: o.alg_on_wire.clone(),
                        sign_alg,
                        secret: sec.clone(),
                        time_signed: ts,
                        fudge,
                        mac_len,
                        corrupt,
                    };
                    let req = build_request(w, &s);
                    let out = check_one(w, o.ks, &req, now, o.tp);
                    let meant = intent(keys, &s, now);
                    if meant != out.expect {
                        l.violation("harness:intent-mismatch", json!({"meant": meant.name(), "classified": out.expect.name(), "case": case_json("product", o.ks, &req, now, o.tp, spec_json(w, &s))}));
                    }
                    record(l, "product", &out, || case_json("product", o.ks, &req, now, o.tp, spec_json(w, &s)));
                }
            }
        }
    });
}

/// Valid (and a few invalid) base requests for the tamper / structure
/// families.
fn bases(w: &World, th: bool) -> Vec<(usize, Spec, Tp)> {
    let mut v = Vec::new();
    let ks = 2;
    for (kn, compress) in [(key1_name(), false), (key2_name(), true), (long_key_name(), false)] {
        let key = w.keysets[ks].iter().find(|k| wire::eq_ci(&k.name, &kn)).unwrap();
        for q in [0usize, 1] {
            for edns in [None, Some(1232u16)] {
                for tp in [Tp::Udp, Tp::Tcp] {
                    for ids in [(0x1234u16, 0x1234u16), (0x1234, 0xfedc)] {
                        for short in [false, true] {
                            for extra in [false, true] {
                                if !th && extra && (short || ids.0 != ids.1 || tp == Tp::Tcp) {
                                    continue;
                                }
                                let full = key.alg.mac_len();
                                v.push((
                                    ks,
                                    Spec {
                                        q,
                                        id: ids.0,
                                        orig_id: ids.1,
                                        edns,
                                        extra,
                                        extra_n: 0,
                                        key_name: kn.clone(),
                                        compress,
                                        alg_on_wire: key.alg.wire_name(),
                                        sign_alg: key.alg,
                                        secret: key.secret.clone(),
                                        time_signed: NOW0 + 7,
                                        fudge: 300,
                                        mac_len: if short { std::cmp::max(10, full / 2) } else { full },
                                        corrupt: None,
                                    },
                                    tp,
                                ));
                            }
                        }
                    }
                }
            }
        }
    }
    // Requests whose additional section holds several hundred ordinary
    // records before the TSIG RR: ARCOUNT (TSIG RR included) just below, on
    // and above 256 and 512.
    {
        let key = w.keysets[ks].iter().find(|k| k.name == key1_name()).unwrap();
        for extra_n in [253usize, 254, 255, 256, 510, 511] {
            for (edns, tp) in [(None, Tp::Tcp), (Some(1232u16), Tp::Udp)] {
                v.push((
                    ks,
                    Spec {
                        q: 0,
                        id: 0x1234,
                        orig_id: 0x1234,
                        edns,
                        extra: false,
                        extra_n,
                        key_name: key1_name(),
                        compress: false,
                        alg_on_wire: key.alg.wire_name(),
                        sign_alg: key.alg,
                        secret: key.secret.clone(),
                        time_signed: NOW0 + 7,
                        fudge: 300,
                        mac_len: key.alg.mac_len(),
                        corrupt: None,
                    },
                    tp,
                ));
            }
        }
    }
    v
}

fn tamper_family(ctx: &Ctx, w: &World) {
    let th = !ctx.quick();
    let masks: Vec<u8> = if th { vec![0x01, 0x02, 0x04, 0x08, 0x10, 0x20, 0x40, 0x80, 0xff] } else { vec![0x01, 0x20, 0x80, 0xff] };
    let bs = bases(w, th);
    ctx.set_extra("tamper_base_requests", json!(bs.len()));
    ctx.par_for_each(&bs, |l, (ks, s, tp)| {
        let req = build_request(w, s);
        // The untampered base must be answered normally.
        let out = check_one(w, *ks, &req, NOW0, *tp);
        if out.expect != Expect::Answered {
            l.violation("harness:base-not-valid", json!({"classified": out.expect.name(), "case": case_json("tamper-base", *ks, &req, NOW0, *tp, spec_json(w, s))}));
        }
        record(l, "tamper-base", &out, || case_json("tamper-base", *ks, &req, NOW0, *tp, spec_json(w, s)));
        for pos in 0..req.len() {
            // long additional sections: the header, the question, every 97th
            // octet and the TSIG RR
            if s.extra_n > 0 && pos >= 40 && pos + 120 < req.len() && pos % 97 != 0 {
                continue;
            }
            for &mask in &masks {
                let mut t = req.clone();
                t[pos] ^= mask;
                let out = check_one(w, *ks, &t, NOW0, *tp);
                record(l, "tamper", &out, || case_json("tamper", *ks, &t, NOW0, *tp, json!({"base": spec_json(w, s), "position": pos, "xor": mask})));
            }
        }
    });
}

/// TSIG RR in the wrong place / repeated / wrong CLASS or TTL, and an
/// ordinary additional record in front of a (then still valid) TSIG RR.
fn structure_family(ctx: &Ctx, w: &World) {
    let mut items: Vec<(usize, Spec, Tp)> = Vec::new();
    for ks in [1usize, 2] {
        let key = w.keysets[ks].iter().find(|k| k.name == key1_name()).unwrap();
        for (kn, right) in [(key1_name(), true), (key1_name(), false), (wire::wname("nokey."), true)] {
            for edns in [None, Some(1232u16)] {
                for tp in [Tp::Udp, Tp::Tcp] {
                    for extra in [false, true] {
                        items.push((
                            ks,
                            Spec {
                                q: 0,
                                id: 7,
                                orig_id: 7,
                                edns,
                                extra,
                                extra_n: 0,
                                key_name: kn.clone(),
                                compress: false,
                                alg_on_wire: key.alg.wire_name(),
                                sign_alg: key.alg,
                                secret: if right { key.secret.clone() } else { secret(16, 50) },
                                time_signed: NOW0,
                                fudge: 300,
                                mac_len: key.alg.mac_len(),
                                corrupt: None,
                            },
                            tp,
                        ));
                    }
                }
            }
        }
    }
    ctx.par_for_each(&items, |l, (ks, s, tp)| {
        let req = build_request(w, s);
        let base_len = base_message(w, s).len();
        let tsig_rr = req[base_len..].to_vec();
        let klen = s.key_name.len();
        let bump = |m: &mut Vec<u8>, off: usize, d: i32| {
            let v = (u16::from_be_bytes([m[off], m[off + 1]]) as i32 + d) as u16;
            m[off..off + 2].copy_from_slice(&v.to_be_bytes());
        };
        let mut variants: Vec<(&str, Vec<u8>)> = vec![("as-built", req.clone())];
        let mut v = req.clone();
        v.extend_from_slice(&wire::wname("y."));
        v.extend_from_slice(&[0, 1, 0, 1, 0, 0, 0, 1, 0, 4, 192, 0, 2, 1]);
        bump(&mut v, 10, 1);
        variants.push(("record-after-tsig", v));
        if s.edns.is_none() {
            let mut v = req.clone();
            v.extend_from_slice(&[0, 0, 41, 4, 0xd0, 0, 0, 0, 0, 0, 0]);
            bump(&mut v, 10, 1);
            variants.push(("opt-after-tsig", v));
        }
        let mut v = req.clone();
        v.extend_from_slice(&tsig_rr);
        bump(&mut v, 10, 1);
        variants.push(("two-tsigs", v));
        if s.edns.is_none() && !s.extra {
            let mut v = req.clone();
            bump(&mut v, 10, -1);
            bump(&mut v, 6, 1);
            variants.push(("tsig-in-answer-section", v.clone()));
            bump(&mut v, 6, -1);
            bump(&mut v, 8, 1);
            variants.push(("tsig-in-authority-section", v));
        }
        let mut v = req.clone();
        v[base_len + klen + 2..base_len + klen + 4].copy_from_slice(&c::IN.to_be_bytes());
        variants.push(("tsig-class-in", v));
        let mut v = req.clone();
        v[base_len + klen + 2..base_len + klen + 4].copy_from_slice(&c::NONE.to_be_bytes());
        variants.push(("tsig-class-none", v));
        let mut v = req.clone();
        v[base_len + klen + 7] = 1;
        variants.push(("tsig-ttl-1", v));
        let mut v = req.clone();
        v[base_len + klen + 4] = 0x7f;
        variants.push(("tsig-ttl-big", v));
        // RFC 8945 §4.2: the TTL field must be 0; 0x80000000 is not 0 (D17).
        let mut v = req.clone();
        v[base_len + klen + 4] = 0x80;
        variants.push(("tsig-ttl-msb", v));
        for (name, r) in variants {
            let out = check_one(w, *ks, &r, NOW0, *tp);
            if name != "as-built" && out.expect != Expect::FormErrStructure {
                l.violation("harness:structure-variant-not-classified", json!({"variant": name, "classified": out.expect.name(), "request": hex(&r)}));
            }
            record(l, "structure", &out, || case_json("structure", *ks, &r, NOW0, *tp, json!({"variant": name, "base": spec_json(w, s)})));
        }
    });
}

pub fn run(ctx: Ctx) -> ! {
    rm::self_test();
    let w = World::new();
    if let Some(case) = ctx.replay_case() {
        let case = case.get("case").filter(|c| c.get("request").is_some()).unwrap_or(case).clone();
        let req = unhex(case["request"].as_str().expect("replay case needs `request`"));
        let ks = case["keyset"].as_u64().expect("keyset") as usize;
        let now = case["now"].as_u64().expect("now");
        let tp = Tp::from_name(case["transport"].as_str().unwrap_or("udp"));
        let out = check_one(&w, ks, &req, now, tp);
        eprintln!("replay: expected {}; observed class {}", out.expect.name(), out.class);
        eprintln!("replay: response {}", out.response.as_ref().map(|r| hex(r)).unwrap_or_else(|| "<none>".into()));
        let mut l = ctx.local();
        let fam = case["family"].as_str().unwrap_or("replay").to_string();
        record(&mut l, &fam, &out, || case.clone());
        if let Some((k, why)) = &out.violation {
            eprintln!("replay: VIOLATED {k}: {why}");
        } else {
            eprintln!("replay: no violation");
        }
        drop(l);
        finish(ctx);
    }
    product_family(&ctx, &w);
    tamper_family(&ctx, &w);
    structure_family(&ctx, &w);
    finish(ctx)
}

fn finish(ctx: Ctx) -> ! {
    ctx.assume("qvlib::reftsig SHA-1/SHA-256/HMAC (checked against FIPS 180 / RFC 2202 / RFC 4231 vectors) and qvlib::wire decoder; the RFC 8945 digest composition of the reference is checked at start-up against a BIND 9 request/response/subsequent triple");
    ctx.assume("server time is the virtual clock verif_hooks::set_tsig_unix_time; server response fudge is not prescribed (any fudge covering the server time is accepted)");
    ctx.assume("oracle decisions: RFC 8945 §5.2 order KEY > MAC length > MAC > TIME; unknown key with a disallowed MAC length may be BADKEY or FORMERR; TSIG RR of a MAC-length FORMERR response unconstrained; 'carries a TSIG' only when question+OPT+TSIG fit the size limit (DESIGN §7a), else TC without TSIG and without answer data; requests that are not well-formed single-question messages with valid OPT are out of scope (C01/C02/C08)");
    ctx.finish(
        "exploration",
        "bounded-exhaustive product of {3 key sets} x {8 key-name presentations incl. case variants, compressed owner, 255-octet, root} x {5 algorithm names incl. mixed case, unknown, 255-octet} x {right, wrong secret} x {questions} x {EDNS} x {UDP, TCP} x {original ID = / != ID} x {(now, time signed, fudge) window-edge triples incl. 48-bit range ends} x {MAC lengths around 0/10/half/full/full+1 (thorough: every length 0..full+1)} x {MAC octet corruption}; plus every single-octet XOR tampering (4 masks quick, all 8 bits + 0xff thorough) of every octet of a menu of valid signed requests (incl. requests with 253-256 and 510-511 ordinary additional records before the TSIG RR, tampered at the header, the question, every 97th octet and the TSIG RR); plus TSIG placement/CLASS/TTL variants. Requests signed by the harness's own RFC 8945 signer; each run through Server::handle_message under a virtual clock; oracle = independent decode of the request octets + RFC 8945 section 5.2 decision procedure + independent HMAC verification of the response MAC over (request MAC as transmitted, response with original ID and ARCOUNT-1, response TSIG variables) + independently derived normal answer from the fixture record list",
        true,
    )
}
