//! C11 — TSIG MACs match RFC 8945 and detect tampering (library level).
//!
//! Two families:
//!  * sign: messages built with quandary's `Writer` by a menu of scripts,
//!    `set_tsig` in every `TsigMode`, `finish_with_mac`; the produced message
//!    is decoded independently and its TSIG RDATA / MAC compared with the
//!    harness's own RFC 8945 §4.3 computation.
//!  * verify: messages signed by the harness's own signer (and every MAC
//!    truncation, window edge and single-octet corruption of them) are parsed
//!    with quandary's `Reader` and fed to `ReadTsigRr::verify_*`; the verdict
//!    is compared with an oracle that re-derives it from the octets.

use quandary::class::Class;
use quandary::message::tsig::{Algorithm, PreparedTsigRr, ReadTsigRr, VerificationError};
use quandary::message::writer::{CompressionMode, Hint, HintedName, TsigMode};
use quandary::message::{ExtendedRcode, Opcode, Qclass, Qtype, Question, Rcode, Reader, Writer};
use quandary::name::LowercaseName;
use quandary::rr::rdata::TimeSigned;
use quandary::rr::{Ttl, Type};

use qvlib::fixtures::{self, soa_rdata, txt_rdata};
use qvlib::qd;
use qvlib::reftsig::Alg;
use qvlib::wire::{self, c, t};
use qvlib::{catch, hex, json, panic_key, unhex, Ctx, Local, Value};

use crate::refmodel::{self as rm, Mode, Verdict};

const NOW0: u64 = 1_700_000_000;
const T48_MAX: u64 = (1 << 48) - 1;

// ---------------------------------------------------------------- scripts

pub const N_SCRIPTS: usize = 16;

pub fn script_name(i: usize) -> &'static str {
    [
        "header-only",
        "question",
        "question+answer",
        "soa+ns+glue",
        "edns+question",
        "edns+nxdomain+tc",
        "qname-255",
        "compression-disabled",
        "big-txt",
        "notify+case-preserving",
        "records-no-question",
        // additional sections whose record count, with the TSIG RR (and the
        // OPT), lands on and around a multiple of 256 (ARCOUNT's low octet
        // rolls over: RFC 8945 4.3.2 digests the message with ARCOUNT - 1)
        "additional-254",
        "additional-255",
        "additional-256",
        "additional-511",
        "edns+additional-254",
    ][i]
}

fn lname(w: &[u8]) -> Box<LowercaseName> {
    qd::qname(w).into()
}

fn q(name: &str, qtype: u16) -> Question {
    Question { qname: qd::qname(&wire::wname(name)), qtype: Qtype::from(qtype), qclass: Qclass::from(c::IN) }
}

/// Runs script `i` on `w` (everything but TSIG and finish).
fn run_script(i: usize, w: &mut Writer) -> Result<(), String> {
    let e = |x: quandary::message::writer::Error| format!("{x:?}");
    let a = |n: &str| qd::qname(&wire::wname(n));
    match i {
        0 => {}
        1 => w.add_question(&q("a.t.", t::A)).map_err(e)?,
        2 => {
            w.set_qr(true);
            w.add_question(&q("a.t.", t::A)).map_err(e)?;
            w.add_answer_rr(HintedName::new(Hint::Qname, &a("a.t.")), Type::from(t::A), Class::IN, Ttl::from(60), qd::rdata(&[192, 0, 2, 10]), None).map_err(e)?;
        }
        3 => {
            w.set_qr(true);
            w.set_aa(true);
            w.add_question(&q("t.", t::SOA)).map_err(e)?;
            w.add_answer_rr(HintedName::new(Hint::Qname, &a("t.")), Type::from(t::SOA), Class::IN, Ttl::from(3600), qd::rdata(&soa_rdata("ns.t.", "admin.t.", 1, 2, 3, 4, 5)), None).map_err(e)?;
            w.add_authority_rr(HintedName::new(Hint::None, &a("t.")), Type::from(t::NS), Class::IN, Ttl::from(3600), qd::rdata(&wire::wname("ns.t.")), None).map_err(e)?;
            w.add_additional_rr(HintedName::new(Hint::None, &a("ns.t.")), Type::from(t::A), Class::IN, Ttl::from(300), qd::rdata(&[192, 0, 2, 1]), None).map_err(e)?;
        }
        4 => {
            w.set_rd(true);
            w.add_question(&q("a.t.", t::A)).map_err(e)?;
            w.set_edns(1232).map_err(e)?;
        }
        5 => {
            w.set_qr(true);
            w.set_aa(true);
            w.set_tc(true);
            w.set_edns(4096).map_err(e)?;
            w.add_question(&q("nope.t.", t::A)).map_err(e)?;
            w.set_rcode(Rcode::NXDOMAIN);
            w.add_authority_rr(HintedName::new(Hint::None, &a("t.")), Type::from(t::SOA), Class::IN, Ttl::from(300), qd::rdata(&soa_rdata("ns.t.", "admin.t.", 1, 2, 3, 4, 5)), None).map_err(e)?;
        }
        6 => {
            let qn = rm::long_name(b'x', b'y');
            w.add_question(&Question { qname: qd::qname(&qn), qtype: Qtype::from(t::A), qclass: Qclass::from(c::IN) }).map_err(e)?;
        }
        7 => {
            w.set_compression_mode(CompressionMode::Disabled);
            w.set_qr(true);
            w.add_question(&q("a.t.", t::MX)).map_err(e)?;
            w.add_answer_rr(HintedName::new(Hint::Qname, &a("a.t.")), Type::from(t::MX), Class::IN, Ttl::from(60), qd::rdata(&fixtures::mx_rdata(10, "mail.t.")), None).map_err(e)?;
            w.add_answer_rr(HintedName::new(Hint::MostRecentOwner, &a("a.t.")), Type::from(t::MX), Class::IN, Ttl::from(60), qd::rdata(&fixtures::mx_rdata(20, "mail2.t.")), None).map_err(e)?;
        }
        8 => {
            w.set_qr(true);
            w.set_aa(true);
            w.add_question(&q("big.t.", t::TXT)).map_err(e)?;
            for k in 0..8u8 {
                w.add_answer_rr(HintedName::new(Hint::Qname, &a("big.t.")), Type::from(t::TXT), Class::IN, Ttl::from(60), qd::rdata(&txt_rdata(&[&vec![b'a' + k; 200]])), None).map_err(e)?;
            }
        }
        9 => {
            w.set_compression_mode(CompressionMode::CasePreserving);
            w.set_opcode(Opcode::NOTIFY);
            w.set_aa(true);
            w.set_ra(true);
            w.add_question(&q("Zone.T.", t::SOA)).map_err(e)?;
            w.add_answer_rr(HintedName::new(Hint::None, &a("zone.t.")), Type::from(t::SOA), Class::IN, Ttl::from(1), qd::rdata(&soa_rdata("NS.Zone.T.", "admin.zone.t.", 9, 8, 7, 6, 5)), None).map_err(e)?;
        }
        10 => {
            w.set_qr(true);
            w.add_answer_rr(HintedName::new(Hint::None, &a("t.")), Type::from(t::NS), Class::IN, Ttl::from(3600), qd::rdata(&wire::wname("ns.t.")), None).map_err(e)?;
            w.add_additional_rr(HintedName::new(Hint::None, &a("ns.t.")), Type::from(t::A), Class::IN, Ttl::from(300), qd::rdata(&[192, 0, 2, 1]), None).map_err(e)?;
        }
        11..=15 => {
            let n = [254usize, 255, 256, 511, 254][i - 11];
            w.set_qr(true);
            w.add_question(&q("many.t.", t::MX)).map_err(e)?;
            if i == 15 {
                w.set_edns(4096).map_err(e)?;
            }
            for k in 0..n {
                w.add_additional_rr(HintedName::new(Hint::Qname, &a("many.t.")), Type::from(t::A), Class::IN, Ttl::from(60), qd::rdata(&[10, 11, (k >> 8) as u8, k as u8]), None).map_err(e)?;
            }
        }
        _ => unreachable!(),
    }
    Ok(())
}

/// Scripts with hundreds of records: the single-octet corruption sweep visits
/// the header, the question, the TSIG RR and every 61st octet in between.
fn large_script(i: usize) -> bool {
    i >= 11
}

thread_local! {
    static BUF: std::cell::RefCell<Vec<u8>> = std::cell::RefCell::new(vec![0u8; 65535]);
}

/// Builds script `i` with message ID `id` under size limit `limit`; with
/// `tsig`, calls `set_tsig` after the script and returns the MAC that
/// `finish_with_mac` reports. Err = a writer operation failed (its name).
#[allow(clippy::type_complexity)]
fn build(i: usize, id: u16, limit: usize, tsig: Option<(TsigMode, PreparedTsigRr)>) -> Result<(Vec<u8>, Option<Vec<u8>>), String> {
    BUF.with(|b| {
        let mut b = b.borrow_mut();
        let buf: &mut [u8] = &mut b[..];
        let (n, mac) = {
            let mut w = Writer::new(buf, limit).map_err(|e| format!("new:{e:?}"))?;
            w.set_id(id);
            run_script(i, &mut w).map_err(|e| format!("script:{e}"))?;
            if let Some((mode, rr)) = tsig {
                w.set_tsig(mode, rr).map_err(|e| format!("set_tsig:{e:?}"))?;
            }
            w.finish_with_mac()
        };
        Ok((b[..n].to_vec(), mac.map(|m| m.to_vec())))
    })
}

// ------------------------------------------------------------ sign family

#[derive(Clone, Debug)]
struct SignCase {
    script: usize,
    id: u16,
    orig_id: u16,
    limit: usize,
    key_name: Vec<u8>,
    /// "request" | "response" | "subsequent" | "unsigned"
    mode: &'static str,
    /// Algorithm name in wire form (for unsigned mode it may be unknown).
    alg_name: Vec<u8>,
    secret: Vec<u8>,
    prior: Vec<u8>,
    time_signed: u64,
    fudge: u16,
    error: u16,
    server_time: u64,
}

impl SignCase {
    fn to_json(&self) -> Value {
        json!({
            "family": "sign", "script": self.script, "script_name": script_name(self.script), "id": self.id, "original_id": self.orig_id,
            "limit": self.limit, "key_name": hex(&self.key_name), "mode": self.mode, "alg_name": hex(&self.alg_name), "secret": hex(&self.secret),
            "prior_mac": hex(&self.prior), "time_signed": self.time_signed, "fudge": self.fudge, "error": self.error, "server_time": self.server_time,
        })
    }
    fn from_json(v: &Value) -> SignCase {
        let s = |k: &str| unhex(v[k].as_str().unwrap_or(""));
        let n = |k: &str| v[k].as_u64().unwrap_or(0);
        let mode = match v["mode"].as_str().unwrap_or("") {
            "request" => "request",
            "response" => "response",
            "subsequent" => "subsequent",
            _ => "unsigned",
        };
        SignCase {
            script: n("script") as usize,
            id: n("id") as u16,
            orig_id: n("original_id") as u16,
            limit: n("limit") as usize,
            key_name: s("key_name"),
            mode,
            alg_name: s("alg_name"),
            secret: s("secret"),
            prior: s("prior_mac"),
            time_signed: n("time_signed"),
            fudge: n("fudge") as u16,
            error: n("error") as u16,
            server_time: n("server_time"),
        }
    }
}

fn q_alg(a: Alg) -> Algorithm {
    fixtures::alg_of(a)
}

/// Runs one sign case; Ok(outcome class) or Err((key, why)).
fn sign_one(sc: &SignCase) -> Result<String, (String, String)> {
    let fail = |k: &str, why: String| Err((k.to_string(), why));
    let alg = rm::alg_by_name(&sc.alg_name);
    let rr = PreparedTsigRr {
        key_name: lname(&sc.key_name),
        time_signed: TimeSigned::try_from_unix_time(sc.time_signed).unwrap(),
        fudge: sc.fudge,
        original_id: sc.orig_id,
        error: ExtendedRcode::from(sc.error),
        server_time: TimeSigned::try_from_unix_time(sc.server_time).unwrap(),
    };
    let key: Box<[u8]> = sc.secret.clone().into_boxed_slice();
    let (mode, refmode) = match sc.mode {
        "request" => (TsigMode::Request { algorithm: q_alg(alg.unwrap()), key }, Some(Mode::Request)),
        "response" => (TsigMode::Response { algorithm: q_alg(alg.unwrap()), request_mac: sc.prior.clone().into_boxed_slice(), key }, Some(Mode::Response(sc.prior.clone()))),
        "subsequent" => (TsigMode::Subsequent { algorithm: q_alg(alg.unwrap()), prior_mac: sc.prior.clone().into_boxed_slice(), key }, Some(Mode::Subsequent(sc.prior.clone()))),
        _ => (TsigMode::Unsigned { algorithm: lname(&sc.alg_name) }, None),
    };
    let twin = match catch(|| build(sc.script, sc.id, sc.limit, None)) {
        Err(p) => return fail(&panic_key(&p), p),
        Ok(Err(e)) => return Ok(format!("sign|script-fails-without-tsig:{e}")),
        Ok(Ok((m, _))) => m,
    };
    let (out, mac) = match catch(|| build(sc.script, sc.id, sc.limit, Some((mode, rr)))) {
        Err(p) => return fail(&panic_key(&p), p),
        Ok(Err(e)) => {
            // Only lack of space may stop set_tsig.
            let other_len = if sc.error == 18 { 6 } else { 0 };
            let need = twin.len() + sc.key_name.len() + 10 + sc.alg_name.len() + 16 + alg.filter(|_| refmode.is_some()).map(|a| a.mac_len()).unwrap_or(0) + other_len;
            if e == "set_tsig:Truncation" && need > sc.limit {
                return Ok("sign|set_tsig:Truncation(no room)".into());
            }
            return fail("sign:writer-error", format!("{e} (message {} octets, worst-case TSIG needs {need} <= limit {})", twin.len(), sc.limit));
        }
        Ok(Ok(x)) => x,
    };
    if out.len() > sc.limit {
        return fail("sign:over-limit", format!("{} octets written under limit {}", out.len(), sc.limit));
    }
    let m = match wire::decode_message(&out, wire::PtrRule::BeforePointer, true) {
        Ok(m) => m,
        Err(e) => return fail("sign:output-undecodable", e),
    };
    let s = match rm::last_tsig(&m) {
        Some(s) => s,
        None => return fail("sign:no-tsig-last", "the last record of the output is not a well-formed TSIG RR".into()),
    };
    if rm::count_type(&m.additional, t::TSIG) != 1 || !rm::tsig_class_ttl_ok(&s.tsig) {
        return fail("sign:tsig-rr-header", "TSIG RR repeated, or CLASS != ANY, or TTL != 0".into());
    }
    // Everything before the TSIG RR is the message as written without TSIG,
    // with ARCOUNT one higher.
    let mut expect_prefix = twin.clone();
    let ar = u16::from_be_bytes([twin[10], twin[11]]) + 1;
    expect_prefix[10..12].copy_from_slice(&ar.to_be_bytes());
    if out[..s.covered_len] != expect_prefix[..] {
        return fail("sign:prefix", "octets before the TSIG RR differ from the same message written without TSIG (ARCOUNT+1)".into());
    }
    if s.tsig.name != wire::lower(&sc.key_name) {
        return fail("sign:key-name", format!("TSIG owner {}", wire::name_text(&s.tsig.name)));
    }
    let td = &s.td;
    let exp_other: Vec<u8> = if sc.error == 18 { rm::time48(sc.server_time).to_vec() } else { vec![] };
    if td.alg_name != wire::lower(&sc.alg_name) || td.time_signed != sc.time_signed || td.fudge != sc.fudge || td.original_id != sc.orig_id || td.error != sc.error || td.other != exp_other {
        return fail("sign:rdata-fields", format!("TSIG RDATA fields differ from the PreparedTsigRr: {td:?}"));
    }
    match refmode {
        None => {
            if !td.mac.is_empty() || mac.is_some() {
                return fail("sign:unsigned-has-mac", "unsigned mode produced a MAC".into());
            }
            Ok(format!("sign|unsigned|alg-known={}|error={}", alg.is_some() as u8, sc.error))
        }
        Some(rmode) => {
            let alg = alg.unwrap();
            let reference = rm::reference_mac(&rmode, alg, &sc.secret, &out[..s.covered_len], &s.tsig.name, td);
            if td.mac != reference {
                return fail(&format!("sign:mac-mismatch:{}", sc.mode), format!("library MAC {} != RFC 8945 reference {}", hex(&td.mac), hex(&reference)));
            }
            if mac.as_deref() != Some(&reference[..]) {
                return fail("sign:returned-mac", "finish_with_mac returned a MAC different from the one in the message".into());
            }
            let compressed = m.pointers.iter().any(|p| p.typ == t::TSIG);
            Ok(format!("sign|{}|{}|error={}|owner-compressed={}|id{}orig", sc.mode, alg.text(), sc.error, compressed as u8, if sc.id == sc.orig_id { "==" } else { "!=" }))
        }
    }
}

fn secret(n: usize, seed: u8) -> Vec<u8> {
    (0..n).map(|i| (i as u8).wrapping_mul(101).wrapping_add(seed)).collect()
}

fn key_names() -> Vec<Vec<u8>> {
    vec![wire::wname("k1."), wire::wname("key.t."), rm::long_name(b'x', b'k')]
}

fn sign_family(ctx: &Ctx) {
    let th = !ctx.quick();
    let key_lens: &[usize] = if th { &[1, 20, 32, 63, 64, 65, 200] } else { &[1, 32, 65] };
    let priors: Vec<Vec<u8>> = vec![vec![], secret(10, 200), secret(32, 201), secret(64, 202)];
    let times: &[(u64, u16, u64)] = &[(NOW0, 300, NOW0 + 1000), (0, 0, T48_MAX), (T48_MAX, 65535, 0)];
    let mut cases = Vec::new();
    for script in 0..N_SCRIPTS {
        for kn in key_names() {
            for (id, orig) in [(0x1234u16, 0x1234u16), (0x1234, 0xabcd)] {
                for error in [0u16, 16, 17, 18] {
                    for &(ts, fudge, st) in times {
                        for limit in [65535usize, 512] {
                            let base = SignCase { script, id, orig_id: orig, limit, key_name: kn.clone(), mode: "unsigned", alg_name: vec![], secret: vec![], prior: vec![], time_signed: ts, fudge, error, server_time: st };
                            for an in [Alg::Sha256.wire_name(), wire::wname("hmac-md5.sig-alg.reg.int.")] {
                                cases.push(SignCase { alg_name: an, ..base.clone() });
                            }
                            for alg in [Alg::Sha1, Alg::Sha256] {
                                for &kl in key_lens {
                                    let sec = secret(kl, kl as u8);
                                    cases.push(SignCase { mode: "request", alg_name: alg.wire_name(), secret: sec.clone(), ..base.clone() });
                                    for p in &priors {
                                        cases.push(SignCase { mode: "response", alg_name: alg.wire_name(), secret: sec.clone(), prior: p.clone(), ..base.clone() });
                                        cases.push(SignCase { mode: "subsequent", alg_name: alg.wire_name(), secret: sec.clone(), prior: p.clone(), ..base.clone() });
                                    }
                                }
                            }
                        }
                    }
                }
            }
        }
    }
    ctx.set_extra("sign_cases", json!(cases.len()));
    ctx.par_for_each(&cases, |l, sc| {
        l.tick();
        match sign_one(sc) {
            Ok(class) => l.outcome(&class, || sc.to_json()),
            Err((k, why)) => {
                let mut v = sc.to_json();
                v.as_object_mut().unwrap().insert("why".into(), json!(why));
                l.outcome(&format!("VIOLATION:{k}"), || v.clone());
                l.violation(&k, v);
            }
        }
    });
}

// ---------------------------------------------------------- verify family

#[derive(Debug)]
#[allow(dead_code)]
enum QVerdict {
    /// quandary's reader could not get at a TSIG RR as the last record.
    Unparsable(String),
    NotTsig(String),
    NoAlgorithm,
    Verified(Result<(), VerificationError>),
}

/// What a client using quandary does with a received message: walk to the
/// last record with `Reader`, convert to `ReadTsigRr`, pick the algorithm by
/// the RR's algorithm name, call `verify_*`.
fn q_verify(bytes: &[u8], mode: &Mode, secret: &[u8], now: u64) -> Result<QVerdict, String> {
    catch(|| {
        let mut r = match Reader::try_from(bytes) {
            Ok(r) => r,
            Err(e) => return QVerdict::Unparsable(format!("{e:?}")),
        };
        for _ in 0..r.qdcount() {
            if let Err(e) = r.skip_question() {
                return QVerdict::Unparsable(format!("question:{e:?}"));
            }
        }
        if r.arcount() == 0 {
            return QVerdict::Unparsable("ARCOUNT=0".into());
        }
        let total = r.ancount() as usize + r.nscount() as usize + r.arcount() as usize;
        for _ in 0..total - 1 {
            if let Err(e) = r.skip_rr() {
                return QVerdict::Unparsable(format!("skip_rr:{e:?}"));
            }
        }
        let covered = r.message_to_cursor();
        let rr = match r.read_rr() {
            Ok(rr) => rr,
            Err(e) => return QVerdict::Unparsable(format!("read_rr:{e:?}")),
        };
        if !r.at_eom() {
            return QVerdict::Unparsable("octets after the last record".into());
        }
        let tsig = match ReadTsigRr::try_from(rr) {
            Ok(t) => t,
            Err(e) => return QVerdict::NotTsig(format!("{e:?}")),
        };
        let alg = match Algorithm::from_name(tsig.algorithm()) {
            Some(a) => a,
            None => return QVerdict::NoAlgorithm,
        };
        let now = TimeSigned::try_from_unix_time(now).unwrap();
        QVerdict::Verified(match mode {
            Mode::Request => tsig.verify_request(covered, alg, secret, now),
            Mode::Response(p) => tsig.verify_response(covered, p, alg, secret, now),
            Mode::Subsequent(p) => tsig.verify_subsequent(covered, p, alg, secret, now),
        })
    })
}

#[derive(Debug, PartialEq, Eq)]
enum VExpect {
    Reject(&'static str),
    /// The statement does not decide (TSIG RR with CLASS != ANY / TTL != 0
    /// whose MAC would match).
    Either(&'static str),
    Decided(Verdict),
}

fn v_expect(bytes: &[u8], mode: &Mode, secret: &[u8], now: u64) -> VExpect {
    let m = match rm::decode_both(bytes) {
        Ok(m) => m,
        Err(_) => return VExpect::Reject("undecodable"),
    };
    let s = match rm::last_tsig(&m) {
        Some(s) => s,
        None => return VExpect::Reject("last-record-not-tsig"),
    };
    if !rm::tsig_class_ttl_ok(&s.tsig) {
        return VExpect::Either("tsig-class-ttl");
    }
    if m.pointers.iter().any(|p| p.typ == t::TSIG && p.place != wire::PtrPlace::Owner) {
        return VExpect::Either("tsig-rdata-compressed");
    }
    let alg = match rm::alg_by_name(&s.td.alg_name) {
        Some(a) => a,
        None => return VExpect::Reject("algorithm-unknown"),
    };
    VExpect::Decided(rm::verify(bytes, &s, mode, alg, secret, now))
}

fn verify_case_json(bytes: &[u8], mode: &Mode, secret: &[u8], now: u64, desc: Value) -> Value {
    let prior = match mode {
        Mode::Request => vec![],
        Mode::Response(p) | Mode::Subsequent(p) => p.clone(),
    };
    json!({"family": "verify", "message": hex(bytes), "mode": mode.name(), "prior_mac": hex(&prior), "secret": hex(secret), "now": now, "desc": desc})
}

/// One verify case: Ok(class) / Err((key, why)).
fn verify_one(bytes: &[u8], mode: &Mode, secret: &[u8], now: u64) -> Result<String, (String, String)> {
    let exp = v_expect(bytes, mode, secret, now);
    let got = match q_verify(bytes, mode, secret, now) {
        Ok(g) => g,
        Err(p) => return Err((panic_key(&p), format!("{p} (oracle: {exp:?})"))),
    };
    let accepted = matches!(got, QVerdict::Verified(Ok(())));
    let got_s = match &got {
        QVerdict::Unparsable(_) => "unparsable".to_string(),
        QVerdict::NotTsig(e) => format!("not-tsig:{e}"),
        QVerdict::NoAlgorithm => "no-algorithm".to_string(),
        QVerdict::Verified(Ok(())) => "Ok".to_string(),
        QVerdict::Verified(Err(e)) => format!("{e:?}"),
    };
    let m = mode.name();
    match exp {
        VExpect::Reject(r) => {
            if accepted {
                return Err((format!("verify:accepted-invalid:{m}"), format!("oracle rejects ({r}); quandary verified the message")));
            }
            Ok(format!("verify|{m}|reject({r})|{got_s}"))
        }
        VExpect::Either(r) => Ok(format!("verify|{m}|undetermined({r})|{got_s}")),
        VExpect::Decided(Verdict::Ok) => {
            if !accepted {
                return Err((format!("verify:rejected-valid:{m}"), format!("MAC matches the RFC 8945 computation and the time is inside the window; quandary: {got:?}")));
            }
            Ok(format!("verify|{m}|Ok|Ok"))
        }
        VExpect::Decided(v) => {
            if accepted {
                return Err((format!("verify:accepted-invalid:{m}"), format!("oracle: {v:?}; quandary verified the message")));
            }
            // RFC 8945 §5.2 order of checks: MAC length, MAC, time.
            if let QVerdict::Verified(Err(e)) = &got {
                let same = matches!((v, e), (Verdict::FormErr, VerificationError::FormErr) | (Verdict::BadSig, VerificationError::BadSig) | (Verdict::BadTime, VerificationError::BadTime));
                if !same {
                    return Err((format!("verify:error-kind:{m}"), format!("oracle (RFC 8945 §5.2 order): {v:?}; quandary: {e:?}")));
                }
            }
            Ok(format!("verify|{m}|{v:?}|{got_s}"))
        }
    }
}

fn record_verify(l: &mut Local, sub: &str, bytes: &[u8], mode: &Mode, secret: &[u8], now: u64, desc: impl FnOnce() -> Value) {
    l.tick();
    match verify_one(bytes, mode, secret, now) {
        Ok(class) => l.outcome(&class.replacen("verify|", &format!("verify:{sub}|"), 1), || verify_case_json(bytes, mode, secret, now, desc())),
        Err((k, why)) => {
            let mut v = verify_case_json(bytes, mode, secret, now, desc());
            v.as_object_mut().unwrap().insert("why".into(), json!(why));
            l.outcome(&format!("VIOLATION:{k}"), || v.clone());
            l.violation(&k, v);
        }
    }
}

#[derive(Clone)]
struct VBase {
    script: usize,
    key_name: Vec<u8>,
    compress_owner: bool,
    mode: Mode,
    alg: Alg,
    secret: Vec<u8>,
}

fn vbase_json(b: &VBase) -> Value {
    json!({"script": script_name(b.script), "key_name": wire::name_text(&b.key_name), "owner_compressed": b.compress_owner, "mode": b.mode.name(), "alg": b.alg.text(), "secret_len": b.secret.len()})
}

/// Signs the TSIG-less message `twin` with the harness's own signer.
#[allow(clippy::too_many_arguments)]
fn ref_sign(b: &VBase, twin: &[u8], ts: u64, fudge: u16, orig_id: u16, error: u16, other: &[u8], mac_len: usize) -> Vec<u8> {
    // Owner presentation: key.t. may be written as "\x03key" + pointer to the
    // QNAME's final label "t" when the QNAME ends in it.
    let mut owner = b.key_name.clone();
    if b.compress_owner && twin.len() > 12 && u16::from_be_bytes([twin[4], twin[5]]) == 1 {
        if let Ok(d) = wire::decode_name(twin, 12, wire::PtrRule::BeforePointer) {
            if d.name.ends_with(&[1, b't', 0]) && d.pointers.is_empty() && b.key_name.ends_with(&[1, b't', 0]) {
                owner = b.key_name[..b.key_name.len() - 3].to_vec();
                owner.extend_from_slice(&wire::ptr(12 + d.name.len() - 3));
            }
        }
    }
    rm::append_tsig(twin, &b.mode, &owner, &b.key_name, b.alg, &b.alg.wire_name(), &b.secret, ts, fudge, orig_id, error, other, mac_len, None).0
}

fn verify_family(ctx: &Ctx) {
    let th = !ctx.quick();
    let key_lens: &[usize] = if th { &[1, 20, 32, 64, 65, 200] } else { &[1, 32, 65] };
    let mut bases = Vec::new();
    for script in 0..N_SCRIPTS {
        for (kn, comp) in [(wire::wname("k1."), false), (wire::wname("key.t."), true)] {
            for mode in [Mode::Request, Mode::Response(secret(16, 7)), Mode::Subsequent(secret(32, 8)), Mode::Response(vec![])] {
                for alg in [Alg::Sha1, Alg::Sha256] {
                    for &kl in key_lens {
                        bases.push(VBase { script, key_name: kn.clone(), compress_owner: comp, mode: mode.clone(), alg, secret: secret(kl, 31) });
                    }
                }
            }
        }
    }
    ctx.set_extra("verify_base_messages", json!(bases.len()));
    // (now, time signed, fudge)
    let mut times: Vec<(u64, u64, u16)> = Vec::new();
    for f in [0u16, 300, 65535] {
        for d in [-(f as i64) - 1, -(f as i64), 0, f as i64, f as i64 + 1] {
            times.push(((NOW0 as i64 + d) as u64, NOW0, f));
        }
    }
    times.extend_from_slice(&[(0, 0, 0), (0, 300, 300), (0, 301, 300), (T48_MAX, T48_MAX, 65535), (T48_MAX, T48_MAX - 65536, 65535), (T48_MAX - 300, T48_MAX, 300), (T48_MAX - 301, T48_MAX, 300), (0, 100, 300), (400, 100, 300), (401, 100, 300), (T48_MAX, T48_MAX - 100, 300)]);
    times.sort();
    times.dedup();
    let mut far_times: Vec<(u64, u64, u16)> = Vec::new();
    {
        let mut dists: Vec<u64> = Vec::new();
        for k in 8..48u32 {
            dists.push(1u64 << k);
            for j in [16u32, 31, 32, 33] {
                if j < k {
                    dists.push((1u64 << k) + (1u64 << j));
                }
            }
            dists.push((1u64 << k) * 3);
        }
        dists.push(1000u64 << 32);
        dists.push(65535u64 << 32);
        for f in [0u16, 300, 65535] {
            for &d in &dists {
                for off in [-(f as i64) - 1, -(f as i64), -1, 0, 1, (f as i64) / 2, f as i64, f as i64 + 1] {
                    let dist = d as i64 + off;
                    if dist < 0 || dist as u64 > T48_MAX {
                        continue;
                    }
                    let dist = dist as u64;
                    // now after / before the time signed, anchored at both
                    // ends of the range and at NOW0 where it fits.
                    far_times.push((dist, 0, f));
                    far_times.push((0, dist, f));
                    far_times.push((T48_MAX, T48_MAX - dist, f));
                    if NOW0 + dist <= T48_MAX {
                        far_times.push((NOW0 + dist, NOW0, f));
                        far_times.push((NOW0, NOW0 + dist, f));
                    }
                }
            }
        }
        far_times.sort();
        far_times.dedup();
    }
    ctx.set_extra("far_skew_triples", json!(far_times.len()));
    let eo: Vec<(u16, Vec<u8>)> = vec![(0, vec![]), (18, rm::time48(NOW0 + 5).to_vec()), (16, vec![]), (0, vec![1, 2, 3])];
    let masks: Vec<u8> = if th { vec![0x01, 0x02, 0x04, 0x08, 0x10, 0x20, 0x40, 0x80, 0xff] } else { vec![0x01, 0x20, 0x80, 0xff] };
    let flip_nows: Vec<u64> = if th { vec![NOW0, NOW0 + 300, NOW0 + 301] } else { vec![NOW0] };
    ctx.par_for_each(&bases, |l, b| {
        let twin = match build(b.script, 0x4321, 65535, None) {
            Ok((m, _)) => m,
            Err(e) => panic!("script {} fails: {e}", b.script),
        };
        let full = b.alg.mac_len();
        // (a) every MAC length x window edges x error/other-data.
        for &(now, ts, fudge) in &times {
            for (error, other) in &eo {
                for mac_len in 0..=full + 1 {
                    let msg = ref_sign(b, &twin, ts, fudge, 0x4321, *error, other, mac_len);
                    record_verify(l, "truncation-window", &msg, &b.mode, &b.secret, now, || json!({"sub": "truncation-window", "base": vbase_json(b), "time_signed": ts, "fudge": fudge, "error": error, "other": hex(other), "mac_len": mac_len}));
                }
            }
        }
        // (a') far skews: |now - time signed| at every power of two of the
        // 48-bit range (and sums of two of them), +- the fudge and +- 1, in
        // both directions — the window test at every width the difference
        // can be computed in.
        // (Quick tier: on the bases of the first two scripts only; the window
        // test does not look at the message.)
        for &(now, ts, fudge) in far_times.iter().filter(|_| th || b.script < 2) {
            let msg = ref_sign(b, &twin, ts, fudge, 0x4321, 0, &[], full);
            record_verify(l, "far-skew", &msg, &b.mode, &b.secret, now, || json!({"sub": "far-skew", "base": vbase_json(b), "time_signed": ts, "fudge": fudge}));
        }
        // (b) wrong key, wrong prior MAC.
        let msg = ref_sign(b, &twin, NOW0, 300, 0x4321, 0, &[], full);
        let mut wrong = b.secret.clone();
        wrong[0] ^= 1;
        record_verify(l, "wrong-key", &msg, &b.mode, &wrong, NOW0, || json!({"sub": "wrong-key", "base": vbase_json(b)}));
        let mut longer = b.secret.clone();
        longer.push(0);
        if b.secret.len() >= 64 {
            // Below the block size a trailing zero octet is the same HMAC key.
            record_verify(l, "wrong-key-longer", &msg, &b.mode, &longer, NOW0, || json!({"sub": "wrong-key-longer", "base": vbase_json(b)}));
        }
        match &b.mode {
            Mode::Request => {}
            Mode::Response(p) | Mode::Subsequent(p) => {
                let mut alts: Vec<Vec<u8>> = vec![];
                if !p.is_empty() {
                    let mut x = p.clone();
                    x[0] ^= 0x80;
                    alts.push(x);
                    alts.push(p[..p.len() - 1].to_vec());
                    alts.push(vec![]);
                }
                let mut y = p.clone();
                y.push(0);
                alts.push(y);
                for a in alts {
                    let m2 = match &b.mode {
                        Mode::Response(_) => Mode::Response(a),
                        _ => Mode::Subsequent(a),
                    };
                    record_verify(l, "wrong-prior-mac", &msg, &m2, &b.secret, NOW0, || json!({"sub": "wrong-prior-mac", "base": vbase_json(b)}));
                }
                // A response verified as a subsequent message and vice versa
                // (different digest composition: variables vs. timers only).
                let swapped = match &b.mode {
                    Mode::Response(p) => Mode::Subsequent(p.clone()),
                    Mode::Subsequent(p) => Mode::Response(p.clone()),
                    Mode::Request => unreachable!(),
                };
                record_verify(l, "mode-swapped", &msg, &swapped, &b.secret, NOW0, || json!({"sub": "mode-swapped", "base": vbase_json(b)}));
                record_verify(l, "verified-as-request", &msg, &Mode::Request, &b.secret, NOW0, || json!({"sub": "verified-as-request", "base": vbase_json(b)}));
            }
        }
        // (c) every single-octet corruption, original ID != message ID so
        // that the message ID itself is not covered.
        for (full_mac, orig) in [(true, 0x9999u16), (false, 0x4321)] {
            if !th && !full_mac && b.script == 8 {
                continue;
            }
            let mac_len = if full_mac { full } else { std::cmp::max(10, full / 2) };
            let msg = ref_sign(b, &twin, NOW0, 300, orig, 0, &[], mac_len);
            record_verify(l, "flip-base", &msg, &b.mode, &b.secret, NOW0, || json!({"sub": "flip-base", "base": vbase_json(b)}));
            for pos in 0..msg.len() {
                if large_script(b.script) && pos >= 40 && pos + 8 < twin.len() && pos % 61 != 0 {
                    continue;
                }
                for &mask in &masks {
                    let mut tm = msg.clone();
                    tm[pos] ^= mask;
                    for &now in &flip_nows {
                        record_verify(l, "flip", &tm, &b.mode, &b.secret, now, || json!({"sub": "flip", "base": vbase_json(b), "position": pos, "xor": mask, "covered_len": twin.len()}));
                    }
                }
            }
        }
    });
}

pub fn run(ctx: Ctx) -> ! {
    rm::self_test();
    if let Some(case) = ctx.replay_case() {
        let case = case.clone();
        let mut l = ctx.local();
        l.tick();
        if case["family"].as_str() == Some("clock") {
            // the clock family is tiny: replaying it means running it
            drop(l);
            clock_family(&ctx);
            finish(ctx);
        } else if case["family"].as_str() == Some("sign") {
            let sc = SignCase::from_json(&case);
            match sign_one(&sc) {
                Ok(class) => {
                    eprintln!("replay: no violation; class {class}");
                    l.outcome(&class, || case.clone());
                }
                Err((k, why)) => {
                    eprintln!("replay: VIOLATED {k}: {why}");
                    l.violation(&k, case.clone());
                }
            }
        } else {
            let bytes = unhex(case["message"].as_str().expect("replay case needs `message`"));
            let prior = unhex(case["prior_mac"].as_str().unwrap_or(""));
            let mode = match case["mode"].as_str().unwrap_or("request") {
                "response" => Mode::Response(prior),
                "subsequent" => Mode::Subsequent(prior),
                _ => Mode::Request,
            };
            let sec = unhex(case["secret"].as_str().unwrap_or(""));
            let now = case["now"].as_u64().unwrap_or(NOW0);
            eprintln!("replay: oracle {:?}; quandary {:?}", v_expect(&bytes, &mode, &sec, now), q_verify(&bytes, &mode, &sec, now));
            match verify_one(&bytes, &mode, &sec, now) {
                Ok(class) => {
                    eprintln!("replay: no violation; class {class}");
                    l.outcome(&class, || case.clone());
                }
                Err((k, why)) => {
                    eprintln!("replay: VIOLATED {k}: {why}");
                    l.violation(&k, case.clone());
                }
            }
        }
        drop(l);
        finish(ctx);
    }
    sign_family(&ctx);
    verify_family(&ctx);
    clock_family(&ctx);
    finish(ctx)
}

/// How the system clock reaches `verify_*`: `TimeSigned::try_from(SystemTime)`.
/// A clock reading of s seconds and n nanoseconds is second s (the window
/// test of RFC 8945 counts whole seconds); readings before the epoch or at
/// 2^48 s and beyond are unrepresentable. Whole seconds across the 48-bit
/// range x sub-second parts from 0 to 999 999 999 ns.
fn clock_family(ctx: &Ctx) {
    use std::time::{Duration, SystemTime};
    let mut l = ctx.local();
    let mut secs: Vec<u64> = vec![0, 1, 59, NOW0 - 301, NOW0 - 300, NOW0, NOW0 + 300, NOW0 + 301, 1_670_000_000, 1_999_999_999, 2_000_000_000, T48_MAX - 1, T48_MAX];
    for k in 8..48u32 {
        secs.push((1u64 << k) - 1);
        secs.push(1u64 << k);
    }
    let nanos: [u32; 14] = [0, 1, 999, 1_000_000, 499_999_999, 500_000_000, 500_000_001, 900_000_000, 999_000_000, 999_999_000, 999_999_880, 999_999_900, 999_999_998, 999_999_999];
    for &s in &secs {
        for &n in &nanos {
            l.tick();
            let Some(t) = SystemTime::UNIX_EPOCH.checked_add(Duration::new(s, n)) else { continue };
            match TimeSigned::try_from(t) {
                Ok(ts) if ts.to_unix_time() == s => {}
                other => l.violation("clock-conversion", json!({"family": "clock", "seconds": s, "nanos": n, "converted": other.ok().map(|t| t.to_unix_time())})),
            }
        }
    }
    l.outcome("clock|converted", || json!({"family": "clock", "seconds": secs.len(), "sub_second_parts": nanos.len()}));
    for (s, n) in [(T48_MAX + 1, 0u32), (T48_MAX + 1, 999_999_999), (1u64 << 50, 0)] {
        l.tick();
        if let Some(t) = SystemTime::UNIX_EPOCH.checked_add(Duration::new(s, n)) {
            if let Ok(ts) = TimeSigned::try_from(t) {
                l.violation("clock-conversion-out-of-range", json!({"family": "clock", "seconds": s, "nanos": n, "converted": ts.to_unix_time()}));
            }
        }
    }
    for d in [Duration::new(0, 1), Duration::new(1, 0), Duration::new(1 << 40, 5)] {
        l.tick();
        if let Some(t) = SystemTime::UNIX_EPOCH.checked_sub(d) {
            if let Ok(ts) = TimeSigned::try_from(t) {
                l.violation("clock-conversion-out-of-range", json!({"family": "clock", "before_epoch_by": format!("{d:?}"), "converted": ts.to_unix_time()}));
            }
        }
    }
    l.outcome("clock|unrepresentable-rejected", || json!({"family": "clock"}));
}

fn finish(ctx: Ctx) -> ! {
    ctx.assume("qvlib::reftsig SHA-1/SHA-256/HMAC (FIPS 180 / RFC 2202 / RFC 4231 vectors) and the RFC 8945 digest composition of the reference, checked at start-up against a BIND 9 request/response/subsequent triple; qvlib::wire decoder");
    ctx.assume("verification is driven the way a client would: Reader walks to the last record, ReadTsigRr::try_from, algorithm chosen by the RR's algorithm name");
    ctx.assume("oracle decisions: accept iff MAC length allowed (RFC 8945 §5.2.2.1) and MAC equals the prefix of the reference MAC and |now - time signed| <= fudge; error kind follows the RFC order length > MAC > time; a TSIG RR with CLASS != ANY or TTL != 0 whose MAC matches is undetermined");
    ctx.finish(
        "exploration",
        "sign: {11 Writer scripts (no question, EDNS, compression off / case-preserving, 255-octet QNAME, 1.7 kB answer, ...)} x {3 key names incl. one compressible against the QNAME and a 255-octet one} x {Request, Response, Subsequent x 4 prior MACs, Unsigned x known/unknown algorithm} x {SHA-1, SHA-256} x {key lengths around the HMAC block size} x {original ID = / != ID} x {error 0,16,17,18} x {3 time/fudge/server-time triples incl. range ends} x {limit 65535, 512}: output decoded independently, TSIG RDATA fields and MAC compared with the harness's RFC 8945 section 4.3 computation, prefix compared with the TSIG-less message. verify: reference-signed messages over the same scripts x modes x algorithms x keys, with EVERY MAC length 0..full+1 x window-edge (now, time signed, fudge) triples x error/other-data variants, far skews (every power of two of the 48-bit range and sums with 2^16/2^31/2^32/2^33, +- fudge, +- 1, both directions, anchored at 0, 2^48-1 and a present-day time), wrong key / prior MAC / mode, and EVERY single-octet XOR corruption (4 masks quick; 8 single bits + 0xff thorough) of the whole message incl. TSIG RR; the clock conversion TimeSigned::try_from(SystemTime) over whole seconds across the 48-bit range x 14 sub-second parts (second s, n ns => s); verdict of ReadTsigRr::verify_* compared with an oracle that re-derives accept/reject and the error kind from the octets",
        true,
    )
}
