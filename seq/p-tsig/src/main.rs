//! p-tsig: bounded-exhaustive checks for the TSIG properties.
//!   C10 — TSIG-signed requests are authenticated before being answered (server level)
//!   C11 — TSIG MACs match RFC 8945 and detect tampering (library level)
//! Usage: p-tsig <C10|C11> <quick|thorough> [--replay FILE]

mod c10;
mod c11;
mod refmodel;

fn main() {
    let ctx = qvlib::Ctx::from_args(&["C10", "C11"]);
    match ctx.id.as_str() {
        "C10" => c10::run(ctx),
        "C11" => c11::run(ctx),
        _ => unreachable!(),
    }
}
