//! p-server: bounded-exhaustive checks of the server-level properties
//! C01 (no panic), C02 (well-formed responses), C03 (header/question echo),
//! C04 (size limits and truncation).
//!
//!     p-server <ID> <quick|thorough> [--replay FILE]

mod c01;
mod c02;
mod c03;
mod c04;
mod common;
mod drive;
mod families;
mod refmodel;
mod zones;

fn main() {
    let ctx = qvlib::Ctx::from_args(&["C01", "C02", "C03", "C04"]);
    qvlib::reftsig::self_test();
    match ctx.id.as_str() {
        "C01" => c01::run(ctx),
        "C02" => c02::run(ctx),
        "C03" => c03::run(ctx),
        "C04" => c04::run(ctx),
        _ => unreachable!(),
    }
}
