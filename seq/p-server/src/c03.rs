//! C03 — responses echo the request header and question.
//!
//! Space:
//!   flags : all 65 536 values of header octets 2-3 x ID in {0, 0x1234,
//!           0xffff} x message bodies (QDCOUNT 0 / 1 / 2; question valid
//!           mixed-case in-zone, valid out-of-zone, 255-octet QNAME,
//!           QNAME compressed through a pointer into the header, several
//!           unparseable questions, question absent; with and without OPT,
//!           trailing junk, extra records) x {UDP, TCP};
//!   short : every prefix of 0..11 octets of those messages;
//!   trunc / mut: the truncation and mutation families of C01 (mixed-case
//!           QNAMEs, EDNS, TSIG, every opcode) on servers without RRL and, on
//!           the std catalog, with RRL (slip 0 and slip 1; each request sent
//!           twice to a fresh server).
//! Oracle (closed formula from the statement, `refmodel::c03_check`): no
//! response for < 12 octets, QR set, QDCOUNT > 1; otherwise a response has
//! the request's ID and opcode, QR = 1, RD = request RD iff opcode QUERY,
//! RA = 0, reserved bits = 0; with exactly one parseable question the
//! question section repeats it octet for octet (decompressed and
//! case-preserved if the request's QNAME was compressed); with QDCOUNT = 0
//! the response has no question.

use qvlib::qd::Tp;
use qvlib::wire::{c, t, wname, wname_from_labels, MsgBuilder};
use qvlib::{json, Ctx, Local};

use crate::c01::replay;
use crate::common::{show, thread_init, with_detail, Cfg, Slot, World};
use crate::drive::{self, Case, Results, TPS};
use crate::families;
use crate::refmodel::c03_check;

pub fn verdict(l: &mut Local, c: &Case, results: &Results) {
    for (rep, r) in results.iter().enumerate() {
        let class = match r {
            Err(p) => {
                // No response is emitted, so nothing can be mis-echoed; still a
                // defect (C01's), reported here too because the formula cannot
                // be evaluated.
                let case = with_detail(c.slot.case("C03", c.family, &(c.desc)(), c.tp, c.req), json!({"repetition": rep, "result": show(r)}));
                l.violation(&qvlib::panic_key(p), case);
                "panic".to_string()
            }
            Ok(got) => match c03_check(c.req, got) {
                Ok(class) => class,
                Err((key, why)) => {
                    let case = with_detail(c.slot.case("C03", c.family, &(c.desc)(), c.tp, c.req), json!({"repetition": rep, "why": why, "result": show(r)}));
                    l.violation(&key, case);
                    format!("VIOLATION:{key}")
                }
            },
        };
        l.outcome(&format!("{}|{}", c.family, class), || c.slot.case("C03", c.family, &(c.desc)(), c.tp, c.req));
    }
}

/// Message bodies (everything after the flags word is fixed per body; the ID
/// and flags are overwritten by the enumeration).
pub fn bodies() -> Vec<(&'static str, Vec<u8>)> {
    let l63 = vec![b'X'; 63];
    let n255 = wname_from_labels(&[&l63[..], &l63[..], &l63[..], &vec![b'y'; 59][..], b"T"]);
    assert_eq!(n255.len(), 255);
    let q = |n: &[u8]| MsgBuilder::query(0).question(n, t::A, c::IN);
    let mut v: Vec<(&'static str, Vec<u8>)> = vec![
        ("qd0", MsgBuilder::query(0).build()),
        ("qd0+junk-question", MsgBuilder::query(0).raw(&wname("a.t.")).raw(&[0, 1, 0, 1]).build()),
        ("qd1-mixedcase-inzone", q(&wname("A.t.")).build()),
        ("qd1-mixedcase-MX", MsgBuilder::query(0).question(&wname("T."), t::MX, c::IN).build()),
        ("qd1-outofzone", q(&wname("wWw.ExAmPlE.")).build()),
        ("qd1-root-any-ch", MsgBuilder::query(0).question(&[0], t::ANY, c::CH).build()),
        ("qd1-255", q(&n255).build()),
        ("qd1+opt-do", q(&wname("a.T.")).opt(1232, 0, 0, 0x8000, &[]).build()),
        ("qd1+opt-badvers", q(&wname("a.T.")).opt(1232, 0, 1, 0, &[]).build()),
        ("qd1+junk", q(&wname("a.T.")).raw(&[0xff]).build()),
        ("qd1+records", q(&wname("a.T.")).rr(1, &wname("a.t."), t::A, c::IN, 1, &[1, 2, 3, 4]).rr(2, &wname("t."), t::NS, c::IN, 1, &wname("ns.t.")).build()),
        // QNAME = label "q" + pointer to offset 10: ARCOUNT = 0 there, i.e. a
        // root label inside the header (strictly backwards).
        ("qd1-compressed-into-header", MsgBuilder::query(0).raw(&[1, b'q', 0xc0, 10]).raw(&[0, 1, 0, 1]).counts(1, 0, 0, 0).build()),
        // QNAME = bare pointer to offset 10 (root).
        ("qd1-pointer-only", MsgBuilder::query(0).raw(&[0xc0, 10]).raw(&[0, 1, 0, 1]).counts(1, 0, 0, 0).build()),
        ("qd1-absent", MsgBuilder::query(0).counts(1, 0, 0, 0).build()),
        ("qd1-label-0x40", MsgBuilder::query(0).raw(&[0x40, b'a', 0]).raw(&[0, 1, 0, 1]).counts(1, 0, 0, 0).build()),
        ("qd1-name-cut", MsgBuilder::query(0).raw(&[3, b'a', b'b']).counts(1, 0, 0, 0).build()),
        ("qd1-fixed-cut", MsgBuilder::query(0).raw(&wname("a.t.")).raw(&[0, 1, 0]).counts(1, 0, 0, 0).build()),
        ("qd1-pointer-forward", MsgBuilder::query(0).raw(&[0xc0, 14, 1, b'a', 0]).raw(&[0, 1, 0, 1]).counts(1, 0, 0, 0).build()),
        ("qd1-pointer-self", MsgBuilder::query(0).raw(&[0xc0, 12]).raw(&[0, 1, 0, 1]).counts(1, 0, 0, 0).build()),
        ("qd2", q(&wname("a.t.")).question(&wname("b.t."), t::A, c::IN).build()),
        ("qd2-absent", MsgBuilder::query(0).counts(2, 0, 0, 0).build()),
        ("qd65535", q(&wname("a.t.")).counts(0xffff, 0, 0, 0).build()),
    ];
    // 256-octet QNAME (one octet too long)
    let mut n256 = wname_from_labels(&[&l63[..], &l63[..], &l63[..], &vec![b'y'; 60][..], b"T"]);
    assert_eq!(n256.len(), 256);
    n256.extend_from_slice(&[0, 1, 0, 1]);
    v.push(("qd1-256", MsgBuilder::query(0).raw(&n256).counts(1, 0, 0, 0).build()));
    v
}

const IDS: [u16; 3] = [0, 0x1234, 0xffff];

pub fn run(ctx: Ctx) -> ! {
    let world = World::new(vec![]);
    if let Some(case) = ctx.replay_case() {
        if case["family"].as_str() == Some("oversize-answers") {
            let (w4, _) = crate::c04::world_for(4);
            replay(ctx, &w4, verdict, RULE);
        }
        replay(ctx, &world, verdict, RULE);
    }
    // Servers without RRL (a rate-limited response is legitimately missing
    // or truncated; C03 is about what a response looks like).
    let flag_slots = vec![Slot::new(&world, "std", Cfg::plain(1232, true)), Slot::new(&world, "empty", Cfg::plain(512, false))];
    let bodies = bodies();
    ctx.set_extra("bodies", json!(bodies.iter().map(|b| b.0).collect::<Vec<_>>()));
    ctx.set_extra("ids", json!(IDS));
    ctx.set_extra("flag_words", json!(65536));
    // items: (slot, body, id, high octet of the flags word)
    let mut items: Vec<(usize, usize, u16, u8)> = Vec::new();
    for s in 0..flag_slots.len() {
        for b in 0..bodies.len() {
            for id in IDS {
                for hi in 0..=255u8 {
                    items.push((s, b, id, hi));
                }
            }
        }
    }
    drive::rotate(&mut items, ctx.seed);
    ctx.par_for_each(&items, |l, (s, b, id, hi)| {
        thread_init();
        let slot = &flag_slots[*s];
        let (bname, body) = &bodies[*b];
        let mut msg = body.clone();
        msg[0..2].copy_from_slice(&id.to_be_bytes());
        msg[2] = *hi;
        for lo in 0..=255u8 {
            msg[3] = lo;
            for tp in TPS {
                let results = slot.exchange(&world, &msg, tp);
                l.tick();
                verdict(l, &Case { slot, tp, family: "flags", desc: &|| format!("{bname} id={id:#06x} flags={:#06x}", u16::from_be_bytes([*hi, lo])), req: &msg }, &results);
            }
        }
    });
    eprintln!("[C03] flags done at {:.1}s ({} calls)", ctx.elapsed_s(), ctx.evaluations());
    // every prefix shorter than a header, for three flag words
    {
        let mut l = ctx.local();
        thread_init();
        for (bname, body) in &bodies {
            for flags in [0x0000u16, 0x0100, 0x7fff] {
                let mut msg = body.clone();
                msg[0..2].copy_from_slice(&0x1234u16.to_be_bytes());
                msg[2..4].copy_from_slice(&flags.to_be_bytes());
                for n in 0..12 {
                    for tp in TPS {
                        let slot = &flag_slots[0];
                        let results = slot.exchange(&world, &msg[..n], tp);
                        l.tick();
                        verdict(&mut l, &Case { slot, tp, family: "short", desc: &|| format!("{bname}[..{n}]"), req: &msg[..n] }, &results);
                    }
                }
            }
        }
    }
    // template families on every catalog (RRL-free configurations)
    let templates = qvlib::templates::requests();
    let trunc = families::truncations(&templates);
    let muts = families::mutations(&templates);
    let mut slots = Vec::new();
    for cat in world.cat_names() {
        for cfg in [Cfg::plain(1232, false), Cfg::plain(512, false), Cfg::plain(65535, true), Cfg::plain(1232, true)] {
            slots.push(Slot::new(&world, &cat, cfg));
        }
    }
    // ... and, on the std catalog, the two rate-limiting configurations (every
    // request is sent twice to a fresh server; the second, limited response
    // may be missing or slipped, which the formula allows: it prescribes what
    // a response looks like and when there must be none).
    for cfg in crate::common::all_cfgs().into_iter().filter(|c| c.rrl.is_some()) {
        slots.push(Slot::new(&world, "std", cfg));
    }
    drive::run_reqs(&ctx, &world, &slots, &trunc, false, verdict);
    drive::run_reqs(&ctx, &world, &slots, &muts, false, verdict);
    // TSIG-signed templates relayed under another ID: the header ID is
    // rewritten after signing (a forwarder does that, RFC 8945 5.5; the MAC
    // covers the TSIG original ID and still verifies) - the response must
    // carry the header ID of the message as received.
    let mut relayed = Vec::new();
    for t in templates.iter().filter(|t| t.tsig.is_some()) {
        let orig = u16::from_be_bytes([t.bytes[0], t.bytes[1]]);
        for id in [0u16, 1, orig ^ 0x0100, orig.wrapping_add(1), 0xffff] {
            if id == orig {
                continue;
            }
            let mut b = t.bytes.clone();
            b[0..2].copy_from_slice(&id.to_be_bytes());
            relayed.push(families::Req { family: "relayed-tsig", desc: format!("{} with header ID {id:#06x} (TSIG original ID {orig:#06x})", t.name), bytes: b });
        }
    }
    ctx.set_extra("family_relayed_tsig_requests", json!(relayed.len()));
    drive::run_reqs(&ctx, &world, &slots, &relayed, false, verdict);
    // Answers that do not fit the transport: queries against C04's size-sweep
    // zone for RRsets that exceed 512 octets and 65 535 octets (truncation
    // over UDP, the SERVFAIL fallback over TCP), with RD clear and set.
    {
        let (w4, queries) = crate::c04::world_for(4);
        let mut big = Vec::new();
        let pick = queries.iter().filter(|q| q.scenario == "oversize").chain(queries.iter().filter(|q| q.scenario == "txt" && q.upper_bound > 4000).take(30));
        for q in pick {
            for flags in [0x0000u16, 0x0100] {
                for deco in [crate::zones::Deco::Plain, crate::zones::Deco::Edns { size: 4096, dnssec_ok: false }] {
                    big.push(families::Req {
                        family: "oversize-answers",
                        desc: format!("{} {} type{} flags={flags:#06x} {:?}", q.scenario, qvlib::wire::name_text(&q.qname), q.qtype, deco),
                        bytes: crate::zones::build_query(0x0303, flags, &q.qname, q.qtype, c::IN, deco),
                    });
                }
            }
        }
        let slots4 = vec![Slot::new(&w4, "c04", Cfg::plain(4096, true))];
        ctx.set_extra("family_oversize_answers_requests", json!(big.len()));
        drive::run_reqs(&ctx, &w4, &slots4, &big, false, verdict);
    }
    if !ctx.quick() {
        drive::run_reqs(&ctx, &world, &slots, &muts, true, verdict);
        let pair_slots = vec![Slot::new(&world, "std", Cfg::plain(1232, true))];
        drive::run_double_mutations(&ctx, &world, &pair_slots, &templates, verdict);
    }
    let _ = Tp::Udp;
    ctx.assume("the statement prescribes what a response looks like, not that one is sent: a missing response to an answerable request is counted in outcome class 'none:unprescribed', not flagged");
    ctx.assume("QNAMEs compressed through a pointer into the header are compared after decompression; where the two pointer rules (before the pointer / before the chunk) disagree on parseability either behaviour is accepted");
    ctx.finish("exploration", RULE, true)
}

const RULE: &str = "all 65536 flag words x 3 IDs x message bodies (QDCOUNT 0/1/2/65535, valid mixed-case / compressed / unparseable / absent question, with OPT, junk, records) x transports x 2 servers; every header prefix < 12 octets; every truncation and single mutation of every request template (and every TSIG-signed template under 5 other header IDs) x RRL-free configurations x catalogs (+ both rate-limiting configurations on the std catalog, each request sent twice) (thorough: x every truncation, mutation pairs); oracle: closed formula of the statement (ID, opcode, QR, RD only for QUERY, RA = 0, Z = 0, question echoed octet for octet, no response for QR / short / QDCOUNT > 1)";
