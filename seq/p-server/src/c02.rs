//! C02 — every response is a well-formed DNS message.
//!
//! Space: the truncation and mutation families of C01 (thorough: also
//! mutation x truncation and mutation pairs) plus a query universe derived
//! from zone contents (every name near the zone data x QTYPEs x QCLASSes x
//! {plain, EDNS, TSIG, EDNS+TSIG}); x {UDP, TCP} x 6 server configurations x
//! catalogs with valid RDATA (the fixture catalogs except "malformed", the
//! std zone in a SingleZoneCatalog, and two generated zones: `deep.` with
//! names at the 63/255 limits and every known RDATA type, `big.` with
//! RRsets that push names beyond offset 0x3fff, `wide.` with delegations /
//! MX / SRV RRsets of every size 1..=20 and 40 with glue, `straddle.` with
//! RRsets of sibling-pair names whose fresh labels land on either side of
//! offset 0x4000 at each of 40 one-octet alignments).
//! Oracle: qvlib::wire::decode_message in strict mode (exact consumption,
//! counts = records present, labels <= 63, names <= 255, every pointer
//! backwards onto the start of a label of an earlier name, exact RDLENGTHs,
//! well-formed RDATA of known types) + at most one OPT, only in the
//! additional section + TSIG at most once and last.

use qvlib::wire::{c, t};
use qvlib::{json, Ctx, Local};

use crate::c01::replay;
use crate::common::{all_cfgs, show, with_detail, Slot, World};
use crate::drive::{self, Case, Results};
use crate::families;
use crate::refmodel::check_wellformed;
use crate::zones;

pub fn verdict(l: &mut Local, c: &Case, results: &Results) {
    for (rep, r) in results.iter().enumerate() {
        let class = match r {
            // A panic emits no response; it is C01's finding, not C02's.
            Err(_) => "panic(see C01)".to_string(),
            Ok(None) => "none".to_string(),
            Ok(Some(b)) => match check_wellformed(b) {
                Ok(m) => format!(
                    "rcode={},tc={},an={},ns={},ar={},opt={},tsig={},ptrs={}",
                    m.header.rcode,
                    m.header.tc as u8,
                    bucket(m.answers.len()),
                    bucket(m.authority.len()),
                    bucket(m.additional_data().len()),
                    m.opt().is_some() as u8,
                    m.tsig().is_some() as u8,
                    if m.pointers.is_empty() { "0" } else { "1+" },
                ),
                Err((key, why)) => {
                    let case = with_detail(c.slot.case("C02", c.family, &(c.desc)(), c.tp, c.req), json!({"repetition": rep, "why": why, "result": show(r)}));
                    l.violation(&key, case);
                    format!("MALFORMED:{key}")
                }
            },
        };
        l.outcome(&format!("{}|{}|{}", c.family, c.tp.name(), class), || c.slot.case("C02", c.family, &(c.desc)(), c.tp, c.req));
    }
}

/// The requests of `reqs` in stretches of 256, each stretch handled in order
/// (UDP then TCP per request) by one thread on a response buffer that is not
/// restored between the calls (`qd::dirty_begin`), on every slot without RRL.
fn run_reusing_buffer(ctx: &Ctx, world: &World, slots: &[Slot], gname: &str, reqs: &[families::Req]) {
    let mut items: Vec<(usize, usize)> = Vec::new();
    for s in 0..slots.len() {
        let mut i = 0;
        while i < reqs.len() {
            items.push((s, i));
            i += STRETCH;
        }
    }
    ctx.par_for_each(&items, |l, (s, start)| {
        crate::common::thread_init();
        let slot = &slots[*s];
        qvlib::qd::dirty_begin();
        for (k, r) in reqs[*start..(*start + STRETCH).min(reqs.len())].iter().enumerate() {
            for tp in drive::TPS {
                let results = slot.exchange(world, &r.bytes, tp);
                l.tick_n(results.len() as u64);
                verdict(l, &Case { slot, tp, family: "query/reused-buffer", desc: &|| format!("{} | stretch {gname} {start} {k}", r.desc), req: &r.bytes }, &results);
            }
        }
        qvlib::qd::dirty_end();
    });
}

const STRETCH: usize = 256;

/// The request lists of the reused-buffer regime, by name (replay rebuilds
/// the stretch from it).
fn reuse_universe(gname: &str, quick: bool) -> Vec<families::Req> {
    let qtypes: &[u16] = if quick { &zones::QTYPES_QUICK } else { &zones::QTYPES_THOROUGH };
    let decos = [zones::Deco::Plain, zones::Deco::Tsig { key: 1 }];
    match gname {
        "std" => zones::query_universe(&zones::name_universe(&std_recs_with_extras()), qtypes, &[c::IN], &decos),
        "deep" => zones::query_universe(&zones::name_universe(&zones::deep_zone_recs()), qtypes, &[c::IN], &decos),
        "big" => zones::query_universe(&big_names(), qtypes, &[c::IN], &decos),
        other => zones::large_universes().into_iter().find(|(n, _)| *n == other).map(|(_, r)| r).unwrap_or_default(),
    }
}

/// Replay of a reused-buffer case: the stretch is re-run from its start on a
/// freshly poisoned buffer up to and including the recorded request.
fn replay_reused(ctx: Ctx, world: &World) -> ! {
    crate::common::thread_init();
    let case = ctx.replay_case().unwrap().clone();
    let ci = crate::common::parse_case(&case);
    let tail = ci.desc.rsplit_once(" | stretch ").map(|(_, t)| t.to_string()).unwrap_or_default();
    let parts: Vec<&str> = tail.split(' ').collect();
    let (gname, start, k) = (parts[0], parts[1].parse::<usize>().expect("stretch start"), parts[2].parse::<usize>().expect("stretch index"));
    let slot = Slot::new(world, &ci.cat, ci.cfg);
    let mut found = false;
    for quick in [true, false] {
        let reqs = reuse_universe(gname, quick);
        if reqs.get(start + k).map(|r| r.bytes == ci.req) != Some(true) {
            continue;
        }
        found = true;
        qvlib::qd::dirty_begin();
        let mut l = ctx.local();
        for (j, r) in reqs[start..=start + k].iter().enumerate() {
            for tp in drive::TPS {
                let results = slot.exchange(world, &r.bytes, tp);
                if j == k && tp == ci.tp {
                    println!("replay: stretch {gname} from {start}, request {k}: {}", r.desc);
                    for (i, x) in results.iter().enumerate() {
                        println!("result[{i}]: {}", show(x));
                    }
                    l.tick();
                    let desc = ci.desc.clone();
                    verdict(&mut l, &Case { slot: &slot, tp, family: "query/reused-buffer", desc: &|| desc.clone(), req: &r.bytes }, &results);
                }
            }
        }
        drop(l);
        qvlib::qd::dirty_end();
        break;
    }
    if !found {
        eprintln!("MACHINERY: the recorded request is not at position {start}+{k} of universe {gname}");
        std::process::exit(2);
    }
    println!("replay verdict: {}", if ctx.violation_count() > 0 { "VIOLATION reproduced" } else { "no violation" });
    ctx.finish("exploration", RULE, false)
}

fn std_recs_with_extras() -> Vec<qvlib::qd::Rec> {
    let mut std_recs = qvlib::fixtures::std_zone_recs();
    // names of the other fixture zones (CH zone, failed+child)
    std_recs.push(qvlib::qd::Rec::new(&qvlib::wire::wname("host.t."), t::A, c::IN, 1, &[1, 2, 3, 4]));
    std_recs
}

/// The big zone has thousands of similar owners: the apex, the three big
/// owners, the first and last member of each series, names below the cut and
/// a missing name.
fn big_names() -> Vec<Vec<u8>> {
    ["big.", "x.big.", "X.Big.", "y.big.", "z.big.", "a.z.big.", "n0000.z.big.", "n0899.z.big.", "h0000.y.big.", "h1099.y.big.", "m1.big.", "ns.big.", "nx.big.", "q.x.big."]
        .iter()
        .map(|n| qvlib::wire::wname(n))
        .collect()
}

fn bucket(n: usize) -> &'static str {
    match n {
        0 => "0",
        1 => "1",
        _ => "2+",
    }
}

pub fn world(quick: bool) -> World {
    let _ = quick;
    World::new(vec![
        ("deep".to_string(), zones::catalog_from(vec![("deep.", zones::deep_zone_recs())])),
        ("big".to_string(), zones::catalog_from(vec![("big.", zones::big_zone_recs(1))])),
    ]
    .into_iter()
    .chain(zones::large_catalogs())
    .collect())
}

pub fn run(ctx: Ctx) -> ! {
    let world = world(ctx.quick());
    if let Some(case) = ctx.replay_case() {
        if case["family"].as_str() == Some("size-sweep-zone") {
            let (w4, _) = crate::c04::world_for(4);
            replay(ctx, &w4, verdict, RULE);
        }
        if case["family"].as_str() == Some("query/reused-buffer") {
            replay_reused(ctx, &world);
        }
        replay(ctx, &world, verdict, RULE);
    }
    let cfgs = all_cfgs();
    let templates = qvlib::templates::requests();
    let cats: Vec<String> = world.cat_names().into_iter().filter(|n| n != "malformed").collect();
    let slots_of = |names: &[&str]| -> Vec<Slot> {
        let mut v = Vec::new();
        for cat in names {
            for cfg in &cfgs {
                v.push(Slot::new(&world, cat, *cfg));
            }
        }
        v
    };
    let all: Vec<&str> = cats.iter().map(|s| s.as_str()).collect();
    let slots = slots_of(&all);
    let trunc = families::truncations(&templates);
    let muts = families::mutations(&templates);
    ctx.set_extra("catalogs", json!(cats));
    ctx.set_extra("family_trunc_requests", json!(trunc.len()));
    ctx.set_extra("family_mut_requests", json!(muts.len()));
    drive::run_reqs(&ctx, &world, &slots, &trunc, false, verdict);
    drive::run_reqs(&ctx, &world, &slots, &muts, false, verdict);
    eprintln!("[C02] trunc+mut done at {:.1}s ({} calls)", ctx.elapsed_s(), ctx.evaluations());

    // Query universes, one per zone family.
    let qtypes: &[u16] = if ctx.quick() { &zones::QTYPES_QUICK } else { &zones::QTYPES_THOROUGH };
    let qclasses: &[u16] = if ctx.quick() { &[c::IN, c::CH, c::ANY] } else { &[c::IN, c::CH, c::HS, c::NONE, c::ANY] };
    let decos: &[zones::Deco] = if ctx.quick() { &zones::DECOS_QUICK } else { &zones::DECOS_THOROUGH };
    let std_recs = std_recs_with_extras();
    let groups: Vec<(&str, Vec<&str>, Vec<Vec<u8>>)> = vec![
        ("std", all.iter().copied().filter(|n| !["deep", "big", "wide", "straddle", "rev"].contains(n)).collect(), zones::name_universe(&std_recs)),
        ("deep", vec!["deep"], zones::name_universe(&zones::deep_zone_recs())),
        (
            "big",
            vec!["big"],
            big_names(),
        ),
    ];
    let mut universe_sizes: Vec<qvlib::Value> = Vec::new();
    for (gname, gcats, names) in &groups {
        let reqs = zones::query_universe(names, qtypes, qclasses, decos);
        universe_sizes.push(json!({"zone_family": gname, "names": names.len(), "requests": reqs.len(), "catalogs": gcats}));
        let gslots = slots_of(gcats);
        drive::run_reqs(&ctx, &world, &gslots, &reqs, false, verdict);
        eprintln!("[C02] query universe {gname} done at {:.1}s ({} calls)", ctx.elapsed_s(), ctx.evaluations());
    }
    // Large generated zones: wide RRsets / delegations with glue, and RRsets
    // whose names straddle offset 0x4000 at every alignment.
    for (gname, reqs) in zones::large_universes() {
        universe_sizes.push(json!({"zone_family": gname, "requests": reqs.len(), "catalogs": [gname]}));
        drive::run_reqs(&ctx, &world, &slots_of(&[gname]), &reqs, false, verdict);
        eprintln!("[C02] query universe {gname} done at {:.1}s ({} calls)", ctx.elapsed_s(), ctx.evaluations());
    }
    // Second response-buffer regime (the providers reuse one buffer for all
    // requests): the queries of the universes in stretches of 256, each
    // stretch handled in order on a buffer that is not restored between the
    // calls, so every call starts on what the earlier calls of its stretch
    // left behind instead of the 0xff fill. A compression scan that reads beyond what it has written then
    // finds matching labels and emits a pointer into the stale part, which
    // the strict decoder rejects.
    for (gname, gcats, _names) in &groups {
        let reqs = reuse_universe(gname, ctx.quick());
        let gslots: Vec<Slot> = slots_of(gcats).into_iter().filter(|s| s.cfg.rrl.is_none()).collect();
        run_reusing_buffer(&ctx, &world, &gslots, gname, &reqs);
        eprintln!("[C02] query universe {gname} (reused buffer) done at {:.1}s ({} calls)", ctx.elapsed_s(), ctx.evaluations());
    }
    for (gname, reqs) in zones::large_universes() {
        let gslots: Vec<Slot> = slots_of(&[gname]).into_iter().filter(|s| s.cfg.rrl.is_none()).collect();
        run_reusing_buffer(&ctx, &world, &gslots, gname, &reqs);
        eprintln!("[C02] query universe {gname} (reused buffer) done at {:.1}s ({} calls)", ctx.elapsed_s(), ctx.evaluations());
    }
    // C04's size-sweep zone: answers, referrals with multi-address glue and
    // additional sections that cross 512 / 1232 octets one octet at a time,
    // so that records and RRsets are cut off at every position (partially
    // fitting RRsets, rolled-back writes) - here judged for well-formedness.
    {
        let (w4, queries) = crate::c04::world_for(4);
        let mut reqs = Vec::new();
        for q in &queries {
            for deco in [zones::Deco::Plain, zones::Deco::Edns { size: 1232, dnssec_ok: false }] {
                reqs.push(families::Req { family: "size-sweep-zone", desc: format!("{} {} type{} {:?}", q.scenario, qvlib::wire::name_text(&q.qname), q.qtype, deco), bytes: zones::build_query(0x4004, 0, &q.qname, q.qtype, c::IN, deco) });
            }
        }
        let slots4: Vec<Slot> = [512u16, 4096].iter().map(|s| Slot::new(&w4, "c04", crate::common::Cfg::plain(*s, true))).collect();
        universe_sizes.push(json!({"zone_family": "c04 size-sweep zone", "requests": reqs.len()}));
        drive::run_reqs(&ctx, &w4, &slots4, &reqs, false, verdict);
        eprintln!("[C02] size-sweep zone done at {:.1}s ({} calls)", ctx.elapsed_s(), ctx.evaluations());
    }
    ctx.set_extra("query_universes", json!(universe_sizes));

    if !ctx.quick() {
        drive::run_reqs(&ctx, &world, &slots, &muts, true, verdict);
        eprintln!("[C02] mut-trunc done at {:.1}s ({} calls)", ctx.elapsed_s(), ctx.evaluations());
        let pair_slots: Vec<Slot> = ["std", "deep"].iter().flat_map(|cat| [Slot::new(&world, cat, cfgs[2]), Slot::new(&world, cat, cfgs[5])]).collect();
        drive::run_double_mutations(&ctx, &world, &pair_slots, &templates, verdict);
        eprintln!("[C02] mut2 done at {:.1}s ({} calls)", ctx.elapsed_s(), ctx.evaluations());
    }
    ctx.assume("catalogs hold valid RDATA (the zone API stores RDATA unvalidated and the server emits it verbatim; the 'malformed' catalog is therefore excluded here and covered by C01)");
    ctx.assume("the strict decoder qvlib::wire::decode_message is the reference for 'well formed'");
    ctx.finish("exploration", RULE, true)
}



const RULE: &str = "every truncation and every single-field/structural mutation of every request template (thorough: x every truncation, and all mutation pairs), plus names-near-zone-data x QTYPEs x QCLASSes x {plain,EDNS,TSIG,EDNS+TSIG} (and, class IN, in stretches of 256 consecutive queries handled on one response buffer that is not restored in between); x transports x server configurations x catalogs with valid RDATA; plus the queries of C04's size-sweep zone (responses cut off at every position near 512 / 1232 octets); oracle: strict independent RFC 1035 decode of every response + OPT at most once and only in additional + TSIG at most once and last";
