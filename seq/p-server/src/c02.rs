//! C02 — every response is a well-formed DNS message.
//!
//! Space: the truncation and mutation families of C01 (thorough: also
//! mutation x truncation and mutation pairs) plus a query universe derived
//! from zone contents (every name near the zone data x QTYPEs x QCLASSes x
//! {plain, EDNS, TSIG, EDNS+TSIG}); x {UDP, TCP} x 6 server configurations x
//! catalogs with valid RDATA (the fixture catalogs except "malformed", the
//! std zone in a SingleZoneCatalog, and two generated zones: `deep.` with
//! names at the 63/255 limits and every known RDATA type, `big.` with
//! RRsets that push names beyond offset 0x3fff, `wide.` with delegations /
//! MX / SRV RRsets of every size 1..=20 and 40 with glue, `straddle.` with
//! RRsets of sibling-pair names whose fresh labels land on either side of
//! offset 0x4000 at each of 40 one-octet alignments).
//! Oracle: qvlib::wire::decode_message in strict mode (exact consumption,
//! counts = records present, labels <= 63, names <= 255, every pointer
//! backwards onto the start of a label of an earlier name, exact RDLENGTHs,
//! well-formed RDATA of known types) + at most one OPT, only in the
//! additional section + TSIG at most once and last.

use qvlib::wire::{c, t};
use qvlib::{json, Ctx, Local};

use crate::c01::replay;
use crate::common::{all_cfgs, show, with_detail, Slot, World};
use crate::drive::{self, Case, Results};
use crate::families;
use crate::refmodel::check_wellformed;
use crate::zones;

pub fn verdict(l: &mut Local, c: &Case, results: &Results) {
    for (rep, r) in results.iter().enumerate() {
        let class = match r {
            // A panic emits no response; it is C01's finding, not C02's.
            Err(_) => "panic(see C01)".to_string(),
            Ok(None) => "none".to_string(),
            Ok(Some(b)) => match check_wellformed(b) {
                Ok(m) => format!(
                    "rcode={},tc={},an={},ns={},ar={},opt={},tsig={},ptrs={}",
                    m.header.rcode,
                    m.header.tc as u8,
                    bucket(m.answers.len()),
                    bucket(m.authority.len()),
                    bucket(m.additional_data().len()),
                    m.opt().is_some() as u8,
                    m.tsig().is_some() as u8,
                    if m.pointers.is_empty() { "0" } else { "1+" },
                ),
                Err((key, why)) => {
                    let case = with_detail(c.slot.case("C02", c.family, &(c.desc)(), c.tp, c.req), json!({"repetition": rep, "why": why, "result": show(r)}));
                    l.violation(&key, case);
                    format!("MALFORMED:{key}")
                }
            },
        };
        l.outcome(&format!("{}|{}|{}", c.family, c.tp.name(), class), || c.slot.case("C02", c.family, &(c.desc)(), c.tp, c.req));
    }
}

fn bucket(n: usize) -> &'static str {
    match n {
        0 => "0",
        1 => "1",
        _ => "2+",
    }
}

pub fn world(quick: bool) -> World {
    let _ = quick;
    World::new(vec![
        ("deep".to_string(), zones::catalog_from(vec![("deep.", zones::deep_zone_recs())])),
        ("big".to_string(), zones::catalog_from(vec![("big.", zones::big_zone_recs(1))])),
    ]
    .into_iter()
    .chain(zones::large_catalogs())
    .collect())
}

pub fn run(ctx: Ctx) -> ! {
    let world = world(ctx.quick());
    if ctx.replay_case().is_some() {
        replay(ctx, &world, verdict, RULE);
    }
    let cfgs = all_cfgs();
    let templates = qvlib::templates::requests();
    let cats: Vec<String> = world.cat_names().into_iter().filter(|n| n != "malformed").collect();
    let slots_of = |names: &[&str]| -> Vec<Slot> {
        let mut v = Vec::new();
        for cat in names {
            for cfg in &cfgs {
                v.push(Slot::new(&world, cat, *cfg));
            }
        }
        v
    };
    let all: Vec<&str> = cats.iter().map(|s| s.as_str()).collect();
    let slots = slots_of(&all);
    let trunc = families::truncations(&templates);
    let muts = families::mutations(&templates);
    ctx.set_extra("catalogs", json!(cats));
    ctx.set_extra("family_trunc_requests", json!(trunc.len()));
    ctx.set_extra("family_mut_requests", json!(muts.len()));
    drive::run_reqs(&ctx, &world, &slots, &trunc, false, verdict);
    drive::run_reqs(&ctx, &world, &slots, &muts, false, verdict);
    eprintln!("[C02] trunc+mut done at {:.1}s ({} calls)", ctx.elapsed_s(), ctx.evaluations());

    // Query universes, one per zone family.
    let qtypes: &[u16] = if ctx.quick() { &zones::QTYPES_QUICK } else { &zones::QTYPES_THOROUGH };
    let qclasses: &[u16] = if ctx.quick() { &[c::IN, c::CH, c::ANY] } else { &[c::IN, c::CH, c::HS, c::NONE, c::ANY] };
    let decos: &[zones::Deco] = if ctx.quick() { &zones::DECOS_QUICK } else { &zones::DECOS_THOROUGH };
    let mut std_recs = qvlib::fixtures::std_zone_recs();
    // names of the other fixture zones (CH zone, failed+child)
    std_recs.push(qvlib::qd::Rec::new(&qvlib::wire::wname("host.t."), t::A, c::IN, 1, &[1, 2, 3, 4]));
    let groups: Vec<(&str, Vec<&str>, Vec<Vec<u8>>)> = vec![
        ("std", all.iter().copied().filter(|n| !["deep", "big", "wide", "straddle"].contains(n)).collect(), zones::name_universe(&std_recs)),
        ("deep", vec!["deep"], zones::name_universe(&zones::deep_zone_recs())),
        (
            "big",
            vec!["big"],
            // the big zone has thousands of similar owners: the apex, the
            // three big owners, the first and last member of each series,
            // names below the cut and a missing name
            ["big.", "x.big.", "X.Big.", "y.big.", "z.big.", "a.z.big.", "n0000.z.big.", "n0899.z.big.", "h0000.y.big.", "h1099.y.big.", "m1.big.", "ns.big.", "nx.big.", "q.x.big."]
                .iter()
                .map(|n| qvlib::wire::wname(n))
                .collect(),
        ),
    ];
    let mut universe_sizes: Vec<qvlib::Value> = Vec::new();
    for (gname, gcats, names) in &groups {
        let reqs = zones::query_universe(names, qtypes, qclasses, decos);
        universe_sizes.push(json!({"zone_family": gname, "names": names.len(), "requests": reqs.len(), "catalogs": gcats}));
        let gslots = slots_of(gcats);
        drive::run_reqs(&ctx, &world, &gslots, &reqs, false, verdict);
        eprintln!("[C02] query universe {gname} done at {:.1}s ({} calls)", ctx.elapsed_s(), ctx.evaluations());
    }
    // Large generated zones: wide RRsets / delegations with glue, and RRsets
    // whose names straddle offset 0x4000 at every alignment.
    for (gname, reqs) in zones::large_universes() {
        universe_sizes.push(json!({"zone_family": gname, "requests": reqs.len(), "catalogs": [gname]}));
        drive::run_reqs(&ctx, &world, &slots_of(&[gname]), &reqs, false, verdict);
        eprintln!("[C02] query universe {gname} done at {:.1}s ({} calls)", ctx.elapsed_s(), ctx.evaluations());
    }
    ctx.set_extra("query_universes", json!(universe_sizes));

    if !ctx.quick() {
        drive::run_reqs(&ctx, &world, &slots, &muts, true, verdict);
        eprintln!("[C02] mut-trunc done at {:.1}s ({} calls)", ctx.elapsed_s(), ctx.evaluations());
        let pair_slots: Vec<Slot> = ["std", "deep"].iter().flat_map(|cat| [Slot::new(&world, cat, cfgs[2]), Slot::new(&world, cat, cfgs[5])]).collect();
        drive::run_double_mutations(&ctx, &world, &pair_slots, &templates, verdict);
        eprintln!("[C02] mut2 done at {:.1}s ({} calls)", ctx.elapsed_s(), ctx.evaluations());
    }
    ctx.assume("catalogs hold valid RDATA (the zone API stores RDATA unvalidated and the server emits it verbatim; the 'malformed' catalog is therefore excluded here and covered by C01)");
    ctx.assume("the strict decoder qvlib::wire::decode_message is the reference for 'well formed'");
    ctx.finish("exploration", RULE, true)
}



const RULE: &str = "every truncation and every single-field/structural mutation of every request template (thorough: x every truncation, and all mutation pairs), plus names-near-zone-data x QTYPEs x QCLASSes x {plain,EDNS,TSIG,EDNS+TSIG}; x transports x server configurations x catalogs with valid RDATA; oracle: strict independent RFC 1035 decode of every response + OPT at most once and only in additional + TSIG at most once and last";
