//! C04 — responses respect the transport size limit and truncate correctly.
//!
//! Space. One generated catalog (zones `z.` and `nn.`) built so that the
//! length of the complete (TCP) response sweeps one octet at a time across
//! every limit value, in eight scenarios:
//!   txt      one TXT RR whose RDATA length steps by one   (centres 512, 1000, 1232, 4096, [16384 thorough], 65535)
//!   txt3     a TXT RRset of three RRs (no partial RRset)   (512, 1232)
//!   cname    CNAME -> the txt ladder                       (512, 1232)
//!   any      QTYPE ANY at a node with TXT + A + MX          (512, 1232)
//!   wild     wildcard-synthesised TXT, QNAME label length 1..63
//!   mx-add   MX answer + optional address records; the size is swept by the
//!            QNAME's first label (1..63 octets) and by the number of A
//!            records (16 octets each)                      (512, 1000, 1232, 4096)
//!   mx-ans   MX RRset of m records: the answer itself crosses the limit
//!   srv      SRV + additional addresses                    (512)
//!   referral delegation with in-bailiwick glue (mandatory), sibling glue,
//!            in-zone and out-of-zone server names (optional); also with a
//!            server named like the delegated zone itself (glue at the cut),
//!            and reached through a CNAME (answer + referral in one response)
//!   negative NXDOMAIN with a ~360-octet SOA, QNAME 134..196 octets (512)
//!   oversize RRsets that cannot fit in 65 535 octets
//!   size-sweep  (families::size_sweep, shared with C01) answer-less
//!            responses whose question + OPT + TSIG cross the limits: QNAME
//!            length x TSIG key-name length (3..=255 octets, unsigned,
//!            unknown algorithm, correctly signed under a 255-octet key name)
//!            x advertised size 480..=1300, one octet at a time
//! x request decorations {no OPT, OPT advertising each of 0, 511, 512, 513,
//! 1000, 1232, 1233, 4096, 65535} x {unsigned, TSIG-signed}
//! x server payload sizes {512, 1232, 4096, 65535}; every request is sent
//! over UDP and over TCP to the same server.
//!
//! Oracle (L = 512 without OPT, else min(max(advertised, 512), server size);
//! T = the TCP response, U = the UDP response):
//!   1. |U| <= L, |T| <= 65535;           2. T never has TC;
//!   3. U with TC has no record other than OPT/TSIG;
//!   4. |T| <= L  =>  U = T octet for octet;
//!   5. |T| > L and U without TC  =>  same header flags/RCODE, question,
//!      answer and authority sections as T; U's additional records are a
//!      sub-multiset of T's; OPT/TSIG presence as in T; and every additional
//!      record of T that is in-bailiwick glue of a referral (owner at or
//!      below the owner of an NS RRset in T's authority section) is in U.
//! Where the RRset cannot fit in 65 535 octets the statement's two sentences
//! conflict ("sets TC" vs "identical to the TCP response", which is then a
//! SERVFAIL); both are accepted there (flag `near_tcp_limit`).

use std::collections::BTreeMap;
use std::sync::Mutex;

use qvlib::fixtures::{mx_rdata, soa_rdata, srv_rdata};
use qvlib::qd::{Rec, Tp};
use qvlib::wire::{self, c, canon_rr, t, wname, wname_from_labels, Header, Msg};
use qvlib::{hex, json, unhex, Ctx, Local, Value};

use crate::common::{show, thread_init, Cfg, Slot, World};
use crate::drive;
use crate::refmodel::{check_wellformed, negotiated};
use crate::zones::{self, build_query, Deco};

// ------------------------------------------------------------ the zone

#[derive(Clone, Debug)]
pub struct Query {
    pub scenario: &'static str,
    pub qname: Vec<u8>,
    pub qtype: u16,
    /// Upper bound of the complete response's length without decorations
    /// (no compression at all); used only to flag cases near the TCP limit.
    pub upper_bound: usize,
}

pub struct Built {
    pub zones: Vec<(&'static str, Vec<Rec>)>,
    pub queries: Vec<Query>,
}

fn rec(o: &[u8], ty: u16, rd: Vec<u8>) -> Rec {
    Rec::new(o, ty, c::IN, 300, &rd)
}

/// Valid TXT RDATA of exactly `len` octets (len >= 1), filled with `fill`.
pub fn txt_of_len(len: usize, fill: u8) -> Vec<u8> {
    let mut out = Vec::with_capacity(len);
    let mut rem = len;
    while rem > 0 {
        let take = rem.min(256);
        out.push((take - 1) as u8);
        out.extend(std::iter::repeat(fill).take(take - 1));
        rem -= take;
    }
    out
}

fn xk(k: usize, rest: &str) -> Vec<u8> {
    wire::child(&vec![b'x'; k], &wname(rest))
}

const SMALL_CENTRES: [usize; 4] = [512, 1000, 1232, 4096];

/// `w` = half-width of the one-octet sweeps around each limit.
pub fn build(w: usize) -> Built {
    let mut z: Vec<Rec> = vec![
        rec(&wname("z."), t::SOA, soa_rdata("ns.z.", "admin.z.", 1, 2, 3, 4, 5)),
        rec(&wname("z."), t::NS, wname("ns.z.")),
        rec(&wname("ns.z."), t::A, vec![192, 0, 2, 1]),
        rec(&wname("h.z."), t::A, vec![192, 0, 2, 2]),
    ];
    let mut q: Vec<Query> = Vec::new();

    // ---- txt ladders. Undecorated response = 12 + (10+4) + (2+10+R) = 38 + R
    // for owner "tNNNNN.z."; decorations add up to 11 (OPT) + 75 (TSIG k1.);
    // cname / any add up to 40 more.
    let mut txt_centres = vec![512usize, 1000, 1232, 4096, 65535];
    if w > 4 {
        // thorough tier: also the first offset a compression pointer cannot reach
        txt_centres.insert(4, 16384);
    }
    for centre in txt_centres {
        let lo = centre - 38 - 86 - 40 - w;
        let hi = (centre - 38 + w + 1).min(65535);
        for r in lo..=hi {
            let owner = wname(&format!("t{r:05}.z."));
            z.push(rec(&owner, t::TXT, txt_of_len(r, b't')));
            q.push(Query { scenario: "txt", qname: owner.clone(), qtype: t::TXT, upper_bound: 12 + 14 + 20 + r });
            if centre == 512 || centre == 1232 {
                // three RRs with the same total RDATA length
                let u = wname(&format!("u{r:05}.z."));
                let (a, b) = (r / 3, r / 3);
                z.push(rec(&u, t::TXT, txt_of_len(a, b'a')));
                z.push(rec(&u, t::TXT, txt_of_len(b, b'b')));
                z.push(rec(&u, t::TXT, txt_of_len(r - a - b, b'c')));
                q.push(Query { scenario: "txt3", qname: u, qtype: t::TXT, upper_bound: 12 + 14 + 60 + r });
                let cn = wname(&format!("c{r:05}.z."));
                z.push(rec(&cn, t::CNAME, owner.clone()));
                q.push(Query { scenario: "cname", qname: cn, qtype: t::TXT, upper_bound: 12 + 14 + 30 + 20 + r });
                let y = wname(&format!("y{r:05}.z."));
                z.push(rec(&y, t::TXT, txt_of_len(r, b'y')));
                z.push(rec(&y, t::A, vec![192, 0, 2, 3]));
                z.push(rec(&y, t::MX, mx_rdata(1, "h.z.")));
                q.push(Query { scenario: "any", qname: y, qtype: t::ANY, upper_bound: 12 + 14 + 80 + r });
            }
        }
    }
    // ---- oversize: cannot fit in 65 535 octets whatever the compression.
    z.push(rec(&wname("t65535.z."), t::TXT, txt_of_len(65535, b'o')));
    q.push(Query { scenario: "oversize", qname: wname("t65535.z."), qtype: t::TXT, upper_bound: 70000 });
    z.push(rec(&wname("v.z."), t::TXT, txt_of_len(40000, b'p')));
    z.push(rec(&wname("v.z."), t::TXT, txt_of_len(40000, b'q')));
    q.push(Query { scenario: "oversize", qname: wname("v.z."), qtype: t::TXT, upper_bound: 90000 });

    for centre in SMALL_CENTRES {
        // ---- wildcard TXT: response = 12 + (k + 1+sub + 7) + 12 + R
        for (i, shift) in [0usize, 45, 90].iter().enumerate() {
            let sub = format!("wc{centre}r{i}");
            let r = centre - (12 + 32 + 1 + sub.len() + 7 + 12) - shift;
            z.push(rec(&wname(&format!("*.{sub}.z.")), t::TXT, txt_of_len(r, b'w')));
            for k in 1..=63 {
                q.push(Query { scenario: "wild", qname: xk(k, &format!("{sub}.z.")), qtype: t::TXT, upper_bound: 2000 + centre });
            }
        }
        // ---- mx-add: MX 10 h1.sub, MX 20 h2.sub; h1 has n A + 1 AAAA, h2 has 2 A.
        {
            let sublen = format!("ma{centre}n000").len();
            let base = 12 + (33 + 1 + sublen + 3 + 4) + 38 + 28 + 32;
            let n0 = (centre.saturating_sub(base)) / 16;
            for n in n0.saturating_sub(6)..=n0 + 1 {
                let sub = format!("ma{centre}n{n:03}");
                let h1 = wname(&format!("h1.{sub}.z."));
                let h2 = wname(&format!("h2.{sub}.z."));
                for i in 0..n {
                    z.push(rec(&h1, t::A, vec![10, 1, (i >> 8) as u8, i as u8]));
                }
                z.push(rec(&h1, t::AAAA, vec![0x20, 1, 0xd, 0xb8, 0, 0, 0, 0, 0, 0, 0, 0, 0, 0, 0, 1]));
                z.push(rec(&h2, t::A, vec![10, 2, 0, 1]));
                z.push(rec(&h2, t::A, vec![10, 2, 0, 2]));
                for k in 1..=63 {
                    let o = xk(k, &format!("{sub}.z."));
                    z.push(rec(&o, t::MX, mx_rdata(10, &format!("h1.{sub}.z."))));
                    z.push(rec(&o, t::MX, mx_rdata(20, &format!("h2.{sub}.z."))));
                    q.push(Query { scenario: "mx-add", qname: o, qtype: t::MX, upper_bound: 3 * centre + 2000 });
                }
            }
        }
        // ---- mx-ans: MX RRset of m records (21 octets each), g000 has an A.
        {
            let sublen = format!("mb{centre}m000").len();
            let base = 12 + (33 + 1 + sublen + 3 + 4) + 16;
            let m0 = (centre - base) / 21;
            for m in m0 - 5..=m0 + 1 {
                let sub = format!("mb{centre}m{m:03}");
                z.push(rec(&wname(&format!("g000.{sub}.z.")), t::A, vec![10, 3, 0, 1]));
                for k in 1..=63 {
                    let o = xk(k, &format!("{sub}.z."));
                    for i in 0..m {
                        z.push(rec(&o, t::MX, mx_rdata(i as u16, &format!("g{i:03}.{sub}.z."))));
                    }
                    q.push(Query { scenario: "mx-ans", qname: o, qtype: t::MX, upper_bound: 4 * centre + 2000 });
                }
            }
        }
        // ---- referral: NS ns1.<cut> (glue: g A + 1 AAAA), ns.sib<c>.z. (sibling
        // glue, 2 A), ns.z. (parent zone data, 1 A), ns.other. (nothing).
        {
            z.push(rec(&wname(&format!("sib{centre}.z.")), t::NS, wname(&format!("ns.sib{centre}.z."))));
            z.push(rec(&wname(&format!("ns.sib{centre}.z.")), t::A, vec![10, 4, 0, 1]));
            z.push(rec(&wname(&format!("ns.sib{centre}.z.")), t::A, vec![10, 4, 0, 2]));
            let sublen = format!("dg{centre}g000").len();
            let base = 12 + (33 + 1 + sublen + 3 + 4) + 81 + 28;
            let g0 = (centre.saturating_sub(base)) / 16;
            for g in g0.saturating_sub(7)..=g0 + 1 {
                let sub = format!("dg{centre}g{g:03}");
                let cut = wname(&format!("{sub}.z."));
                let ns1 = wname(&format!("ns1.{sub}.z."));
                z.push(rec(&cut, t::NS, ns1.clone()));
                z.push(rec(&cut, t::NS, wname(&format!("ns.sib{centre}.z."))));
                z.push(rec(&cut, t::NS, wname("ns.z.")));
                z.push(rec(&cut, t::NS, wname("ns.other.")));
                for i in 0..g {
                    z.push(rec(&ns1, t::A, vec![10, 5, (i >> 8) as u8, i as u8]));
                }
                z.push(rec(&ns1, t::AAAA, vec![0x20, 1, 0xd, 0xb8, 0, 0, 0, 0, 0, 0, 0, 0, 0, 0, 0, 5]));
                for k in 1..=63 {
                    q.push(Query { scenario: "referral", qname: xk(k, &format!("{sub}.z.")), qtype: t::A, upper_bound: 3 * centre + 2000 });
                }
                // the same with a name server named like the delegated zone
                // itself (its glue sits at the cut node) next to one below it
                let sub = format!("ds{centre}g{g:03}");
                let cut = wname(&format!("{sub}.z."));
                let ns2 = wname(&format!("ns2.{sub}.z."));
                z.push(rec(&cut, t::NS, cut.clone()));
                z.push(rec(&cut, t::NS, ns2.clone()));
                for i in 0..g {
                    z.push(rec(&cut, t::A, vec![10, 8, (i >> 8) as u8, i as u8]));
                }
                z.push(rec(&ns2, t::A, vec![10, 8, 255, 1]));
                for k in (1..=63).step_by(2) {
                    q.push(Query { scenario: "referral-self-named", qname: xk(k, &format!("{sub}.z.")), qtype: t::A, upper_bound: 3 * centre + 2000 });
                }
                // a CNAME whose target lies below the first delegation of
                // this step: the answer section holds the CNAME, the
                // authority section the referral, and the glue is as
                // mandatory as in a plain referral
                let target = wname(&format!("w.dg{centre}g{g:03}.z."));
                for k in (1..=63).step_by(2) {
                    let o = xk(k, &format!("cr{centre}g{g:03}.z."));
                    z.push(rec(&o, t::CNAME, target.clone()));
                    q.push(Query { scenario: "cname-into-referral", qname: o, qtype: t::A, upper_bound: 3 * centre + 2000 });
                }
            }
        }
    }
    // ---- srv (centre 512): SRV target is never compressed.
    {
        let centre = 512usize;
        let sublen = "sv512n000".len();
        let base = 12 + (33 + 1 + sublen + 3 + 4) + (2 + 10 + 6 + 3 + 1 + sublen + 3);
        let n0 = (centre - base) / 16;
        for n in n0 - 6..=n0 + 1 {
            let sub = format!("sv{centre}n{n:03}");
            let h1 = wname(&format!("h1.{sub}.z."));
            for i in 0..n {
                z.push(rec(&h1, t::A, vec![10, 6, (i >> 8) as u8, i as u8]));
            }
            for k in 1..=63 {
                let o = xk(k, &format!("{sub}.z."));
                z.push(rec(&o, t::SRV, srv_rdata(1, 2, 53, &format!("h1.{sub}.z."))));
                q.push(Query { scenario: "srv", qname: o, qtype: t::SRV, upper_bound: 4000 });
            }
        }
    }
    // ---- negative: zone nn. with a 358-octet SOA RR: 12 + (k+137) + 358.
    let l = |ch: u8| vec![ch; 63];
    let mname = wname_from_labels(&[&l(b'm')[..], &l(b'n')[..], &l(b'o')[..], b"nn"]);
    let rname = wname_from_labels(&[&l(b'r')[..], &l(b's')[..], b"nn"]);
    let mut soa = mname.clone();
    soa.extend_from_slice(&rname);
    soa.extend_from_slice(&[0, 0, 0, 1, 0, 0, 0, 2, 0, 0, 0, 3, 0, 0, 0, 4, 0, 0, 0, 5]);
    let nn = vec![rec(&wname("nn."), t::SOA, soa), rec(&wname("nn."), t::NS, wname("ns.z.")), rec(&wname_from_labels(&[&b"e"[..], &l(b'p')[..], &l(b'q')[..], b"nn"]), t::A, vec![10, 7, 0, 1])];
    for k in 1..=63 {
        let qn = wname_from_labels(&[&vec![b'x'; k][..], &l(b'p')[..], &l(b'q')[..], b"nn"]);
        q.push(Query { scenario: "negative", qname: qn.clone(), qtype: t::A, upper_bound: 1200 });
    }
    Built { zones: vec![("z.", z), ("nn.", nn)], queries: q }
}

// -------------------------------------------------------------- oracle

fn servfail_without_records(m: &Msg) -> bool {
    m.header.rcode == wire::rc::SERVFAIL && m.answers.is_empty() && m.authority.is_empty() && m.additional_data().is_empty()
}

type Res = Result<Option<Vec<u8>>, String>;

/// Ok(outcome kind) or Err((violation key, explanation)).
pub fn check_pair(limit: usize, near_tcp_limit: bool, u: &Res, tr: &Res) -> Result<String, (String, String)> {
    let v = |k: &str, why: String| Err((k.to_string(), why));
    let (u, tr) = match (u, tr) {
        (Err(p), _) | (_, Err(p)) => return v(&qvlib::panic_key(p), format!("panic: {p}")),
        (Ok(u), Ok(tr)) => (u, tr),
    };
    let (u, tr) = match (u, tr) {
        (None, None) => return Ok("no-response".into()),
        (Some(_), None) | (None, Some(_)) => return v("response-on-one-transport-only", "a response was sent over one transport but not the other".into()),
        (Some(u), Some(tr)) => (u, tr),
    };
    if u.len() > limit {
        return v("udp-exceeds-limit", format!("UDP response of {} octets, limit {}", u.len(), limit));
    }
    if tr.len() > 65535 {
        return v("tcp-exceeds-65535", format!("TCP response of {} octets", tr.len()));
    }
    let (Some(hu), Some(ht)) = (Header::parse(u), Header::parse(tr)) else { return v("short-response", "response shorter than a header".into()) };
    if ht.tc {
        return v("tcp-tc-set", "the TCP response has TC set".into());
    }
    if u == tr {
        return Ok("identical".into());
    }
    let mu = check_wellformed(u).map_err(|(k, w)| (format!("udp-{k}"), w))?;
    if hu.tc {
        if !mu.answers.is_empty() || !mu.authority.is_empty() || !mu.additional_data().is_empty() {
            return v("tc-with-records", format!("TC response carries an={} ns={} additional={}", mu.answers.len(), mu.authority.len(), mu.additional_data().len()));
        }
        if tr.len() <= limit {
            if near_tcp_limit {
                let mt = check_wellformed(tr).map_err(|(k, w)| (format!("tcp-{k}"), w))?;
                if servfail_without_records(&mt) {
                    return Ok("tc-empty(tcp-overflow-servfail)".into());
                }
            }
            return v("tc-although-complete-response-fits", format!("TC set although the complete response ({} octets) fits the limit {}", tr.len(), limit));
        }
        // (The TCP response's own well-formedness is C02's subject; it is
        // not decoded here when nothing is compared with it.)
        return Ok("tc-empty".into());
    }
    let mt = check_wellformed(tr).map_err(|(k, w)| (format!("tcp-{k}"), w))?;
    if tr.len() <= limit {
        return v("udp-differs-although-complete-response-fits", format!("the complete response ({} octets) fits the limit {} but the UDP response ({} octets) differs", tr.len(), limit, u.len()));
    }
    // TC clear, complete response does not fit: only optional additional
    // records may be missing.
    let flags = |h: &Header| (h.id, h.qr, h.opcode, h.aa, h.rd, h.ra, h.z, h.rcode);
    if flags(&hu) != flags(&ht) {
        return v("partial-header-differs", format!("header {:?} vs TCP {:?}", flags(&hu), flags(&ht)));
    }
    if mu.questions != mt.questions {
        return v("partial-question-differs", "question sections differ".into());
    }
    let canon = |rrs: &[wire::Rr]| rrs.iter().map(canon_rr).collect::<Vec<_>>();
    if canon(&mu.answers) != canon(&mt.answers) {
        return v("partial-answer-differs", format!("answer section has {} records, TCP has {}", mu.answers.len(), mt.answers.len()));
    }
    if canon(&mu.authority) != canon(&mt.authority) {
        return v("partial-authority-differs", format!("authority section has {} records, TCP has {}", mu.authority.len(), mt.authority.len()));
    }
    if mu.opt().map(canon_rr) != mt.opt().map(canon_rr) {
        return v("partial-opt-differs", "OPT record differs from the TCP response's".into());
    }
    if mu.tsig().map(|r| wire::lower(&r.name)) != mt.tsig().map(|r| wire::lower(&r.name)) {
        return v("partial-tsig-differs", "TSIG presence differs from the TCP response's".into());
    }
    let mut pool: BTreeMap<_, i64> = BTreeMap::new();
    for r in mt.additional_data() {
        *pool.entry(canon_rr(r)).or_insert(0) += 1;
    }
    let total: i64 = pool.values().sum();
    for r in mu.additional_data() {
        let e = pool.entry(canon_rr(r)).or_insert(0);
        *e -= 1;
        if *e < 0 {
            return v("partial-additional-not-subset", format!("additional record {} type {} is not in the TCP response", wire::name_text(&r.name), r.typ));
        }
    }
    let missing: i64 = pool.values().sum();
    let cuts: Vec<Vec<u8>> = mt.authority.iter().filter(|r| r.typ == t::NS).map(|r| r.name.clone()).collect();
    for r in mt.additional_data() {
        if cuts.iter().any(|cut| wire::eq_or_subdomain(&r.name, cut)) && pool.get(&canon_rr(r)).copied().unwrap_or(0) > 0 {
            return v("referral-glue-omitted", format!("in-bailiwick glue {} type {} is missing from a UDP response without TC", wire::name_text(&r.name), r.typ));
        }
    }
    Ok(format!("partial(additional {} of {})", if missing == total { "none" } else { "some" }, "tcp's"))
}

// -------------------------------------------------------------- driver

const ADV_QUICK: [Option<u16>; 10] = [None, Some(0), Some(511), Some(512), Some(513), Some(1000), Some(1232), Some(1233), Some(4096), Some(65535)];
const ADV_THOROUGH: [Option<u16>; 20] = [
    None, Some(0), Some(1), Some(256), Some(511), Some(512), Some(513), Some(514), Some(999), Some(1000), Some(1001), Some(1231), Some(1232), Some(1233), Some(4095), Some(4096), Some(4097), Some(16384), Some(65534),
    Some(65535),
];
const SIZES_QUICK: [u16; 4] = [512, 1232, 4096, 65535];
const SIZES_THOROUGH: [u16; 9] = [512, 513, 1000, 1232, 1233, 4096, 4097, 65534, 65535];

fn deco(adv: Option<u16>, key: u8) -> Deco {
    match (adv, key) {
        (None, 0) => Deco::Plain,
        (Some(a), 0) => Deco::Edns { size: a, dnssec_ok: false },
        (None, k) => Deco::Tsig { key: k },
        (Some(a), k) => Deco::EdnsTsig { size: a, key: k },
    }
}

/// Response TSIG RR length for a key (RFC 8945 §4.2: name + 10 + algorithm
/// name + 16 fixed RDATA octets + full MAC).
fn tsig_len(key: u8) -> usize {
    match key {
        1 => 4 + 10 + 13 + 16 + 32,
        2 => 14 + 10 + 11 + 16 + 20,
        _ => 0,
    }
}

pub fn world_for(w: usize) -> (World, Vec<Query>) {
    let b = build(w);
    let cat = zones::catalog_from(b.zones);
    (World::only(vec![("c04".to_string(), cat)]), b.queries)
}

fn delta_class(d: i64) -> String {
    match d {
        i64::MIN..=-5 => "fits-by>4".into(),
        -4..=0 => format!("fits-by-{}", -d),
        1..=4 => format!("over-by-{d}"),
        _ => "over-by>4".into(),
    }
}

struct Job<'a> {
    world: &'a World,
    slot: &'a Slot,
    tier: &'a str,
    coverage: &'a Mutex<BTreeMap<(String, usize), u32>>,
}

fn run_one(l: &mut Local, j: &Job, qu: &Query, adv: Option<u16>, key: u8) {
    let req = build_query(0x4004, 0x0000, &qu.qname, qu.qtype, c::IN, deco(adv, key));
    let limit = match adv {
        None => 512,
        Some(a) => negotiated(a, j.slot.cfg.edns_size),
    };
    let near = qu.upper_bound + if adv.is_some() { 11 } else { 0 } + tsig_len(key) > 65535;
    let u = j.slot.exchange(j.world, &req, Tp::Udp).remove(0);
    let tr = j.slot.exchange(j.world, &req, Tp::Tcp).remove(0);
    l.tick();
    let case = || {
        json!({"prop": "C04", "scenario": qu.scenario, "zone_tier": j.tier, "edns_size": j.slot.cfg.edns_size,
               "advertised": adv, "tsig_key": key, "qname": wire::name_text(&qu.qname), "qtype": qu.qtype,
               "limit": limit, "near_tcp_limit": near, "req": hex(&req)})
    };
    let tlen = tr.as_ref().ok().and_then(|o| o.as_ref()).map(|b| b.len() as i64);
    let d = tlen.map(|n| n - limit as i64);
    match check_pair(limit, near, &u, &tr) {
        Ok(kind) => {
            let dc = d.map(delta_class).unwrap_or_else(|| "-".into());
            l.outcome(&format!("{}|{}|{}", qu.scenario, dc, kind), case);
        }
        Err((key_, why)) => {
            let mut cs = case();
            cs.as_object_mut().unwrap().insert("observed".into(), json!({"why": why, "udp": show(&u), "tcp_len": tlen, "tcp": show(&tr)}));
            l.violation(&key_, cs);
            l.outcome(&format!("{}|VIOLATION:{}", qu.scenario, key_), case);
        }
    }
    if let Some(d) = d {
        if (-2..=2).contains(&d) {
            let mut g = j.coverage.lock().unwrap();
            *g.entry((qu.scenario.to_string(), limit)).or_insert(0) |= 1 << (d + 2);
        }
    }
}

pub fn run(ctx: Ctx) -> ! {
    if ctx.replay_case().is_some() {
        replay(ctx);
    }
    let tier = if ctx.quick() { "quick" } else { "thorough" };
    let w = ctx.pick(4, 12);
    let (world, queries) = world_for(w);
    eprintln!("[C04] zone built at {:.1}s: {} queries", ctx.elapsed_s(), queries.len());
    let advs: &[Option<u16>] = if ctx.quick() { &ADV_QUICK } else { &ADV_THOROUGH };
    let sizes: &[u16] = if ctx.quick() { &SIZES_QUICK } else { &SIZES_THOROUGH };
    let keys: &[u8] = if ctx.quick() { &[0, 1] } else { &[0, 1, 2] };
    let slots: Vec<Slot> = sizes.iter().map(|s| Slot::new(&world, "c04", Cfg::plain(*s, true))).collect();
    let coverage = Mutex::new(BTreeMap::new());
    let mut items: Vec<(usize, usize)> = Vec::new();
    for s in 0..slots.len() {
        for qi in 0..queries.len() {
            items.push((s, qi));
        }
    }
    drive::rotate(&mut items, ctx.seed);
    ctx.par_for_each(&items, |l, (s, qi)| {
        thread_init();
        let j = Job { world: &world, slot: &slots[*s], tier, coverage: &coverage };
        for adv in advs {
            for key in keys {
                run_one(l, &j, &queries[*qi], *adv, *key);
            }
        }
    });
    // Size sweep (shared with C01): QNAME length x TSIG key-name length x
    // advertised size swept one octet at a time, so that header + question +
    // OPT + TSIG crosses 512 and the negotiated size at every position while
    // the answer itself is empty (REFUSED / NOTAUTH / FORMERR responses).
    let sweep = crate::families::size_sweep(ctx.quick());
    ctx.set_extra("size_sweep_requests", json!(sweep.len()));
    let mut sitems: Vec<(usize, usize)> = Vec::new();
    for s in 0..slots.len() {
        let mut i = 0;
        while i < sweep.len() {
            sitems.push((s, i));
            i += 256;
        }
    }
    drive::rotate(&mut sitems, ctx.seed);
    ctx.par_for_each(&sitems, |l, (s, start)| {
        thread_init();
        let slot = &slots[*s];
        for r in &sweep[*start..(*start + 256).min(sweep.len())] {
            let scan = crate::refmodel::scan_request(&r.bytes);
            let adv = scan.opt_sizes.first().copied();
            let limit = adv.map(|a| negotiated(a, slot.cfg.edns_size)).unwrap_or(512);
            let u = slot.exchange(&world, &r.bytes, Tp::Udp).remove(0);
            let tr = slot.exchange(&world, &r.bytes, Tp::Tcp).remove(0);
            l.tick();
            let case = || {
                json!({"prop": "C04", "scenario": "size-sweep", "zone_tier": tier, "edns_size": slot.cfg.edns_size, "advertised": adv,
                       "desc": r.desc, "limit": limit, "near_tcp_limit": false, "req": hex(&r.bytes)})
            };
            let tlen = tr.as_ref().ok().and_then(|o| o.as_ref()).map(|b| b.len() as i64);
            match check_pair(limit, false, &u, &tr) {
                Ok(kind) => {
                    let dc = tlen.map(|n| delta_class(n - limit as i64)).unwrap_or_else(|| "-".into());
                    l.outcome(&format!("size-sweep|{}|{}", dc, kind), case);
                }
                Err((key_, why)) => {
                    let mut cs = case();
                    cs.as_object_mut().unwrap().insert("observed".into(), json!({"why": why, "udp": show(&u), "tcp_len": tlen, "tcp": show(&tr)}));
                    l.violation(&key_, cs);
                    l.outcome(&format!("size-sweep|VIOLATION:{}", key_), case);
                }
            }
        }
    });
    eprintln!("[C04] size sweep done at {:.1}s", ctx.elapsed_s());
    // Boundary coverage: which (scenario, limit) pairs saw |T| - L at each of
    // -2..+2. The txt scenario must hit every limit value exactly.
    let cov = coverage.lock().unwrap();
    let mut limits: Vec<usize> = Vec::new();
    for s in sizes {
        for a in advs {
            let lim = a.map(|a| negotiated(a, *s)).unwrap_or(512);
            if !limits.contains(&lim) {
                limits.push(lim);
            }
        }
    }
    limits.sort();
    let mut table = Vec::new();
    let mut full = 0;
    for ((sc, lim), mask) in cov.iter() {
        if *mask == 0b11111 {
            full += 1;
        }
        table.push(json!({"scenario": sc, "limit": lim, "deltas_seen": (0..5).filter(|b| mask & (1 << b) != 0).map(|b| b as i64 - 2).collect::<Vec<_>>()}));
    }
    ctx.set_extra("limits_exercised", json!(limits));
    ctx.set_extra("boundary_pairs_fully_swept", json!(full));
    ctx.set_extra("boundary_coverage", json!(table));
    ctx.set_extra("queries", json!(queries.len()));
    ctx.set_extra("server_sizes", json!(sizes));
    ctx.set_extra("advertised_sizes", json!(advs));
    let mut missing = Vec::new();
    for lim in &limits {
        // A TCP response cannot exceed 65535 octets: deltas beyond that do
        // not exist.
        let want: u32 = (-2i64..=2).filter(|d| *lim as i64 + d <= 65535).map(|d| 1u32 << (d + 2)).sum();
        let have = cov.get(&("txt".to_string(), *lim)).copied().unwrap_or(0);
        if have & want != want {
            missing.push(*lim);
        }
    }
    drop(cov);
    if !missing.is_empty() && ctx.violation_count() == 0 {
        eprintln!("MACHINERY: the txt sweep did not reach |T|-L in -2..+2 for limits {missing:?}");
        std::process::exit(3);
    }
    ctx.assume("the TCP response to the same request is the reference for the complete response (as the statement defines it)");
    ctx.assume("where an RRset cannot fit in 65535 octets (flag near_tcp_limit) both a TC response and a copy of the TCP SERVFAIL are accepted over UDP");
    ctx.finish("exploration", RULE, true)
}

fn replay(ctx: Ctx) -> ! {
    thread_init();
    let case = ctx.replay_case().unwrap().clone();
    let w = if case["zone_tier"].as_str() == Some("thorough") { 12 } else { 4 };
    let (world, _) = world_for(w);
    let size = case["edns_size"].as_u64().expect("edns_size") as u16;
    let slot = Slot::new(&world, "c04", Cfg::plain(size, true));
    let req = unhex(case["req"].as_str().expect("req"));
    let limit = case["limit"].as_u64().expect("limit") as usize;
    let near = case["near_tcp_limit"].as_bool().unwrap_or(false);
    // The limit is recomputed from the advertised size as a cross-check.
    let adv = case["advertised"].as_u64().map(|a| a as u16);
    let limit2 = adv.map(|a| negotiated(a, size)).unwrap_or(512);
    let u = slot.exchange(&world, &req, Tp::Udp).remove(0);
    let tr = slot.exchange(&world, &req, Tp::Tcp).remove(0);
    println!("replay: scenario={} server size={} advertised={:?} limit={} (recomputed {})", case["scenario"], size, adv, limit, limit2);
    println!("request: {}", hex(&req));
    println!("udp: {}", show(&u));
    println!("tcp: {}", match &tr { Ok(Some(b)) => format!("{} octets, header {}", b.len(), hex(&b[..12.min(b.len())])), other => show(other).to_string() });
    match check_pair(limit2, near, &u, &tr) {
        Ok(kind) => println!("replay verdict: no violation ({kind})"),
        Err((key, why)) => {
            println!("replay verdict: VIOLATION reproduced: {key}: {why}");
            let mut cs = case.clone();
            if let Some(o) = cs.as_object_mut() {
                o.remove("observed");
            }
            ctx.violation(&key, cs);
        }
    }
    let _: Option<Value> = None;
    ctx.finish("exploration", RULE, false)
}

const RULE: &str = "zones whose complete (TCP) response length sweeps one octet at a time across every limit (TXT ladders; MX/SRV/referral/wildcard/negative responses swept by QNAME label length 1..63 and record counts) x {no OPT, OPT with each advertised size} x {unsigned, TSIG} x server payload sizes; UDP and TCP response to every request; oracle: |U| <= clamp(advertised, 512, server size) (512 without OPT); TCP never TC; TC => no records but OPT/TSIG; |T| <= limit => U == T; otherwise U without TC equals T except for omitted additional records that are not in-bailiwick referral glue";
