//! C01 — the server survives every possible request without panicking.
//!
//! Space (all enumerated completely, see `families`):
//!   raw      : 938 header shapes (QR x 7 opcodes x counts in {0,1,2,ffff}^4
//!              with <= 2 non-zero) x every string of length <= 4 (quick) /
//!              <= 5 (thorough) over the 10 significant octets, plus every
//!              header prefix of 0..11 octets; x 2 transports x 2 (catalog,
//!              configuration) pairs (thorough: 2 more pairs with strings
//!              <= 4). QR-set headers: strings of length <= 2 / <= 3.
//!   trunc    : every template cut at every length;
//!   mut      : every single-field mutation / structural mutation;
//!   mut-trunc: every mutant cut at every length >= 12   (thorough);
//!   mut2     : every pair of single-field mutations      (thorough);
//!   each x {UDP, TCP} x 6 server configurations x 8 catalogs.
//!   size-sweep: QNAME length, TSIG key-name length and advertised EDNS size
//!              swept one octet at a time (unsigned, unknown-algorithm and
//!              correctly signed TSIG), std catalog x 6 configurations.
//!   query    : generated large zones `wide.` (delegations / MX / SRV RRsets
//!              of every size 1..=20, 40 with glue) and `straddle.` (names
//!              on either side of offset 0x4000 at 40 alignments) x
//!              decorations (plain, EDNS, TSIG under two keys) x 6
//!              configurations.
//! Oracle: no panic; `Single(n)` with n <= 65535 over TCP and n <= the
//! largest size the request can justify over UDP (512, or the advertised
//! size of an OPT record of its additional section clamped to
//! [512, server size]); `None` is always acceptable.

use qvlib::qd::Tp;
use qvlib::{json, panic_key, Ctx, Local};

use crate::common::{all_cfgs, parse_case, show, thread_init, with_detail, Slot, World};
use crate::drive::{self, Case, Results};
use crate::families;
use crate::refmodel::{scan_request, udp_limit_upper_bound};

pub fn verdict(l: &mut Local, c: &Case, results: &Results) {
    let limit = match c.tp {
        Tp::Tcp => 65535,
        Tp::Udp => udp_limit_upper_bound(&scan_request(c.req), c.slot.cfg.edns_size),
    };
    for (rep, r) in results.iter().enumerate() {
        let class = match r {
            Err(p) => {
                let case = with_detail(c.slot.case("C01", c.family, &(c.desc)(), c.tp, c.req), json!({"repetition": rep, "result": show(r)}));
                l.violation(&panic_key(p), case);
                "panic".to_string()
            }
            Ok(None) => "none".to_string(),
            Ok(Some(b)) => {
                if b.len() > limit {
                    let case = with_detail(
                        c.slot.case("C01", c.family, &(c.desc)(), c.tp, c.req),
                        json!({"repetition": rep, "response_len": b.len(), "transport_limit": limit, "result": show(r)}),
                    );
                    l.violation(&format!("response-exceeds-limit:{}", c.tp.name()), case);
                }
                let h = qvlib::wire::Header::parse(b);
                match h {
                    None => format!("short-response({})", b.len()),
                    Some(h) => format!("rcode={},tc={},size={}", h.rcode, h.tc as u8, if b.len() > 512 { ">512" } else { "<=512" }),
                }
            }
        };
        let rrl = if c.slot.cfg.rrl.is_some() { if rep == 0 { "|rrl-first" } else { "|rrl-second" } } else { "" };
        l.outcome(&format!("{}|{}{}|{}", c.family, c.tp.name(), rrl, class), || c.slot.case("C01", c.family, &(c.desc)(), c.tp, c.req));
    }
}

/// (catalog, configuration) pairs the raw family is crossed with. A string of
/// <= 5 octets after the header cannot hold a record (>= 11 octets), an OPT
/// or a TSIG, and at most the root name as QNAME, so configuration and
/// catalog can only matter through the root-name lookup: one representative
/// of every catalog kind, covering every configuration kind once.
const RAW_SLOTS: [(&str, usize); 2] = [("std", 0), ("malformed", 3)];
const RAW_SLOTS_MORE: [(&str, usize); 2] = [("empty", 2), ("single", 5)];

pub fn run(ctx: Ctx) -> ! {
    let world = World::new(crate::zones::large_catalogs());
    if ctx.replay_case().is_some() {
        replay(ctx, &world, verdict, RULE);
    }
    let cfgs = all_cfgs();
    let templates = qvlib::templates::requests();
    let mut slots = Vec::new();
    for cat in world.cat_names() {
        if cat == "straddle" {
            // 36 000 records that only matter to the queries written for them
            continue;
        }
        for cfg in &cfgs {
            slots.push(Slot::new(&world, &cat, *cfg));
        }
    }
    // (b) truncations, (c) single mutations: full cross.
    let trunc = families::truncations(&templates);
    let muts = families::mutations(&templates);
    ctx.set_extra("templates", json!(templates.len()));
    ctx.set_extra("slots", json!(slots.len()));
    ctx.set_extra("family_trunc_requests", json!(trunc.len()));
    ctx.set_extra("family_mut_requests", json!(muts.len()));
    drive::run_reqs(&ctx, &world, &slots, &trunc, false, verdict);
    drive::run_reqs(&ctx, &world, &slots, &muts, false, verdict);
    eprintln!("[C01] trunc+mut done at {:.1}s ({} calls)", ctx.elapsed_s(), ctx.evaluations());

    // (d) size sweep: question / key-name / advertised-size lengths swept one
    // octet at a time on the std catalog under every configuration.
    let sweep = families::size_sweep(ctx.quick());
    let sweep_slots: Vec<Slot> = cfgs.iter().map(|cfg| Slot::new(&world, "std", *cfg)).collect();
    ctx.set_extra("family_size_sweep_requests", json!(sweep.len()));
    drive::run_reqs(&ctx, &world, &sweep_slots, &sweep, false, verdict);
    eprintln!("[C01] size-sweep done at {:.1}s ({} calls)", ctx.elapsed_s(), ctx.evaluations());

    // (e) large generated zones (wide RRsets and delegations with glue whose
    // address octets look like pointers; names straddling offset 0x4000):
    // the compression scans of the writer run over long histories here.
    for (gname, reqs) in crate::zones::large_universes() {
        let gslots: Vec<Slot> = cfgs.iter().map(|cfg| Slot::new(&world, gname, *cfg)).collect();
        ctx.set_extra(&format!("family_query_{gname}_requests"), json!(reqs.len()));
        drive::run_reqs(&ctx, &world, &gslots, &reqs, false, verdict);
    }
    eprintln!("[C01] large-zone queries done at {:.1}s ({} calls)", ctx.elapsed_s(), ctx.evaluations());

    // (a) raw
    let headers = families::raw_headers();
    let mk = |v: &[(&str, usize)]| -> Vec<Slot> { v.iter().map(|(cat, k)| Slot::new(&world, cat, cfgs[*k])).collect() };
    let raw_slots = mk(&RAW_SLOTS);
    let (max, max_qr) = ctx.pick((4, 2), (5, 3));
    ctx.set_extra("family_raw_headers", json!(headers.len()));
    ctx.set_extra("family_raw_max_suffix", json!(max));
    ctx.set_extra("family_raw_slots", json!(raw_slots.iter().map(|s| format!("{}/{}", s.cat, s.cfg.name())).collect::<Vec<_>>()));
    drive::run_raw(&ctx, &world, &raw_slots, &headers, max, max_qr, verdict);
    if !ctx.quick() {
        // two more (catalog, configuration) pairs, incl. RRL, with strings <= 4
        let more = mk(&RAW_SLOTS_MORE);
        ctx.set_extra("family_raw_slots_suffix4", json!(more.iter().map(|s| format!("{}/{}", s.cat, s.cfg.name())).collect::<Vec<_>>()));
        drive::run_raw(&ctx, &world, &more, &headers, 4, 2, verdict);
    }
    eprintln!("[C01] raw done at {:.1}s ({} calls)", ctx.elapsed_s(), ctx.evaluations());

    if !ctx.quick() {
        // Thorough: mutation x truncation on every slot; pairs of mutations
        // on one slot per catalog (configuration with TSIG keys and the
        // largest EDNS size, which reaches the most code).
        drive::run_reqs(&ctx, &world, &slots, &muts, true, verdict);
        eprintln!("[C01] mut-trunc done at {:.1}s ({} calls)", ctx.elapsed_s(), ctx.evaluations());
        let pair_slots: Vec<Slot> = world
            .cat_names()
            .iter()
            .flat_map(|cat| [Slot::new(&world, cat, cfgs[2]), Slot::new(&world, cat, cfgs[4])])
            .collect();
        drive::run_double_mutations(&ctx, &world, &pair_slots, &templates, verdict);
        eprintln!("[C01] mut2 done at {:.1}s ({} calls)", ctx.elapsed_s(), ctx.evaluations());
    }
    ctx.assume("qvlib::qd::handle passes a 65535-octet response buffer (the API contract of handle_message), so buffer-size panics are out of scope");
    ctx.assume("a request's UDP size bound is computed by the harness's own lenient record walk (refmodel::scan_request); it is an upper bound, exact limits are C04's subject");
    ctx.finish("exploration", RULE, true)
}

const RULE: &str = "every member of: size sweep (QNAME length x key-name length x advertised EDNS size, one octet at a time, with unsigned / unknown-algorithm / valid TSIG); raw headers x all strings <= N over 10 octets; every truncation of every template; every single-field/structural mutation of every template (thorough: x every truncation, and all mutation pairs); x transports x server configurations x catalogs; oracle: no panic and response length <= transport limit";


/// Shared replay of a families-type case (C01, C02, C03 use the same case
/// layout): runs exactly that case through the property's verdict.
pub fn replay(ctx: Ctx, world: &World, verdict: drive::Verdict, rule: &str) -> ! {
    thread_init();
    let case = ctx.replay_case().unwrap().clone();
    let ci = parse_case(&case);
    let slot = Slot::new(world, &ci.cat, ci.cfg);
    let results = slot.exchange(world, &ci.req, ci.tp);
    println!("replay: catalog={} cfg={} tp={} family={} desc={}", ci.cat, ci.cfg.name(), ci.tp.name(), ci.family, ci.desc);
    println!("request ({} octets): {}", ci.req.len(), qvlib::hex(&ci.req));
    for (i, r) in results.iter().enumerate() {
        println!("result[{i}]: {}", show(r));
    }
    {
        let mut l = ctx.local();
        l.tick_n(results.len() as u64);
        let desc = ci.desc.clone();
        let fam: &'static str = Box::leak(ci.family.clone().into_boxed_str());
        verdict(&mut l, &Case { slot: &slot, tp: ci.tp, family: fam, desc: &|| desc.clone(), req: &ci.req }, &results);
    }
    println!("replay verdict: {}", if ctx.violation_count() > 0 { "VIOLATION reproduced" } else { "no violation" });
    ctx.finish("exploration", rule, false)
}
