//! Shared reference model, written from RFC 1035 / 6891 / 8945 and the
//! property statements. Nothing here calls quandary.
//!
//! * `scan_request`: a lenient walk over a (possibly malformed) request that
//!   finds what any DNS server must be able to find: the header, the extent
//!   of the question and the OPT records of the additional section.
//! * `udp_limit_upper_bound`: the largest UDP response the request can
//!   justify (RFC 1035 §4.2.1: 512; RFC 6891 §6.2.3-6.2.5: the advertised
//!   size, at least 512, at most the server's own size).
//! * `check_wellformed`: C02's verdict on one response.
//! * `c03_expect` / `c03_check`: C03's closed formula.

use qvlib::wire::{self, decode_message, decode_name, t, Header, Msg, PtrRule};

// ------------------------------------------------------------ requests

#[derive(Clone, Debug, Default)]
pub struct ReqScan {
    pub header: Option<Header>,
    /// CLASS fields (= advertised payload sizes) of the OPT records met in
    /// the additional section, in message order, as far as the walk got.
    pub opt_sizes: Vec<u16>,
    /// The walk reached the end of the last counted record.
    pub walk_complete: bool,
    /// Offset after the last counted record if the walk completed.
    pub end: usize,
}

/// Skips the first chunk of a name (labels up to the root label or the first
/// pointer), as any record walker does. Reserved label types end the walk.
fn skip_name(b: &[u8], mut i: usize) -> Option<usize> {
    loop {
        let l = *b.get(i)?;
        if l == 0 {
            return Some(i + 1);
        }
        if l & 0xc0 == 0xc0 {
            b.get(i + 1)?;
            return Some(i + 2);
        }
        if l > 63 {
            return None;
        }
        i += 1 + l as usize;
    }
}

pub fn scan_request(b: &[u8]) -> ReqScan {
    let mut s = ReqScan::default();
    let Some(h) = Header::parse(b) else { return s };
    s.header = Some(h.clone());
    let mut i = 12;
    for _ in 0..h.qdcount {
        let Some(e) = skip_name(b, i) else { return s };
        if e + 4 > b.len() {
            return s;
        }
        i = e + 4;
    }
    let before_additional = h.ancount as usize + h.nscount as usize;
    let total = before_additional + h.arcount as usize;
    for k in 0..total {
        let Some(e) = skip_name(b, i) else { return s };
        if e + 10 > b.len() {
            return s;
        }
        let typ = u16::from_be_bytes([b[e], b[e + 1]]);
        let class = u16::from_be_bytes([b[e + 2], b[e + 3]]);
        let rdlen = u16::from_be_bytes([b[e + 8], b[e + 9]]) as usize;
        if typ == t::OPT && k >= before_additional {
            // Counted as soon as its fixed fields are readable: lenient on
            // purpose (an upper bound must never be too small).
            s.opt_sizes.push(class);
        }
        if e + 10 + rdlen > b.len() {
            return s;
        }
        i = e + 10 + rdlen;
    }
    s.walk_complete = true;
    s.end = i;
    s
}

/// RFC 6891 §6.2.5: values below 512 are treated as 512; the responder never
/// exceeds its own maximum.
pub fn negotiated(advertised: u16, server_size: u16) -> usize {
    (advertised.max(512)).min(server_size.max(512)) as usize
}

/// The largest UDP response this request can justify.
pub fn udp_limit_upper_bound(scan: &ReqScan, server_size: u16) -> usize {
    scan.opt_sizes.iter().map(|a| negotiated(*a, server_size)).max().unwrap_or(512)
}

// ----------------------------------------------------------- responses

/// C02: the response decodes completely and strictly; at most one OPT and
/// only in the additional section; a TSIG, if present, is the last record of
/// the message (and there is only one).
pub fn check_wellformed(resp: &[u8]) -> Result<Msg, (String, String)> {
    let m = decode_message(resp, PtrRule::BeforePointer, true).map_err(|e| ("undecodable".to_string(), e))?;
    for (sec, rrs) in [("answer", &m.answers), ("authority", &m.authority)] {
        for r in rrs.iter() {
            if r.typ == t::OPT {
                return Err(("opt-outside-additional".into(), format!("OPT record in the {sec} section")));
            }
            if r.typ == t::TSIG {
                return Err(("tsig-outside-additional".into(), format!("TSIG record in the {sec} section")));
            }
        }
    }
    let nopt = m.additional.iter().filter(|r| r.typ == t::OPT).count();
    if nopt > 1 {
        return Err(("opt-more-than-once".into(), format!("{nopt} OPT records")));
    }
    let ntsig = m.additional.iter().filter(|r| r.typ == t::TSIG).count();
    if ntsig > 1 {
        return Err(("tsig-more-than-once".into(), format!("{ntsig} TSIG records")));
    }
    if ntsig == 1 && m.additional.last().map(|r| r.typ) != Some(t::TSIG) {
        return Err(("tsig-not-last".into(), "a record follows the TSIG record".into()));
    }
    Ok(m)
}

/// Short description of a response for outcome classes (header octets only;
/// no decoding).
pub fn brief(resp: &[u8]) -> String {
    match Header::parse(resp) {
        None => format!("short({})", resp.len()),
        Some(h) => format!(
            "rcode={},aa={},tc={},qd={},an={},ns={},ar={}",
            h.rcode,
            h.aa as u8,
            h.tc as u8,
            h.qdcount.min(2),
            bucket(h.ancount),
            bucket(h.nscount),
            bucket(h.arcount)
        ),
    }
}

fn bucket(n: u16) -> &'static str {
    match n {
        0 => "0",
        1 => "1",
        2 => "2",
        _ => "3+",
    }
}

// ------------------------------------------------------------------ C03

#[derive(Clone, Debug, PartialEq, Eq)]
pub enum QExpect {
    /// QDCOUNT = 0: the response has no question either.
    Absent,
    /// One parseable, uncompressed question: repeated octet for octet.
    EchoRaw(Vec<u8>),
    /// One parseable question whose QNAME uses compression: the decompressed,
    /// case-preserved name, type and class must be repeated.
    EchoDecoded { qname: Vec<u8>, qtype: u16, qclass: u16 },
    /// The two pointer rules disagree on whether the QNAME parses: either
    /// behaviour is accepted.
    Ambiguous,
    /// QDCOUNT = 1 but the question does not parse: nothing is demanded of
    /// the response's question section.
    Unparseable,
}

#[derive(Clone, Debug, PartialEq, Eq)]
pub enum Expect {
    NoResponse(&'static str),
    Response { id: u16, opcode: u8, rd: bool, question: QExpect },
}

pub fn c03_expect(req: &[u8]) -> Expect {
    let Some(h) = Header::parse(req) else { return Expect::NoResponse("shorter than 12 octets") };
    if h.qr {
        return Expect::NoResponse("QR set");
    }
    if h.qdcount > 1 {
        return Expect::NoResponse("more than one question");
    }
    let question = if h.qdcount == 0 {
        QExpect::Absent
    } else {
        let parse = |rule: PtrRule| -> Option<(Vec<u8>, usize, bool)> {
            let d = decode_name(req, 12, rule).ok()?;
            let e = 12 + d.first_chunk_len;
            if e + 4 > req.len() {
                return None;
            }
            Some((d.name, e, !d.pointers.is_empty()))
        };
        match (parse(PtrRule::BeforeChunkStart), parse(PtrRule::BeforePointer)) {
            (None, None) => QExpect::Unparseable,
            (Some((name, e, compressed)), Some(_)) => {
                if compressed {
                    QExpect::EchoDecoded {
                        qname: name,
                        qtype: u16::from_be_bytes([req[e], req[e + 1]]),
                        qclass: u16::from_be_bytes([req[e + 2], req[e + 3]]),
                    }
                } else {
                    QExpect::EchoRaw(req[12..e + 4].to_vec())
                }
            }
            _ => QExpect::Ambiguous,
        }
    };
    Expect::Response { id: h.id, opcode: h.opcode, rd: h.opcode == 0 && h.rd, question }
}

/// Ok(outcome class) or Err((violation key, explanation)).
pub fn c03_check(req: &[u8], got: &Option<Vec<u8>>) -> Result<String, (String, String)> {
    let exp = c03_expect(req);
    match (&exp, got) {
        (Expect::NoResponse(why), None) => Ok(format!("none:{why}")),
        (Expect::NoResponse(why), Some(_)) => Err(("response-to-ignorable-request".into(), format!("a response was sent although the request has {why}"))),
        // The statement says what a response looks like, not that one is
        // sent; a missing response is reported as an outcome class only.
        (Expect::Response { .. }, None) => Ok("none:unprescribed".into()),
        (Expect::Response { id, opcode, rd, question }, Some(resp)) => {
            let Some(h) = Header::parse(resp) else {
                return Err(("short-response".into(), format!("response of {} octets", resp.len())));
            };
            if h.id != *id {
                return Err(("id".into(), format!("ID {:#06x}, expected {:#06x}", h.id, id)));
            }
            if !h.qr {
                return Err(("qr-clear".into(), "QR is clear in the response".into()));
            }
            if h.opcode != *opcode {
                return Err(("opcode".into(), format!("opcode {}, expected {}", h.opcode, opcode)));
            }
            if h.rd != *rd {
                return Err((if *opcode == 0 { "rd-not-copied" } else { "rd-copied-for-non-query" }.into(), format!("RD {}, expected {}", h.rd as u8, *rd as u8)));
            }
            if h.ra {
                return Err(("ra-set".into(), "RA is set".into()));
            }
            if h.z != 0 {
                return Err(("reserved-bits".into(), format!("reserved header bits {:#x}", h.z)));
            }
            let qclass = match question {
                QExpect::Absent => {
                    if h.qdcount != 0 {
                        return Err(("question-invented".into(), format!("QDCOUNT {} in the response to a request without question", h.qdcount)));
                    }
                    "q=absent"
                }
                QExpect::EchoRaw(raw) => {
                    if h.qdcount != 1 {
                        return Err(("question-dropped".into(), format!("QDCOUNT {} in the response, expected 1", h.qdcount)));
                    }
                    if resp.len() < 12 + raw.len() || &resp[12..12 + raw.len()] != &raw[..] {
                        return Err(("question-not-echoed".into(), "the question section differs from the request's".into()));
                    }
                    "q=echo"
                }
                QExpect::EchoDecoded { qname, qtype, qclass } => {
                    if h.qdcount != 1 {
                        return Err(("question-dropped".into(), format!("QDCOUNT {} in the response, expected 1", h.qdcount)));
                    }
                    let d = decode_name(resp, 12, PtrRule::BeforePointer).map_err(|e| ("question-not-echoed".to_string(), format!("response QNAME: {e:?}")))?;
                    let e = 12 + d.first_chunk_len;
                    if e + 4 > resp.len()
                        || d.name != *qname
                        || u16::from_be_bytes([resp[e], resp[e + 1]]) != *qtype
                        || u16::from_be_bytes([resp[e + 2], resp[e + 3]]) != *qclass
                    {
                        return Err(("question-not-echoed".into(), format!("decoded question differs (QNAME {})", wire::name_text(&d.name))));
                    }
                    "q=echo-decompressed"
                }
                QExpect::Ambiguous => "q=ambiguous",
                QExpect::Unparseable => "q=unparseable",
            };
            Ok(format!("resp:{qclass},op={},rd={},rcode={},aa={},tc={},qd={}", h.opcode, h.rd as u8, h.rcode, h.aa as u8, h.tc as u8, h.qdcount))
        }
    }
}
