//! Shared plumbing of the four server-level checks: the catalog/server
//! "world", a server handle that hides the catalog type, the exchange
//! primitive (one request -> the responses of every repetition) and the JSON
//! form of a case used by the replay files. No oracle logic lives here.

use std::sync::Arc;
use std::time::Duration;

use quandary::db::{HashMapTreeZone, SingleZoneCatalog};
use quandary::server::{RrlParams, Server, TsigKeyMap};
use qvlib::fixtures::{self, ServerCfg};
use qvlib::qd::{self, Cat, Tp};
use qvlib::{hex, json, unhex, Value};

pub type SingleCat = SingleZoneCatalog<HashMapTreeZone, ()>;

#[derive(Clone)]
pub enum CatRef {
    Tree(Arc<Cat>),
    Single(Arc<SingleCat>),
}

pub enum AnyServer {
    Tree(Server<Cat>),
    Single(Server<SingleCat>),
}

impl AnyServer {
    pub fn handle(&self, req: &[u8], tp: Tp) -> Result<Option<Vec<u8>>, String> {
        match self {
            AnyServer::Tree(s) => qd::handle(s, req, qd::localhost(), tp),
            AnyServer::Single(s) => qd::handle(s, req, qd::localhost(), tp),
        }
    }
}

/// Server configuration (the knobs `Server` exposes).
#[derive(Clone, Copy, Debug, PartialEq, Eq)]
pub struct Cfg {
    pub edns_size: u16,
    pub tsig: bool,
    /// (rate, window, slip), the same rate for the three categories.
    pub rrl: Option<(u32, u32, usize)>,
}

impl From<ServerCfg> for Cfg {
    fn from(c: ServerCfg) -> Cfg {
        Cfg { edns_size: c.edns_size, tsig: c.tsig, rrl: c.rrl }
    }
}

impl Cfg {
    pub fn plain(edns_size: u16, tsig: bool) -> Cfg {
        Cfg { edns_size, tsig, rrl: None }
    }
    pub fn name(&self) -> String {
        let mut s = format!("edns{}", self.edns_size);
        if self.tsig {
            s.push_str("+tsig");
        }
        if let Some((r, w, sl)) = self.rrl {
            s.push_str(&format!("+rrl({r},{w},slip{sl})"));
        }
        s
    }
    pub fn to_json(&self) -> Value {
        json!({"edns_size": self.edns_size, "tsig": self.tsig,
               "rrl": self.rrl.map(|(r, w, s)| json!([r, w, s]))})
    }
    pub fn from_json(v: &Value) -> Cfg {
        let rrl = v.get("rrl").and_then(|r| r.as_array()).map(|a| {
            (a[0].as_u64().unwrap() as u32, a[1].as_u64().unwrap() as u32, a[2].as_u64().unwrap() as usize)
        });
        Cfg {
            edns_size: v["edns_size"].as_u64().expect("edns_size") as u16,
            tsig: v["tsig"].as_bool().unwrap_or(false),
            rrl,
        }
    }
}

pub fn all_cfgs() -> Vec<Cfg> {
    fixtures::SERVER_CFGS.iter().map(|c| Cfg::from(*c)).collect()
}

/// Every worker thread must see the virtual TSIG clock at which the request
/// templates were signed, and a frozen RRL clock (so that "the second
/// identical request is limited" does not depend on wall time).
pub fn thread_init() {
    quandary::server::verif_hooks::set_tsig_unix_time(Some(qvlib::templates::TSIG_TIME));
    quandary::server::verif_hooks::set_rrl_elapsed(Some(Duration::from_secs(5)));
}

/// The named catalogs plus the TSIG key set.
pub struct World {
    pub cats: Vec<(String, CatRef)>,
    keys: Arc<TsigKeyMap>,
}

impl World {
    /// The fixture catalogs (empty, std, std+ch, nosoa, malformed,
    /// notyetloaded, failed+child), the std zone in a `SingleZoneCatalog`,
    /// and `extra`.
    pub fn new(extra: Vec<(String, CatRef)>) -> World {
        let mut cats: Vec<(String, CatRef)> = fixtures::catalogs()
            .into_iter()
            .map(|(n, c)| (n.to_string(), CatRef::Tree(Arc::new(c))))
            .collect();
        cats.push(("single".to_string(), CatRef::Single(Arc::new(fixtures::single_zone_catalog()))));
        cats.extend(extra);
        World { cats, keys: Arc::new(fixtures::tsig_keys()) }
    }

    /// Only `extra` (for checks that bring their own zones).
    pub fn only(extra: Vec<(String, CatRef)>) -> World {
        World { cats: extra, keys: Arc::new(fixtures::tsig_keys()) }
    }

    pub fn cat(&self, name: &str) -> &CatRef {
        &self.cats.iter().find(|(n, _)| n == name).unwrap_or_else(|| panic!("unknown catalog {name}")).1
    }

    pub fn cat_names(&self) -> Vec<String> {
        self.cats.iter().map(|(n, _)| n.clone()).collect()
    }

    /// A fresh server. RRL tables are kept tiny (7 buckets) so that a fresh
    /// server per case is cheap.
    pub fn server(&self, cat: &str, cfg: Cfg) -> AnyServer {
        fn configure<C>(s: &mut Server<C>, cfg: Cfg, keys: &Arc<TsigKeyMap>) {
            s.set_edns_udp_payload_size(cfg.edns_size).expect("edns size >= 512");
            if cfg.tsig {
                s.set_tsig_keys(keys.clone());
            }
            if let Some((rate, window, slip)) = cfg.rrl {
                let mut p = RrlParams::new(rate, rate, rate, window).expect("rrl params");
                p.set_slip(slip);
                p.set_size(7).expect("rrl size");
                s.set_rrl_params(Some(p));
            }
        }
        match self.cat(cat) {
            CatRef::Tree(c) => {
                let mut s = Server::new(c.clone());
                configure(&mut s, cfg, &self.keys);
                AnyServer::Tree(s)
            }
            CatRef::Single(c) => {
                let mut s = Server::new(c.clone());
                configure(&mut s, cfg, &self.keys);
                AnyServer::Single(s)
            }
        }
    }
}

/// One (catalog, configuration) pair; servers without RRL are stateless and
/// shared, servers with RRL are created fresh for every case.
pub struct Slot {
    pub cat: String,
    pub cfg: Cfg,
    shared: Option<AnyServer>,
}

impl Slot {
    pub fn new(world: &World, cat: &str, cfg: Cfg) -> Slot {
        let shared = if cfg.rrl.is_none() { Some(world.server(cat, cfg)) } else { None };
        Slot { cat: cat.to_string(), cfg, shared }
    }

    /// Sends `req`; without RRL once, with RRL twice to a fresh server (the
    /// second identical request is the rate-limited one). Returns the result
    /// of every repetition.
    pub fn exchange(&self, world: &World, req: &[u8], tp: Tp) -> Vec<Result<Option<Vec<u8>>, String>> {
        match &self.shared {
            Some(s) => vec![s.handle(req, tp)],
            None => {
                let s = world.server(&self.cat, self.cfg);
                vec![s.handle(req, tp), s.handle(req, tp)]
            }
        }
    }

    pub fn case(&self, prop: &str, family: &str, desc: &str, tp: Tp, req: &[u8]) -> Value {
        json!({"prop": prop, "family": family, "desc": desc, "catalog": self.cat, "cfg": self.cfg.to_json(),
               "tp": tp.name(), "req": hex(req)})
    }
}

/// The parts of a replay case common to all four properties.
pub struct CaseIn {
    pub family: String,
    pub desc: String,
    pub cat: String,
    pub cfg: Cfg,
    pub tp: Tp,
    pub req: Vec<u8>,
}

pub fn parse_case(v: &Value) -> CaseIn {
    CaseIn {
        family: v["family"].as_str().unwrap_or("").to_string(),
        desc: v["desc"].as_str().unwrap_or("").to_string(),
        cat: v["catalog"].as_str().expect("case.catalog").to_string(),
        cfg: Cfg::from_json(&v["cfg"]),
        tp: Tp::from_name(v["tp"].as_str().unwrap_or("udp")),
        req: unhex(v["req"].as_str().expect("case.req")),
    }
}

pub fn with_detail(mut case: Value, detail: Value) -> Value {
    case.as_object_mut().unwrap().insert("observed".into(), detail);
    case
}

pub fn show(r: &Result<Option<Vec<u8>>, String>) -> Value {
    match r {
        Ok(None) => json!("no response"),
        Ok(Some(b)) => json!({"len": b.len(), "octets": hex(&b[..b.len().min(700)])}),
        Err(p) => json!({"panic": p}),
    }
}
