//! Programmatically generated zones and the query universe derived from zone
//! contents (used by C02; C04 has its own size-sweep zone in c04.rs).
//! Everything is a deterministic function of constants: no sampling.

use std::sync::Arc;

use quandary::db::zone::GluePolicy;
use qvlib::fixtures::{mx_rdata, soa_rdata, srv_rdata, txt_rdata};
use qvlib::qd::{self, Rec};
use qvlib::reftsig::{self, Alg};
use qvlib::templates::{KEY1_NAME, KEY1_SECRET, KEY2_NAME, KEY2_SECRET, TSIG_TIME};
use qvlib::wire::{self, c, t, wname, wname_from_labels, MsgBuilder};

use crate::common::CatRef;
use crate::families::Req;

fn rec(o: &[u8], ty: u16, ttl: u32, rd: Vec<u8>) -> Rec {
    Rec::new(o, ty, c::IN, ttl, &rd)
}

fn cat(a: &[u8], b: &[u8]) -> Vec<u8> {
    [a, b].concat()
}

/// `deep.`: names at the 63 / 255 limits, long shared suffixes, every RDATA
/// type quandary knows, CNAME chains of length 8 (allowed) and 9 (refused),
/// wildcards, delegations with long glue names.
pub fn deep_zone_recs() -> Vec<Rec> {
    let apex = wname("deep.");
    let l63a = vec![b'a'; 63];
    let l63b = vec![b'b'; 63];
    let l63c = vec![b'c'; 63];
    let l56 = vec![b'd'; 56];
    let n255 = wname_from_labels(&[&l63a[..], &l63b[..], &l63c[..], &l56[..], b"deep"]);
    assert_eq!(n255.len(), 255);
    let n255b = wname_from_labels(&[&l63b[..], &l63b[..], &l63c[..], &l56[..], b"deep"]);
    let mid = wname_from_labels(&[&l63c[..], &l56[..], b"deep"]);
    let glue_owner = wname_from_labels(&[&b"n"[..], &l63a[..], &l63b[..], b"cut", b"deep"]);
    let mut v = vec![
        rec(&apex, t::SOA, 3600, soa_rdata("ns.deep.", "Admin.Deep.", 7, 1, 2, 3, 60)),
        rec(&apex, t::NS, 3600, wname("ns.deep.")),
        rec(&apex, t::NS, 3600, n255.clone()),
        rec(&wname("ns.deep."), t::A, 60, vec![192, 0, 2, 1]),
        rec(&n255, t::A, 60, vec![192, 0, 2, 2]),
        rec(&n255, t::AAAA, 60, vec![0x20, 1, 0xd, 0xb8, 0, 0, 0, 0, 0, 0, 0, 0, 0, 0, 0, 2]),
        rec(&n255b, t::A, 60, vec![192, 0, 2, 3]),
        rec(&mid, t::MX, 60, cat(&[0, 1], &n255)),
        rec(&mid, t::MX, 60, cat(&[0, 2], &n255b)),
        rec(&mid, t::MX, 60, mx_rdata(3, "ns.deep.")),
        rec(&mid, t::MX, 60, mx_rdata(4, "out.example.")),
        rec(&wname("srv.deep."), t::SRV, 60, cat(&[0, 1, 0, 2, 0, 53], &n255)),
        rec(&wname("srv.deep."), t::SRV, 60, srv_rdata(2, 3, 54, "ns.deep.")),
        rec(&wname("a.b.c.d.e.deep."), t::A, 60, vec![192, 0, 2, 4]),
        rec(&wname("b.c.d.e.deep."), t::TXT, 60, txt_rdata(&[b"", b"x", &[0u8; 255][..]])),
        rec(&wname("c.d.e.deep."), t::NS, 60, wname("ns.c.d.e.deep.")), // occludes the two above
        rec(&wname("ns.c.d.e.deep."), t::A, 60, vec![192, 0, 2, 5]),
        rec(&wname("cut.deep."), t::NS, 60, glue_owner.clone()),
        rec(&wname("cut.deep."), t::NS, 60, n255.clone()),
        rec(&wname("cut.deep."), t::NS, 60, wname("NS.Deep.")),
        rec(&wname("*.w.deep."), t::MX, 60, mx_rdata(5, "ns.deep.")),
        rec(&wname("*.w.deep."), t::TXT, 60, txt_rdata(&[b"wild"])),
        rec(&wname("*.cw.deep."), t::CNAME, 60, wname("a.b.c.d.e.deep.")),
        rec(&wname("tocut.deep."), t::CNAME, 60, wname("x.cut.deep.")),
        rec(&wname("towild.deep."), t::CNAME, 60, wname("q.w.deep.")),
        rec(&wname("tonx.deep."), t::CNAME, 60, wname("nx.deep.")),
        rec(&wname("hinfo.deep."), 13, 60, vec![3, b'c', b'p', b'u', 2, b'o', b's']),
        rec(&wname("minfo.deep."), 14, 60, cat(&wname("r.deep."), &wname("E.Deep."))),
        rec(&wname("ptr.deep."), t::PTR, 60, wname("ns.deep.")),
        rec(&wname("mb.deep."), t::MB, 60, wname("ns.deep.")),
        rec(&wname("mb.deep."), t::MG, 60, wname("mb.deep.")),
        rec(&wname("mb.deep."), t::MR, 60, wname("MB.deep.")),
        rec(&wname("mb.deep."), t::MD, 60, wname("ns.deep.")),
        rec(&wname("mb.deep."), t::MF, 60, n255.clone()),
        rec(&wname("wks.deep."), t::WKS, 60, vec![192, 0, 2, 9, 6, 0x80]),
        rec(&wname("unk.deep."), 65280, 60, vec![1, 2, 3]),
        rec(&wname("unk.deep."), 65280, 60, vec![]),
        rec(&wname("null.deep."), t::NULL, 60, vec![0xc0, 0x0c]),
    ];
    // glue for the first cut.deep NS target
    v.push(rec(&glue_owner, t::A, 60, vec![192, 0, 2, 6]));
    // CNAME chains: k1 -> k2 -> ... -> k9 (k9 has an A): from k1 nine links
    // (too long), from k2 eight links (allowed).
    for i in 1..=9 {
        v.push(rec(&wname(&format!("k{i}.deep.")), t::CNAME, 60, wname(&format!("k{}.deep.", i + 1))));
    }
    v.push(rec(&wname("k10.deep."), t::A, 60, vec![192, 0, 2, 7]));
    v
}

/// `big.`: RRsets that push later names beyond offset 0x3fff, where
/// compression pointers cannot reach.
pub fn big_zone_recs(scale: usize) -> Vec<Rec> {
    let apex = wname("big.");
    let mut v = vec![
        rec(&apex, t::SOA, 3600, soa_rdata("ns.big.", "admin.big.", 1, 1, 2, 3, 60)),
        rec(&apex, t::NS, 3600, wname("ns.big.")),
        rec(&wname("ns.big."), t::A, 60, vec![192, 0, 2, 1]),
        rec(&wname("m1.big."), t::A, 60, vec![192, 0, 2, 2]),
    ];
    // x.big.: ANY returns a 20 KB TXT RRset, an MX RRset, an A RRset in
    // hash-map order.
    for i in 0..(80 * scale) {
        let s = vec![b'a' + (i % 26) as u8; 200 + i % 50];
        let mut s2 = s.clone();
        s2[0] = (i / 26) as u8;
        v.push(rec(&wname("x.big."), t::TXT, 60, txt_rdata(&[&s2[..]])));
    }
    v.push(rec(&wname("x.big."), t::MX, 60, mx_rdata(1, "m1.big.")));
    v.push(rec(&wname("x.big."), t::MX, 60, mx_rdata(2, "far.away.example.")));
    v.push(rec(&wname("x.big."), t::A, 60, vec![192, 0, 2, 3]));
    // y.big.: MX RRset whose targets all have addresses: answer ~ 24 KB, the
    // additional section starts beyond 0x3fff.
    for i in 0..(1100 * scale) {
        let h = format!("h{i:04}.y.big.");
        v.push(rec(&wname("y.big."), t::MX, 60, mx_rdata(i as u16, &h)));
        v.push(rec(&wname(&h), t::A, 60, vec![10, 0, (i >> 8) as u8, i as u8]));
    }
    // z.big.: delegation with many in-bailiwick servers and glue.
    for i in 0..(900 * scale) {
        let h = format!("n{i:04}.z.big.");
        v.push(rec(&wname("z.big."), t::NS, 60, wname(&h)));
        v.push(rec(&wname(&h), t::A, 60, vec![10, 1, (i >> 8) as u8, i as u8]));
    }
    v
}

/// `wide.`: delegations, MX RRsets and SRV RRsets of every size 1..=20 and
/// 40 whose targets are in-bailiwick and have addresses. Address octets are
/// >= 0xc2 on purpose: any name walk that strays from a label into RDATA
/// meets octets that look like compression pointers.
pub fn wide_zone_recs() -> Vec<Rec> {
    let apex = wname("wide.");
    let mut v = vec![
        rec(&apex, t::SOA, 3600, soa_rdata("ns.wide.", "admin.wide.", 1, 1, 2, 3, 60)),
        rec(&apex, t::NS, 3600, wname("ns.wide.")),
        rec(&wname("ns.wide."), t::A, 60, vec![203, 0, 113, 250]),
    ];
    for n in wide_sizes() {
        for i in 0..n {
            let ns = wname(&format!("ns{i:02}.d{n:02}.wide."));
            v.push(rec(&wname(&format!("d{n:02}.wide.")), t::NS, 60, ns.clone()));
            v.push(rec(&ns, t::A, 60, vec![203, 0, 113, 194 + (i % 60) as u8]));
            if i % 3 == 0 {
                v.push(rec(&ns, t::AAAA, 60, vec![0xfd; 16]));
            }
            let mx = format!("mx{i:02}.m{n:02}.wide.");
            v.push(rec(&wname(&format!("m{n:02}.wide.")), t::MX, 60, mx_rdata(0xc2c2, &mx)));
            v.push(rec(&wname(&mx), t::A, 60, vec![198, 51, 100, 200 + (i % 50) as u8]));
            let sv = format!("sv{i:02}.s{n:02}.wide.");
            v.push(rec(&wname(&format!("s{n:02}.wide.")), t::SRV, 60, srv_rdata(0xc3c3, 0xc4c4, 0xc5c5, &sv)));
            v.push(rec(&wname(&sv), t::A, 60, vec![198, 51, 100, 210 + (i % 40) as u8]));
        }
    }
    v
}

pub fn wide_sizes() -> Vec<usize> {
    let mut v: Vec<usize> = (1..=20).collect();
    v.push(40);
    v
}

/// The names queried in `wide.`: every cut, a name below it, one of its
/// servers, every MX / SRV owner.
pub fn wide_names() -> Vec<Vec<u8>> {
    let mut v = vec![wname("wide.")];
    for n in wide_sizes() {
        for s in [format!("d{n:02}.wide."), format!("www.d{n:02}.wide."), format!("a.b.c.d{n:02}.wide."), format!("ns00.d{n:02}.wide."), format!("m{n:02}.wide."), format!("s{n:02}.wide.")] {
            v.push(wname(&s));
        }
    }
    v
}

pub const STRADDLE_ALIGNMENTS: usize = 40;
pub const STRADDLE_PAIRS: usize = 450;

/// `straddle.`: PTR and MX RRsets of 450 sibling pairs `aa.gNNNN.out.example.`
/// / `bb.gNNNN.out.example.`: every pair introduces a fresh literal label, so
/// in a response of ~18 KB some pair has its fresh label on either side of
/// offset 0x4000 (the first offset a compression pointer cannot reach). The
/// owner label length 1..=40 shifts the whole answer section one octet at a
/// time over the 40-octet period of a pair.
pub fn straddle_zone_recs() -> Vec<Rec> {
    let apex = wname("straddle.");
    let mut v = vec![
        rec(&apex, t::SOA, 3600, soa_rdata("ns.straddle.", "admin.straddle.", 1, 1, 2, 3, 60)),
        rec(&apex, t::NS, 3600, wname("ns.straddle.")),
        rec(&wname("ns.straddle."), t::A, 60, vec![192, 0, 2, 1]),
    ];
    for k in 1..=STRADDLE_ALIGNMENTS {
        let p = straddle_owner(b'p', k);
        let m = straddle_owner(b'm', k);
        for i in 0..STRADDLE_PAIRS {
            for pre in ["aa", "bb"] {
                let target = format!("{pre}.g{i:04}.out.example.");
                v.push(rec(&p, t::PTR, 60, wname(&target)));
                v.push(rec(&m, t::MX, 60, mx_rdata(i as u16, &target)));
            }
        }
    }
    v
}

pub fn straddle_owner(fill: u8, k: usize) -> Vec<u8> {
    wire::child(&vec![fill; k], &wname("straddle."))
}

/// Queries for the generated large zones (`big.` is queried by C02 through
/// its own name list): every name of `wide_names` x {A, NS, MX, SRV, ANY} x
/// decorations, and every straddle owner x its type x {plain, TSIG,
/// EDNS 65535 + TSIG}.
pub fn large_universes() -> Vec<(&'static str, Vec<Req>)> {
    let wide_decos = [Deco::Plain, Deco::Edns { size: 4096, dnssec_ok: false }, Deco::Tsig { key: 1 }, Deco::Tsig { key: 2 }, Deco::EdnsTsig { size: 4096, key: 1 }, Deco::EdnsTsig { size: 65535, key: 2 }];
    let wide = query_universe(&wide_names(), &[t::A, t::NS, t::MX, t::SRV, t::ANY], &[c::IN], &wide_decos);
    let sdecos = [Deco::Plain, Deco::Tsig { key: 1 }, Deco::EdnsTsig { size: 65535, key: 1 }];
    let mut straddle = Vec::new();
    for k in 1..=STRADDLE_ALIGNMENTS {
        straddle.extend(query_universe(&[straddle_owner(b'p', k)], &[t::PTR], &[c::IN], &sdecos));
        straddle.extend(query_universe(&[straddle_owner(b'm', k)], &[t::MX], &[c::IN], &sdecos));
    }
    let rev = query_universe(&rev_names(), &[t::A, t::NS, t::PTR, t::MX, t::SRV, t::ANY], &[c::IN], &[Deco::Plain, Deco::Edns { size: 1232, dnssec_ok: false }, Deco::Tsig { key: 1 }]);
    vec![("wide", wide), ("straddle", straddle), ("rev", rev)]
}

/// `2.0.192.in-addr.arpa.`: a zone whose apex has more labels than the names
/// its records point at - delegations (and MX / SRV / CNAME records) to name
/// servers outside the zone with fewer labels than the apex, to ancestors of
/// the apex and to the root, next to ordinary in-bailiwick ones.
pub fn rev_zone_recs() -> Vec<Rec> {
    let apex = wname("2.0.192.in-addr.arpa.");
    let n = |s: &str| wname(&format!("{s}.2.0.192.in-addr.arpa."));
    vec![
        rec(&apex, t::SOA, 3600, soa_rdata("ns.example.", "admin.example.", 1, 1, 2, 3, 60)),
        rec(&apex, t::NS, 3600, wname("ns.example.")),
        rec(&apex, t::NS, 3600, wname("arpa.")),
        rec(&n("0-127"), t::NS, 60, wname("ns1.customer.example.")),
        rec(&n("0-127"), t::NS, 60, wname("x.")),
        rec(&n("128-255"), t::NS, 60, wname("in-addr.arpa.")),
        rec(&n("128-255"), t::NS, 60, wname(".")),
        rec(&n("128-255"), t::NS, 60, n("ns.128-255")),
        rec(&n("ns.128-255"), t::A, 60, vec![192, 0, 2, 129]),
        rec(&n("mixed"), t::NS, 60, wname("b.")),
        rec(&n("mixed"), t::NS, 60, n("ns.mixed")),
        rec(&n("mixed"), t::NS, 60, wname("arpa.")),
        rec(&n("ns.mixed"), t::A, 60, vec![192, 0, 2, 200]),
        rec(&n("1"), t::PTR, 60, wname("host.example.")),
        rec(&n("2"), t::CNAME, 60, n("2.0-127")),
        rec(&n("m"), t::MX, 60, mx_rdata(1, "mx.")),
        rec(&n("m"), t::MX, 60, mx_rdata(2, ".")),
        rec(&n("s"), t::SRV, 60, srv_rdata(1, 2, 3, "arpa.")),
        // targets that are label-boundary confusers of the apex: one label
        // holding the apex's whole wire form (so the name ends, octet for
        // octet, like a name of the zone, yet has two labels only)
        rec(&n("cf"), t::CNAME, 60, rev_folded_apex(b"x")),
        rec(&n("mf"), t::MX, 60, [&[0u8, 1][..], &rev_folded_apex(b"y")[..]].concat()),
        rec(&n("df"), t::NS, 60, rev_folded_apex(b"z")),
    ]
}

/// `<prefix><wire form of 2.0.192.in-addr.arpa without its root octet>.` as a
/// single label below the root.
pub fn rev_folded_apex(prefix: &[u8]) -> Vec<u8> {
    let apex = wname("2.0.192.in-addr.arpa.");
    let mut label = prefix.to_vec();
    label.extend_from_slice(&apex[..apex.len() - 1]);
    wire::child(&label, &[0])
}

pub fn rev_names() -> Vec<Vec<u8>> {
    let mut v: Vec<Vec<u8>> = ["2.0.192.in-addr.arpa.", "0.192.in-addr.arpa.", "arpa.", "x."].iter().map(|s| wname(s)).collect();
    v.push(rev_folded_apex(b"x"));
    v.push(wire::child(b"w", &rev_folded_apex(b"x")));
    for s in ["0-127", "5.0-127", "a.b.0-127", "128-255", "200.128-255", "ns.128-255", "mixed", "9.mixed", "ns.mixed", "1", "2", "m", "s", "nx", "cf", "mf", "df", "q.df"] {
        v.push(wname(&format!("{s}.2.0.192.in-addr.arpa.")));
    }
    v
}

pub fn large_catalogs() -> Vec<(String, CatRef)> {
    vec![
        ("rev".to_string(), catalog_from(vec![("2.0.192.in-addr.arpa.", rev_zone_recs())])),
        ("wide".to_string(), catalog_from(vec![("wide.", wide_zone_recs())])),
        ("straddle".to_string(), catalog_from(vec![("straddle.", straddle_zone_recs())])),
    ]
}

pub fn catalog_from(zones: Vec<(&str, Vec<Rec>)>) -> CatRef {
    let zs = zones
        .into_iter()
        .map(|(apex, recs)| qd::build_zone(&wname(apex), c::IN, GluePolicy::Narrow, &recs).unwrap_or_else(|e| panic!("zone {apex}: record {} rejected: {}", e.0, e.1)))
        .collect();
    CatRef::Tree(Arc::new(qd::catalog_of(zs)))
}

// ------------------------------------------------------- query universe

fn flip_case(n: &[u8]) -> Vec<u8> {
    // Flip the case of every second letter of the labels.
    let mut out = n.to_vec();
    let mut i = 0;
    let mut k = 0;
    while i < out.len() && out[i] != 0 {
        let l = out[i] as usize;
        for j in i + 1..i + 1 + l {
            if out[j].is_ascii_alphabetic() {
                if k % 2 == 0 {
                    out[j] ^= 0x20;
                }
                k += 1;
            }
        }
        i += 1 + l;
    }
    out
}

/// Names "near" the zone contents: every owner, every name embedded in
/// RDATA, their parents, one child, the wildcard instantiation, a case
/// variant; plus a few names outside every zone.
pub fn name_universe(recs: &[Rec]) -> Vec<Vec<u8>> {
    let mut names: Vec<Vec<u8>> = Vec::new();
    let mut add = |n: Vec<u8>| {
        if n.len() <= 255 && !names.contains(&n) {
            names.push(n);
        }
    };
    for r in recs {
        let mut base = vec![r.owner.clone()];
        if let Some(fields) = wire::rdata_name_fields(r.class, r.typ, &r.rdata) {
            for (o, n) in fields {
                base.push(r.rdata[o..o + n].to_vec());
            }
        }
        for b in base {
            if b.len() > 2 && b[0] == 1 && b[1] == b'*' {
                // instantiate the wildcard, one and two labels deep
                add(wire::child(b"q", &b[2..]));
                add(wire::child(b"r", &wire::child(b"q", &b[2..])));
            }
            add(flip_case(&b));
            if let Some(p) = wire::parent(&b) {
                add(p);
            }
            if b.len() + 2 <= 255 {
                add(wire::child(b"x", &b));
            }
            add(b);
        }
    }
    for n in [".", "other.example.", "u.", "x.u.", "com."] {
        add(wname(n));
    }
    names
}

pub const QTYPES_QUICK: [u16; 14] = [t::A, t::NS, t::CNAME, t::SOA, t::MX, t::TXT, t::AAAA, t::SRV, t::OPT, t::TSIG, t::AXFR, t::ANY, 65280, 0];
pub const QTYPES_THOROUGH: [u16; 24] = [
    t::A, t::NS, t::MD, t::MF, t::CNAME, t::SOA, t::MB, t::MG, t::MR, t::NULL, t::WKS, t::PTR, t::HINFO, t::MINFO, t::MX, t::TXT, t::AAAA, t::SRV, t::OPT, t::TSIG, t::AXFR, t::ANY, 65280, 0,
];

#[derive(Clone, Copy, Debug, PartialEq, Eq)]
pub enum Deco {
    Plain,
    Edns { size: u16, dnssec_ok: bool },
    Tsig { key: u8 },
    EdnsTsig { size: u16, key: u8 },
}

pub const DECOS_QUICK: [Deco; 5] = [
    Deco::Plain,
    Deco::Edns { size: 1232, dnssec_ok: false },
    Deco::Edns { size: 512, dnssec_ok: true },
    Deco::Tsig { key: 1 },
    Deco::EdnsTsig { size: 4096, key: 2 },
];
pub const DECOS_THOROUGH: [Deco; 9] = [
    Deco::Plain,
    Deco::Edns { size: 1232, dnssec_ok: false },
    Deco::Edns { size: 512, dnssec_ok: true },
    Deco::Edns { size: 65535, dnssec_ok: false },
    Deco::Tsig { key: 1 },
    Deco::Tsig { key: 2 },
    Deco::Tsig { key: 0 },
    Deco::EdnsTsig { size: 4096, key: 2 },
    Deco::EdnsTsig { size: 65535, key: 1 },
];

/// Key 1 = k1. (HMAC-SHA256), key 2 = key2.example. (HMAC-SHA1), key 0 = a
/// key the server does not know.
pub fn sign(msg: &[u8], key: u8) -> Vec<u8> {
    match key {
        1 => reftsig::sign_request(msg, &wname(KEY1_NAME), Alg::Sha256, &Alg::Sha256.wire_name(), KEY1_SECRET, TSIG_TIME, 300, None).0,
        2 => reftsig::sign_request(msg, &wname(KEY2_NAME), Alg::Sha1, &Alg::Sha1.wire_name(), KEY2_SECRET, TSIG_TIME, 300, None).0,
        _ => reftsig::sign_request(msg, &wname("nokey."), Alg::Sha256, &Alg::Sha256.wire_name(), KEY1_SECRET, TSIG_TIME, 300, None).0,
    }
}

pub fn build_query(id: u16, flags: u16, qname: &[u8], qtype: u16, qclass: u16, deco: Deco) -> Vec<u8> {
    let b = MsgBuilder::new(id, flags).question(qname, qtype, qclass);
    match deco {
        Deco::Plain => b.build(),
        Deco::Edns { size, dnssec_ok } => b.opt(size, 0, 0, if dnssec_ok { 0x8000 } else { 0 }, &[]).build(),
        Deco::Tsig { key } => sign(&b.build(), key),
        Deco::EdnsTsig { size, key } => sign(&b.opt(size, 0, 0, 0, &[]).build(), key),
    }
}

/// The full product names x qtypes x qclasses x decorations.
pub fn query_universe(names: &[Vec<u8>], qtypes: &[u16], qclasses: &[u16], decos: &[Deco]) -> Vec<Req> {
    let mut out = Vec::new();
    for n in names {
        for qt in qtypes {
            for qc in qclasses {
                for d in decos {
                    out.push(Req {
                        family: "query",
                        desc: format!("{} type{} class{} {:?}", wire::name_text(n), qt, qc, d),
                        bytes: build_query(0x5151, 0x0100, n, *qt, *qc, *d),
                    });
                }
            }
        }
    }
    out
}
