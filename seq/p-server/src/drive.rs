//! Enumeration drivers: they walk a family completely, send every member to
//! every (catalog, configuration, transport) and hand the results to the
//! property's verdict function. Sharded over all cores by `par_for_each`.

use qvlib::enumerate::for_each_bytes_exact;
use qvlib::qd::Tp;
use qvlib::templates::Template;
use qvlib::{Ctx, Local};

use crate::common::{thread_init, Slot, World};
use crate::families::{apply, field_patches, Req, RAW_ALPHABET};

pub type Results = [Result<Option<Vec<u8>>, String>];

pub struct Case<'a> {
    pub slot: &'a Slot,
    pub tp: Tp,
    pub family: &'static str,
    pub desc: &'a dyn Fn() -> String,
    pub req: &'a [u8],
}

pub type Verdict = fn(&mut Local, &Case, &Results);

pub const TPS: [Tp; 2] = [Tp::Udp, Tp::Tcp];

fn one(l: &mut Local, world: &World, slot: &Slot, tp: Tp, family: &'static str, desc: &dyn Fn() -> String, req: &[u8], verdict: Verdict) {
    let results = slot.exchange(world, req, tp);
    l.tick_n(results.len() as u64);
    verdict(l, &Case { slot, tp, family, desc, req }, &results);
}

/// Every request of `reqs` (and, with `cut`, every prefix of length >= 12 of
/// every request) x every slot x every transport.
pub fn run_reqs(ctx: &Ctx, world: &World, slots: &[Slot], reqs: &[Req], cut: bool, verdict: Verdict) {
    let chunk = if cut { 16 } else { 256 };
    let mut items: Vec<(usize, usize)> = Vec::new();
    for s in 0..slots.len() {
        let mut i = 0;
        while i < reqs.len() {
            items.push((s, i));
            i += chunk;
        }
    }
    rotate(&mut items, ctx.seed);
    ctx.par_for_each(&items, |l, (s, start)| {
        thread_init();
        let slot = &slots[*s];
        for r in &reqs[*start..(*start + chunk).min(reqs.len())] {
            for tp in TPS {
                if cut {
                    for n in 12..r.bytes.len() {
                        one(l, world, slot, tp, "mut-trunc", &|| format!("({})[..{}]", r.desc, n), &r.bytes[..n], verdict);
                    }
                } else {
                    one(l, world, slot, tp, r.family, &|| r.desc.clone(), &r.bytes, verdict);
                }
            }
        }
    });
}

/// Every unordered pair of in-place single-field mutations (touching
/// different offsets) of every template x slot x transport.
pub fn run_double_mutations(ctx: &Ctx, world: &World, slots: &[Slot], templates: &[Template], verdict: Verdict) {
    let patches: Vec<_> = templates.iter().map(field_patches).collect();
    let mut items: Vec<(usize, usize, usize)> = Vec::new();
    for s in 0..slots.len() {
        for (t, ps) in patches.iter().enumerate() {
            for i in 0..ps.len() {
                items.push((s, t, i));
            }
        }
    }
    rotate(&mut items, ctx.seed);
    ctx.par_for_each(&items, |l, (s, t, i)| {
        thread_init();
        let slot = &slots[*s];
        let ps = &patches[*t];
        let first = apply(&templates[*t].bytes, &ps[*i]);
        for j in *i + 1..ps.len() {
            if ps[j].offset == ps[*i].offset {
                continue;
            }
            let m = apply(&first, &ps[j]);
            for tp in TPS {
                one(l, world, slot, tp, "mut2", &|| format!("{}:{}+{}", templates[*t].name, ps[*i].desc, ps[j].desc), &m, verdict);
            }
        }
    });
}

/// Raw family: every prefix (0..=11 octets) of every header, and every header
/// followed by every string of length 0..=max over `RAW_ALPHABET`
/// (`max_qr` for headers with QR set).
pub fn run_raw(ctx: &Ctx, world: &World, slots: &[Slot], headers: &[(bool, [u8; 12])], max: usize, max_qr: usize, verdict: Verdict) {
    let mut items: Vec<(usize, usize, Tp)> = Vec::new();
    for s in 0..slots.len() {
        for h in 0..headers.len() {
            for tp in TPS {
                items.push((s, h, tp));
            }
        }
    }
    rotate(&mut items, ctx.seed);
    ctx.par_for_each(&items, |l, (s, h, tp)| {
        thread_init();
        let slot = &slots[*s];
        let (qr, hdr) = &headers[*h];
        for n in 0..12 {
            one(l, world, slot, *tp, "raw", &|| format!("header-prefix {n}"), &hdr[..n], verdict);
        }
        let mut buf = hdr.to_vec();
        for len in 0..=(if *qr { max_qr } else { max }) {
            for_each_bytes_exact(&RAW_ALPHABET, len, |sfx| {
                buf.truncate(12);
                buf.extend_from_slice(sfx);
                one(l, world, slot, *tp, "raw", &|| "header+string".to_string(), &buf, verdict);
            });
        }
    });
}

/// VERIF_SEED only rotates the order in which shards are visited.
pub fn rotate<T>(items: &mut Vec<T>, seed: u64) {
    if !items.is_empty() {
        let k = (seed % items.len() as u64) as usize;
        items.rotate_left(k);
    }
}
