//! The request families shared by C01, C02 and C03. Every family is an
//! explicitly described finite set that is enumerated completely:
//!
//! * `truncations`: every template cut at every length 0..=len.
//! * `mutations`: every template with exactly one structural field changed
//!   to each value of a per-kind boundary menu; every record / question
//!   deleted, duplicated, moved to each other section; a few whole-header
//!   rewrites; junk appended.
//! * mutation x truncation and double mutations (thorough) are enumerated
//!   lazily by the callers from `field_patches` / `apply` / `mutations`.
//! * raw headers + short strings over the 10-octet alphabet (`raw_headers`,
//!   `RAW_ALPHABET`); the strings are enumerated by the caller to avoid
//!   materialising 10^8 buffers.

use qvlib::templates::{Field, FieldKind, Template};

#[derive(Clone, Debug)]
pub struct Req {
    pub family: &'static str,
    pub desc: String,
    pub bytes: Vec<u8>,
}

pub const RAW_ALPHABET: [u8; 10] = [0x00, 0x01, 0x03, 0x29, 0x3f, 0x40, 0xc0, 0x0c, 0xfa, 0xff];
pub const RAW_OPCODES: [u8; 7] = [0, 1, 2, 4, 5, 6, 15];
pub const RAW_COUNTS: [u16; 4] = [0, 1, 2, 0xffff];

/// Header shapes of the raw family: QR x opcode x section counts drawn from
/// {0,1,2,0xffff}^4 with at most two non-zero counts. ID 0x0c29 (two alphabet
/// octets, so that pointers into the header find label-like data).
pub fn raw_headers() -> Vec<(bool, [u8; 12])> {
    let mut out = Vec::new();
    for qr in [false, true] {
        for op in RAW_OPCODES {
            for a in RAW_COUNTS {
                for b in RAW_COUNTS {
                    for c in RAW_COUNTS {
                        for d in RAW_COUNTS {
                            let counts = [a, b, c, d];
                            if counts.iter().filter(|x| **x != 0).count() > 2 {
                                continue;
                            }
                            let mut h = [0u8; 12];
                            h[0] = 0x0c;
                            h[1] = 0x29;
                            h[2] = ((qr as u8) << 7) | (op << 3) | 0x01; // RD set
                            for (k, v) in counts.iter().enumerate() {
                                h[4 + 2 * k..6 + 2 * k].copy_from_slice(&v.to_be_bytes());
                            }
                            out.push((qr, h));
                        }
                    }
                }
            }
        }
    }
    out
}

pub fn truncations(templates: &[Template]) -> Vec<Req> {
    let mut out = Vec::new();
    for t in templates {
        for n in 0..=t.bytes.len() {
            out.push(Req { family: "trunc", desc: format!("{}[..{}]", t.name, n), bytes: t.bytes[..n].to_vec() });
        }
    }
    out
}

fn u16_at(b: &[u8], o: usize) -> u16 {
    u16::from_be_bytes([b[o], b[o + 1]])
}

fn dedup_ne<T: PartialEq + Copy>(vals: &[T], orig: T) -> Vec<T> {
    let mut out: Vec<T> = Vec::new();
    for v in vals {
        if *v != orig && !out.contains(v) {
            out.push(*v);
        }
    }
    out
}

/// A single-field mutation: overwrite `len` octets at `offset`.
#[derive(Clone, Debug)]
pub struct Patch {
    pub offset: usize,
    pub octets: Vec<u8>,
    pub desc: String,
}

/// The in-place single-field mutations of a template (no length change).
pub fn field_patches(t: &Template) -> Vec<Patch> {
    let b = &t.bytes;
    let len = b.len();
    let mut out = Vec::new();
    let mut p16 = |f: &Field, kind: &str, vals: Vec<u16>, out: &mut Vec<Patch>| {
        for v in vals {
            out.push(Patch { offset: f.offset, octets: v.to_be_bytes().to_vec(), desc: format!("{kind}@{}={:#x}", f.offset, v) });
        }
    };
    for f in &t.fields {
        match f.kind {
            FieldKind::Count => {
                let n = u16_at(b, f.offset);
                p16(f, "count", dedup_ne(&[0, n.wrapping_sub(1), n.wrapping_add(1), 2, 0x100, 0xffff], n), &mut out);
            }
            FieldKind::LabelLen => {
                let n = b[f.offset];
                for v in dedup_ne(&[0, n.wrapping_sub(1), n.wrapping_add(1), 0x3f, 0x40, 0x80, 0xc0, 0xff], n) {
                    out.push(Patch { offset: f.offset, octets: vec![v], desc: format!("label@{}={:#x}", f.offset, v) });
                }
            }
            FieldKind::Pointer => {
                let orig = u16_at(b, f.offset) & 0x3fff;
                let targets = dedup_ne(
                    &[0, 12, f.offset as u16, f.offset as u16 + 1, (len - 1) as u16, len as u16, orig.wrapping_sub(1) & 0x3fff, (orig + 1) & 0x3fff, 0x3fff],
                    orig,
                );
                for v in targets {
                    out.push(Patch { offset: f.offset, octets: (0xc000 | v).to_be_bytes().to_vec(), desc: format!("ptr@{}->{}", f.offset, v) });
                }
                for hi in [0x00u8, 0x40, 0x80] {
                    out.push(Patch { offset: f.offset, octets: vec![hi | (b[f.offset] & 0x3f)], desc: format!("ptr@{}-type={:#x}", f.offset, hi) });
                }
            }
            FieldKind::Rdlength => {
                let n = u16_at(b, f.offset);
                let rest = (len - (f.offset + 2)) as u16;
                p16(f, "rdlength", dedup_ne(&[0, n.wrapping_sub(1), n.wrapping_add(1), 0x3f, 0x40, 0xc0, 0xff, rest, rest.wrapping_add(1), rest.wrapping_sub(1), 0xffff], n), &mut out);
            }
            FieldKind::RrType => {
                let n = u16_at(b, f.offset);
                p16(f, "type", dedup_ne(&[0, 1, 2, 6, 41, 250, 252, 255, 0xffff], n), &mut out);
            }
            FieldKind::RrClass => {
                let n = u16_at(b, f.offset);
                p16(f, "class", dedup_ne(&[0, 1, 3, 254, 255, 511, 512, 513, 0xffff], n), &mut out);
            }
            FieldKind::RrTtl => {
                let n = u32::from_be_bytes([b[f.offset], b[f.offset + 1], b[f.offset + 2], b[f.offset + 3]]);
                for v in dedup_ne(&[0u32, 1, 0x0001_0000, 0x8000_0000, 0x8001_0000, 0x0000_8000, 0xff00_0000, 0xffff_ffff], n) {
                    out.push(Patch { offset: f.offset, octets: v.to_be_bytes().to_vec(), desc: format!("ttl@{}={:#x}", f.offset, v) });
                }
            }
            FieldKind::MacSize | FieldKind::OtherLen | FieldKind::OptLen => {
                let n = u16_at(b, f.offset);
                let rest = (len - (f.offset + 2)) as u16;
                p16(f, "len16", dedup_ne(&[0, n.wrapping_sub(1), n.wrapping_add(1), 9, 10, 16, 0x3f, 0x40, 0xff, rest, rest.wrapping_add(1), 0xffff], n), &mut out);
            }
            FieldKind::Record | FieldKind::Question => {}
        }
    }
    // Whole-flags rewrites (QR, every opcode class, all ones without QR, TC).
    let flags = u16_at(b, 2);
    for v in dedup_ne(&[flags | 0x8000, flags | 0x0200, (flags & 0x87ff) | (1 << 11), (flags & 0x87ff) | (2 << 11), (flags & 0x87ff) | (4 << 11), (flags & 0x87ff) | (5 << 11), (flags & 0x87ff) | (15 << 11), 0x7fff, 0x0000], flags) {
        out.push(Patch { offset: 2, octets: v.to_be_bytes().to_vec(), desc: format!("flags={:#06x}", v) });
    }
    out
}

pub fn apply(bytes: &[u8], p: &Patch) -> Vec<u8> {
    let mut m = bytes.to_vec();
    m[p.offset..p.offset + p.octets.len()].copy_from_slice(&p.octets);
    m
}

fn bump(m: &mut [u8], section: u8, delta: i32) {
    let o = 4 + 2 * section as usize;
    let n = u16_at(m, o) as i32 + delta;
    m[o..o + 2].copy_from_slice(&((n.clamp(0, 0xffff)) as u16).to_be_bytes());
}

/// Structural (length-changing) mutations: records and questions deleted,
/// duplicated, moved into another section; junk appended.
pub fn structural(t: &Template) -> Vec<Req> {
    let b = &t.bytes;
    let mut out = Vec::new();
    let mut push = |desc: String, bytes: Vec<u8>| out.push(Req { family: "mut", desc: format!("{}:{}", t.name, desc), bytes });
    for f in &t.fields {
        if !matches!(f.kind, FieldKind::Record | FieldKind::Question) {
            continue;
        }
        let (s, e) = (f.offset, f.offset + f.len);
        let what = if f.kind == FieldKind::Record { "rr" } else { "q" };
        // delete, with and without fixing the count
        let mut m = [&b[..s], &b[e..]].concat();
        push(format!("{what}@{s}-deleted-count-kept"), m.clone());
        bump(&mut m, f.section, -1);
        push(format!("{what}@{s}-deleted"), m);
        // duplicate in place, with and without fixing the count
        let mut m = [&b[..e], &b[s..e], &b[e..]].concat();
        push(format!("{what}@{s}-duplicated-count-kept"), m.clone());
        bump(&mut m, f.section, 1);
        push(format!("{what}@{s}-duplicated"), m);
        // duplicate at the very end (a record after TSIG, a second OPT, ...)
        let mut m = [&b[..], &b[s..e]].concat();
        bump(&mut m, if f.kind == FieldKind::Record { 3 } else { f.section }, 1);
        push(format!("{what}@{s}-appended"), m);
        if f.kind == FieldKind::Record {
            // recount the record into every other section (the octets stay
            // where they are when the target section is adjacent; otherwise
            // the record is moved to the end of the target section = start of
            // the records for "answer").
            for target in 1..=3u8 {
                if target == f.section {
                    continue;
                }
                let mut m = b.to_vec();
                bump(&mut m, f.section, -1);
                bump(&mut m, target, 1);
                push(format!("rr@{s}-recounted-into-section{target}"), m);
            }
            // move the record to the front of all records (after the questions)
            if let Some(first) = t.fields.iter().filter(|g| g.kind == FieldKind::Record).map(|g| g.offset).min() {
                if first < s {
                    let m = [&b[..first], &b[s..e], &b[first..s], &b[e..]].concat();
                    push(format!("rr@{s}-moved-first"), m);
                }
            }
        }
    }
    for junk in [&[0u8][..], &[0xff], &[0, 0], &[0xc0, 0x0c], &[0; 10], &[0xff; 11]] {
        push(format!("junk+{}x{:#x}", junk.len(), junk[0]), [&b[..], junk].concat());
    }
    out
}

pub fn mutations(templates: &[Template]) -> Vec<Req> {
    let mut out = Vec::new();
    for t in templates {
        for p in field_patches(t) {
            out.push(Req { family: "mut", desc: format!("{}:{}", t.name, p.desc), bytes: apply(&t.bytes, &p) });
        }
        out.extend(structural(t));
    }
    out
}


// ------------------------------------------------------------ size sweep

/// A wire name of exactly `n` octets (n >= 3) made of labels of `fill`;
/// beyond 255 octets the result is an over-long (invalid) name, on purpose.
pub fn name_of_len(n: usize, fill: u8) -> Vec<u8> {
    assert!(n >= 3);
    let mut body = n - 1; // octets of labels incl. their length octets
    let mut chunks: Vec<usize> = Vec::new();
    while body > 0 {
        let c = body.min(64);
        chunks.push(c);
        body -= c;
    }
    // a chunk of 1 would be an empty label: borrow one octet from a neighbour
    if let Some(last) = chunks.last().copied() {
        if last == 1 {
            let k = chunks.len();
            chunks[k - 1] = 2;
            chunks[k - 2] -= 1;
        }
    }
    let mut out = Vec::with_capacity(n);
    for c in chunks {
        out.push((c - 1) as u8);
        out.extend(std::iter::repeat(fill).take(c - 1));
    }
    out.push(0);
    assert_eq!(out.len(), n);
    out
}

/// Size-sweep family: queries whose QNAME length, TSIG key-name length and
/// advertised EDNS payload size are swept one octet at a time, so that "end
/// of question + space reserved for OPT/TSIG" takes every position relative
/// to the negotiated size limit (the arithmetic of `set_edns`, `set_tsig`,
/// `set_limit`, `finish`). The TSIG is unsigned garbage (BADKEY / BADSIG
/// paths), a correctly signed one under the fixture's short and 255-octet key
/// names, or one naming an unknown algorithm.
pub fn size_sweep(quick: bool) -> Vec<Req> {
    use qvlib::reftsig::{self, Alg};
    use qvlib::templates::{KEY1_NAME, KEY1_SECRET, TSIG_TIME};
    use qvlib::wire::{c, t, wname, MsgBuilder};
    let mut out = Vec::new();
    let l63 = vec![b'x'; 63];
    let long_key = qvlib::wire::wname_from_labels(&[&l63[..], &l63[..], &l63[..], &vec![b'k'; 61][..]]);
    let sha256 = Alg::Sha256.wire_name();
    let unknown_alg = wname("hmac-md5.sig-alg.reg.int.");
    // time signed of correctly signed requests: the server's (virtual) time,
    // or far outside the fudge window (the reply is then a *signed* BADTIME
    // one, whose TSIG RR carries 6 octets of other data)
    let stale = std::cell::Cell::new(false);
    let mut push = |desc: String, qlen: usize, klen: usize, alg: &[u8], opt: Option<u16>, signed: Option<&[u8]>| {
        let qname = name_of_len(qlen, b'q');
        let mut b = MsgBuilder::query(0x5153).question(&qname, t::A, c::IN);
        if let Some(p) = opt {
            b = b.opt(p, 0, 0, 0, &[]);
        }
        let msg = b.build();
        let bytes = match signed {
            Some(key_name) => reftsig::sign_request(&msg, key_name, Alg::Sha256, &sha256, KEY1_SECRET, if stale.get() { TSIG_TIME - 1_000_000 } else { TSIG_TIME }, 300, None).0,
            None => {
                let key = name_of_len(klen, b'k');
                let rd = reftsig::tsig_rdata(alg, TSIG_TIME, 300, &[0xab; 32], 0x5153, 0, &[]);
                let mut m = msg.clone();
                let ar = u16::from_be_bytes([m[10], m[11]]) + 1;
                m[10..12].copy_from_slice(&ar.to_be_bytes());
                m.extend_from_slice(&key);
                m.extend_from_slice(&t::TSIG.to_be_bytes());
                m.extend_from_slice(&c::ANY.to_be_bytes());
                m.extend_from_slice(&0u32.to_be_bytes());
                m.extend_from_slice(&(rd.len() as u16).to_be_bytes());
                m.extend_from_slice(&rd);
                m
            }
        };
        out.push(Req { family: "size-sweep", desc, bytes });
    };
    // (1) key-name length swept one octet at a time
    let qlens: &[usize] = if quick { &[5, 244, 255] } else { &[5, 60, 120, 200, 244, 250, 255] };
    for &ql in qlens {
        for kl in 3..=255usize {
            for (an, alg) in [("sha256", &sha256), ("unknown-alg", &unknown_alg)] {
                for opt in [None, Some(512u16), Some(1232), Some(4096)] {
                    push(format!("qname={ql} key={kl} alg={an} opt={opt:?} unsigned"), ql, kl, alg, opt, None);
                }
            }
        }
    }
    // (1b) algorithm-name, key-name and QNAME lengths across the 255/256
    // boundary (over-long names included), everything else short
    for al in 3..=262usize {
        let alg = name_of_len(al, b'g');
        for opt in [None, Some(1232u16)] {
            push(format!("qname=5 key=4 alg-name-len={al} opt={opt:?} unsigned"), 5, 4, &alg, opt, None);
            push(format!("qname=244 key=200 alg-name-len={al} opt={opt:?} unsigned"), 244, 200, &alg, opt, None);
        }
    }
    for kl in 256..=262usize {
        push(format!("qname=5 key={kl} alg=sha256 opt=None unsigned"), 5, kl, &sha256, None, None);
        push(format!("qname={kl} key=4 alg=sha256 opt=None unsigned"), kl, 4, &sha256, None, None);
    }
    // (2) advertised payload size swept one octet at a time
    let combos: &[(usize, usize)] = if quick { &[(244, 244), (255, 255), (5, 200)] } else { &[(244, 244), (255, 255), (5, 200), (200, 5), (120, 120), (244, 100), (100, 244)] };
    for &(ql, kl) in combos {
        for p in 480..=1300u16 {
            for (an, alg) in [("sha256", &sha256), ("unknown-alg", &unknown_alg)] {
                push(format!("qname={ql} key={kl} alg={an} opt={p} unsigned"), ql, kl, alg, Some(p), None);
            }
        }
    }
    // (3) correctly signed requests (short key and the fixture's 255-octet key)
    for ql in (3..=255usize).step_by(if quick { 4 } else { 1 }) {
        for opt in [None, Some(512u16), Some(700), Some(1232)] {
            push(format!("qname={ql} signed key=k1. opt={opt:?}"), ql, 0, &sha256, opt, Some(&wname(KEY1_NAME)));
            push(format!("qname={ql} signed key=255-octet opt={opt:?}"), ql, 0, &sha256, opt, Some(&long_key));
        }
    }
    for p in (480..=1300u16).step_by(if quick { 3 } else { 1 }) {
        push(format!("qname=255 signed key=255-octet opt={p}"), 255, 0, &sha256, Some(p), Some(&long_key));
        push(format!("qname=200 signed key=255-octet opt={p}"), 200, 0, &sha256, Some(p), Some(&long_key));
    }
    // (4) correctly signed but stale requests (signed BADTIME replies): every
    // QNAME length, both keys; and the advertised size swept for two lengths
    stale.set(true);
    for ql in 3..=255usize {
        for opt in [None, Some(512u16), Some(700)] {
            push(format!("qname={ql} signed-stale key=k1. opt={opt:?}"), ql, 0, &sha256, opt, Some(&wname(KEY1_NAME)));
            push(format!("qname={ql} signed-stale key=255-octet opt={opt:?}"), ql, 0, &sha256, opt, Some(&long_key));
        }
    }
    for p in (560..=700u16).step_by(if quick { 2 } else { 1 }) {
        push(format!("qname=255 signed-stale key=255-octet opt={p}"), 255, 0, &sha256, Some(p), Some(&long_key));
    }
    stale.set(false);
    out
}
