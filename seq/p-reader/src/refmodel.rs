//! Shared reference model of package p-reader (C15, C18, C19).
//!
//! Everything here is written from RFC 1035 / 2181 / 2782 / 3597 / 6891 /
//! 8945 and the property statements, on top of qvlib's independent wire
//! codec. Nothing in this file calls quandary.

use qvlib::wire::{self, c, t, PtrRule};

/// The pointer rule quandary documents (and DESIGN.md §7a fixes for C14/C15):
/// a pointer must target an offset before the start of the chunk it ends.
pub const RULE: PtrRule = PtrRule::BeforeChunkStart;

pub fn be16(m: &[u8], i: usize) -> u16 {
    u16::from_be_bytes([m[i], m[i + 1]])
}

pub fn be32(m: &[u8], i: usize) -> u32 {
    u32::from_be_bytes([m[i], m[i + 1], m[i + 2], m[i + 3]])
}

/// RFC 2181 §8: a TTL with the most significant bit set is treated as zero.
pub fn ttl_clamp(raw: u32) -> u32 {
    if raw > 0x7fff_ffff {
        0
    } else {
        raw
    }
}

/// What the reference model prescribes for one call.
#[derive(Clone, Debug)]
pub enum Exp<T> {
    /// The call must fail (string: why).
    MustErr(String),
    /// The call must succeed with this value.
    MustOk(T),
    /// The statement under-determines the case: the call may fail, but if it
    /// succeeds it must produce this value (string: why it is open).
    Either(T, &'static str),
}

impl<T> Exp<T> {
    pub fn describe(&self) -> String {
        match self {
            Exp::MustErr(w) => format!("must fail: {w}"),
            Exp::MustOk(_) => "must succeed".into(),
            Exp::Either(_, w) => format!("may fail or succeed: {w}"),
        }
    }
}

// ------------------------------------------------------------------ names

/// Scan of the first chunk of a possibly compressed name at `start`, without
/// following a pointer: this is all a *skipping* reader can know about the
/// name. Returns (length of the chunk in the message, lower bound of the
/// uncompressed length of the name), or None if the chunk cannot be
/// delimited (label type 0x40/0x80, label or length octet past the end).
///
/// A final pointer of which only the first octet is inside the message is
/// still reported (chunk length start..=pointer+1); every caller checks the
/// fields that follow against the message length, which rejects it.
pub fn first_chunk(msg: &[u8], start: usize) -> Option<(usize, usize)> {
    let mut i = start;
    loop {
        let b = *msg.get(i)?;
        if b & 0xc0 == 0xc0 {
            return Some((i + 2 - start, i + 1 - start));
        } else if b > 63 {
            return None;
        } else if b == 0 {
            return Some((i + 1 - start, i + 1 - start));
        }
        i += 1 + b as usize;
    }
}

#[derive(Clone, Debug, PartialEq, Eq)]
pub struct QExp {
    pub qname: Vec<u8>,
    pub qtype: u16,
    pub qclass: u16,
    pub end: usize,
}

/// Reading a question at `cur`: QNAME fully decoded (pointers followed).
pub fn exp_read_question(msg: &[u8], cur: usize) -> Exp<QExp> {
    let d = match wire::decode_name(msg, cur, RULE) {
        Ok(d) => d,
        Err(e) => return Exp::MustErr(format!("QNAME: {e:?}")),
    };
    let e = cur + d.first_chunk_len;
    if e + 4 > msg.len() {
        return Exp::MustErr("QTYPE/QCLASS truncated".into());
    }
    Exp::MustOk(QExp { qname: d.name, qtype: be16(msg, e), qclass: be16(msg, e + 2), end: e + 4 })
}

/// Skipping a question at `cur`: only the first chunk of the QNAME and the
/// presence of the fixed fields are required. A first chunk that already
/// proves the name longer than 255 octets may be rejected or not (the
/// statement does not say how much a skip validates).
pub fn exp_skip_question(msg: &[u8], cur: usize) -> Exp<usize> {
    let Some((cl, min_name)) = first_chunk(msg, cur) else {
        return Exp::MustErr("first chunk of QNAME cannot be delimited".into());
    };
    let end = cur + cl + 4;
    if end > msg.len() {
        return Exp::MustErr("QTYPE/QCLASS truncated".into());
    }
    if min_name > 255 {
        Exp::Either(end, "first chunk alone exceeds 255 octets")
    } else {
        Exp::MustOk(end)
    }
}

#[derive(Clone, Debug, PartialEq, Eq)]
pub struct DelimExp {
    pub owner_end: usize,
    pub typ: u16,
    pub class: u16,
    pub ttl_raw: u32,
    pub rdlength: u16,
    pub end: usize,
}

/// Skipping / peeking a record at `cur`: first chunk of the owner, the ten
/// fixed octets, and RDLENGTH within the message.
pub fn exp_delimit_rr(msg: &[u8], cur: usize) -> Exp<DelimExp> {
    let Some((cl, min_name)) = first_chunk(msg, cur) else {
        return Exp::MustErr("first chunk of owner cannot be delimited".into());
    };
    let e = cur + cl;
    if e + 10 > msg.len() {
        return Exp::MustErr("fixed fields truncated".into());
    }
    let rdlength = be16(msg, e + 8);
    let end = e + 10 + rdlength as usize;
    if end > msg.len() {
        return Exp::MustErr("RDATA runs past the end of the message".into());
    }
    let v = DelimExp { owner_end: e, typ: be16(msg, e), class: be16(msg, e + 2), ttl_raw: be32(msg, e + 4), rdlength, end };
    if min_name > 255 {
        Exp::Either(v, "first chunk alone exceeds 255 octets")
    } else {
        Exp::MustOk(v)
    }
}

#[derive(Clone, Debug, PartialEq, Eq)]
pub struct RrExp {
    pub owner: Vec<u8>,
    pub typ: u16,
    pub class: u16,
    pub ttl_raw: u32,
    pub rdlength: u16,
    /// RDATA with embedded names of known types decompressed.
    pub rdata: Vec<u8>,
    pub end: usize,
    pub rdata_had_pointers: bool,
}

/// Fully reading a record at `cur`.
pub fn exp_read_rr(msg: &[u8], cur: usize) -> Exp<RrExp> {
    let d = match wire::decode_name(msg, cur, RULE) {
        Ok(d) => d,
        Err(e) => return Exp::MustErr(format!("owner: {e:?}")),
    };
    let e = cur + d.first_chunk_len;
    if e + 10 > msg.len() {
        return Exp::MustErr("fixed fields truncated".into());
    }
    let (typ, class, ttl_raw, rdlength) = (be16(msg, e), be16(msg, e + 2), be32(msg, e + 4), be16(msg, e + 8));
    let ro = e + 10;
    let rd = match exp_rdata_read(msg, ro, rdlength, class, typ) {
        Exp::MustErr(w) => return Exp::MustErr(w),
        other => other,
    };
    let had_ptrs = wire::decode_rdata(msg, ro, rdlength as usize, class, typ, RULE).map(|d| !d.pointers.is_empty()).unwrap_or(false);
    let mk = |rdata: Vec<u8>| RrExp { owner: d.name.clone(), typ, class, ttl_raw, rdlength, rdata, end: ro + rdlength as usize, rdata_had_pointers: had_ptrs };
    match rd {
        Exp::MustOk(v) => Exp::MustOk(mk(v)),
        Exp::Either(v, w) => Exp::Either(mk(v), w),
        Exp::MustErr(_) => unreachable!(),
    }
}

/// `Rdata::read(class, typ, msg, cursor, rdlength)`: the RDATA must lie
/// inside the message, match the layout of its type with every embedded name
/// well formed (pointers strictly backwards), and the result is the RDATA
/// with those names decompressed.
///
/// Under-determined: a compression pointer inside a name that RFC 3597 §4
/// says must not be *sent* compressed (SRV target, CH A, TSIG algorithm).
/// RFC 3597 says receivers SHOULD decompress SRV; RFC 8945 §4.2 forbids
/// compressing the TSIG algorithm name. Either rejecting or decompressing
/// is accepted there; if accepted, the result must be the decompressed form.
pub fn exp_rdata_read(msg: &[u8], cursor: usize, rdlength: u16, class: u16, typ: u16) -> Exp<Vec<u8>> {
    match wire::decode_rdata(msg, cursor, rdlength as usize, class, typ, RULE) {
        Err(e) => Exp::MustErr(e),
        Ok(d) => {
            if d.pointers.iter().any(|p| !p.2) {
                Exp::Either(d.uncompressed, "pointer inside a name that must not be compressed")
            } else {
                Exp::MustOk(d.uncompressed)
            }
        }
    }
}

// --------------------------------------------------------------- equality

/// Types whose embedded names compare case-insensitively: they embed domain
/// names and predate RFC 3597 (RFC 1034/1035 types and RFC 2782 SRV).
pub fn ci_names_type(class: u16, typ: u16) -> bool {
    matches!(typ, t::NS | t::MD | t::MF | t::CNAME | t::MB | t::MG | t::MR | t::PTR | t::SOA | t::MINFO | t::MX)
        || (class == c::CH && typ == t::A)
        || (class == c::IN && typ == t::SRV)
}

/// Reference RDATA equality (C19): octet-wise, except that when *both*
/// operands are well formed for a `ci_names_type`, their embedded names are
/// compared ASCII-case-insensitively. None = the statement does not decide
/// (TSIG RDATA differing only in the case of the algorithm name: TSIG is a
/// pre-RFC 3597 type with an embedded name, but it is a meta-RR that never
/// appears in an RRset, and the code documents octet-wise comparison for
/// pseudo-RRs).
pub fn ref_equal(class: u16, typ: u16, a: &[u8], b: &[u8]) -> Option<bool> {
    if a == b {
        return Some(true);
    }
    if ci_names_type(class, typ) {
        if wire::rdata_valid(class, typ, a) && wire::rdata_valid(class, typ, b) {
            return Some(wire::canon_rdata(class, typ, a) == wire::canon_rdata(class, typ, b));
        }
        return Some(false);
    }
    if typ == t::TSIG && wire::rdata_valid(class, typ, a) && wire::rdata_valid(class, typ, b) && wire::canon_rdata(class, typ, a) == wire::canon_rdata(class, typ, b) {
        return None;
    }
    Some(false)
}

/// Reference RDATA set: keeps, in insertion order, the first member of each
/// equality class. `eq` is the equality to use.
pub fn ref_dedup<'a, E: Fn(&[u8], &[u8]) -> bool>(seq: impl Iterator<Item = &'a [u8]>, eq: E) -> (Vec<&'a [u8]>, Vec<bool>) {
    let mut kept: Vec<&[u8]> = Vec::new();
    let mut inserted = Vec::new();
    for r in seq {
        if kept.iter().any(|k| eq(r, k)) {
            inserted.push(false);
        } else {
            kept.push(r);
            inserted.push(true);
        }
    }
    (kept, inserted)
}

pub fn type_name(class: u16, typ: u16) -> String {
    let n = match typ {
        t::A => "A",
        t::NS => "NS",
        t::MD => "MD",
        t::MF => "MF",
        t::CNAME => "CNAME",
        t::SOA => "SOA",
        t::MB => "MB",
        t::MG => "MG",
        t::MR => "MR",
        t::NULL => "NULL",
        t::WKS => "WKS",
        t::PTR => "PTR",
        t::HINFO => "HINFO",
        t::MINFO => "MINFO",
        t::MX => "MX",
        t::TXT => "TXT",
        t::AAAA => "AAAA",
        t::SRV => "SRV",
        t::OPT => "OPT",
        t::TSIG => "TSIG",
        _ => return if wire::layout(class, typ).is_some() { format!("T{typ}") } else { "opaque".into() },
    };
    if wire::layout(class, typ).is_some() {
        if typ == t::A {
            format!("{}-A", if class == c::CH { "CH" } else { "IN" })
        } else {
            n.to_string()
        }
    } else {
        "opaque".into()
    }
}
