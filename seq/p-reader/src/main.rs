//! p-reader: bounded-exhaustive checks for
//!   C15 — the message reader is total, atomic and faithful
//!   C18 — RDATA reading, validation and writing are mutually consistent
//!   C19 — RDATA equality is an equivalence and RRsets deduplicate by it
//!
//! Usage: p-reader <C15|C18|C19> <quick|thorough> [--replay FILE]

mod c15;
mod c18;
mod c19;
mod gen;
mod refmodel;
mod watch;

fn main() {
    let ctx = qvlib::Ctx::from_args(&["C15", "C18", "C19"]);
    match ctx.id.as_str() {
        "C15" => c15::run(ctx),
        "C18" => c18::run(ctx),
        _ => c19::run(ctx),
    }
}
