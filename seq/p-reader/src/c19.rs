//! C19 — RDATA equality is an equivalence and RRsets deduplicate by it.
//!
//! Shape I (all pairs / triples of a pool per class/type) and shape H (all
//! insertion histories into an RdataSetOwned up to a depth bound).

use std::collections::BTreeSet;

use quandary::class::Class;
use quandary::rr::{RdataSetOwned, Type};

use qvlib::wire::{self, c, t, F};
use qvlib::{catch, hex, json, panic_key, qd, unhex, Ctx, Local, Value};

use crate::gen::Ct;
use crate::refmodel as rm;
use crate::watch;

const fn ct(class: u16, typ: u16, label: &'static str) -> Ct {
    Ct { class, typ, label }
}

/// Class/type menu: every name-bearing pre-RFC 3597 type (some also under
/// another class), plus name-free, opaque and meta types.
pub fn class_types() -> Vec<Ct> {
    vec![
        ct(c::IN, t::NS, "NS"),
        ct(c::IN, t::MD, "MD"),
        ct(c::IN, t::MF, "MF"),
        ct(c::IN, t::CNAME, "CNAME"),
        ct(c::IN, t::MB, "MB"),
        ct(c::IN, t::MG, "MG"),
        ct(c::IN, t::MR, "MR"),
        ct(c::IN, t::PTR, "PTR"),
        ct(c::IN, t::SOA, "SOA"),
        ct(c::IN, t::MINFO, "MINFO"),
        ct(c::IN, t::MX, "MX"),
        ct(c::IN, t::SRV, "IN-SRV"),
        ct(c::CH, t::A, "CH-A"),
        ct(c::CH, t::NS, "CH-NS"),
        ct(c::HS, t::MX, "HS-MX"),
        ct(65280, t::SOA, "C65280-SOA"),
        ct(c::CH, t::CNAME, "CH-CNAME"),
        // octet-wise types
        ct(c::IN, t::A, "IN-A"),
        ct(c::IN, t::AAAA, "IN-AAAA"),
        ct(c::IN, t::TXT, "TXT"),
        ct(c::IN, t::HINFO, "HINFO"),
        ct(c::IN, t::WKS, "IN-WKS"),
        ct(c::IN, t::NULL, "NULL"),
        ct(c::IN, 65280, "IN-TYPE65280"),
        ct(c::CH, t::SRV, "CH-SRV"),
        ct(c::HS, t::A, "HS-A"),
        ct(1232, t::OPT, "OPT"),
        ct(c::ANY, t::TSIG, "TSIG"),
    ]
}

/// Candidate encodings of one name field: valid names sharing labels with
/// case variants, and malformed ones.
fn name_candidates(rich: bool) -> Vec<(bool, Vec<u8>)> {
    let mut v: Vec<(bool, Vec<u8>)> = vec![
        (true, b"\x01a\x00".to_vec()),
        (true, b"\x01A\x00".to_vec()),
        (true, b"\x01b\x00".to_vec()),
        (true, b"\x00".to_vec()),
        (true, b"\x01a\x01b\x00".to_vec()),
        (true, b"\x01A\x01B\x00".to_vec()),
        // malformed
        (false, b"\x01a".to_vec()),     // truncated: no root
        (false, b"\x01A".to_vec()),     // same, other case
        (false, b"\x40a\x00".to_vec()), // reserved label type
        (false, b"\xc0\x00".to_vec()),  // compression pointer
    ];
    if rich {
        v.push((true, b"\x01a\x01B\x00".to_vec()));
        v.push((true, b"\x02ab\x00".to_vec()));
        v.push((true, b"\x02aB\x00".to_vec()));
        v.push((false, b"\x02a".to_vec()));
        v.push((false, vec![]));
    }
    v
}

/// Pool of RDATA (well formed and malformed) for one class/type.
pub fn pool(ctx: Ct, rich: bool) -> Vec<Vec<u8>> {
    let Some(lay) = wire::layout(ctx.class, ctx.typ) else {
        return opaque_pool(rich);
    };
    if !lay.iter().any(|f| matches!(f, F::NameC | F::NameU)) || ctx.typ == t::TSIG {
        let mut p = opaque_pool(rich);
        if ctx.typ == t::TSIG {
            for alg in [&b"\x04hmac\x00"[..], b"\x04HMAC\x00", b"\x04hmab\x00"] {
                for mac in [&[1u8, 2][..], &[1, 3]] {
                    let mut r = alg.to_vec();
                    r.extend_from_slice(&[0, 0, 0, 0, 0, 9, 1, 44, 0, 2]);
                    r.extend_from_slice(mac);
                    r.extend_from_slice(&[0x12, 0x34, 0, 0, 0, 0]);
                    assert!(wire::rdata_valid(ctx.class, ctx.typ, &r));
                    p.push(r);
                }
            }
        }
        return dedup(p);
    }
    // Name-bearing layout: product of per-field candidates. Fixed fields get
    // two right-length values (differing in one octet) and, at the end of
    // the RDATA, a too-short and a too-long one.
    let names = name_candidates(rich);
    let junk: [&[u8]; 3] = [b"", b"j", b"J"];
    let mut out: Vec<Vec<u8>> = vec![vec![]];
    let nf = lay.len();
    for (k, f) in lay.iter().enumerate() {
        let last = k + 1 == nf;
        let vals: Vec<Vec<u8>> = match *f {
            F::NameC | F::NameU => {
                let mut v: Vec<Vec<u8>> = Vec::new();
                for (_, n) in &names {
                    if last {
                        // a name in last position may be followed by junk
                        for j in junk {
                            let mut x = n.clone();
                            x.extend_from_slice(j);
                            v.push(x);
                        }
                    } else {
                        v.push(n.clone());
                    }
                }
                // two-name types: keep the product manageable by dropping
                // some malformed first names
                if !last && nf >= 2 && lay.iter().filter(|f| matches!(f, F::NameC | F::NameU)).count() >= 2 && !rich {
                    v.truncate(8);
                }
                v
            }
            F::Fixed(n) => {
                let a = vec![0u8; n];
                let mut b = a.clone();
                b[n - 1] = 1;
                let mut v = vec![a.clone(), b];
                if n >= 4 {
                    let mut cc = a.clone();
                    cc[0] = 0x80;
                    v.push(cc);
                }
                if last {
                    v.push(a[..n - 1].to_vec());
                    let mut long = a.clone();
                    long.push(0);
                    v.push(long);
                } else if k == 0 {
                    // leading fixed field cut short (and nothing after it)
                    v.push(a[..n - 1].to_vec());
                }
                v
            }
            _ => vec![vec![]],
        };
        let mut next = Vec::new();
        for p in &out {
            for v in &vals {
                let mut r = p.clone();
                r.extend_from_slice(v);
                next.push(r);
            }
        }
        out = next;
    }
    out.push(vec![]);
    dedup(out)
}

fn opaque_pool(rich: bool) -> Vec<Vec<u8>> {
    let mut v: Vec<Vec<u8>> = vec![
        vec![],
        vec![0],
        b"\x01a\x00".to_vec(),
        b"\x01A\x00".to_vec(),
        b"\x01a\x00j".to_vec(),
        vec![192, 0, 2, 1],
        vec![192, 0, 2, 2],
        b"\x03cpu\x02os".to_vec(),
        b"\x03CPU\x02os".to_vec(),
        vec![0, 10, 0, 0],
        (0..16).collect(),
        (1..17).collect(),
    ];
    if rich {
        v.push(b"\x00\x01\x00\x02\x00\x35\x01a\x00".to_vec());
        v.push(b"\x00\x01\x00\x02\x00\x35\x01A\x00".to_vec());
        v.push(vec![0xc0, 0x00]);
        v.push(b"\x01a".to_vec());
    }
    v
}

fn dedup(v: Vec<Vec<u8>>) -> Vec<Vec<u8>> {
    let mut seen = BTreeSet::new();
    v.into_iter().filter(|x| seen.insert(x.clone())).collect()
}

fn q_equals(ct: Ct, a: &[u8], b: &[u8]) -> Result<bool, String> {
    catch(|| qd::rdata(a).equals(qd::rdata(b), Class::from(ct.class), Type::from(ct.typ)))
}

fn pair_case(ct: Ct, a: &[u8], b: &[u8]) -> Value {
    json!({"kind": "pair", "class": ct.class, "type": ct.typ, "label": ct.label, "a": hex(a), "b": hex(b)})
}

fn shape(ct: Ct, a: &[u8]) -> &'static str {
    if wire::layout(ct.class, ct.typ).is_none() {
        "opaque"
    } else if wire::rdata_valid(ct.class, ct.typ, a) {
        "wf"
    } else {
        "mal"
    }
}

/// One ordered pair: equals(a, b) against the reference, and symmetry.
/// Returns the implementation's answer for (a, b).
fn check_pair(l: &mut Local, ct: Ct, a: &[u8], b: &[u8]) -> Option<bool> {
    l.tick();
    watch::note("pair", a, b, [ct.class as u64, ct.typ as u64, 0, 0]);
    let ab = match q_equals(ct, a, b) {
        Ok(v) => v,
        Err(p) => {
            l.violation(&format!("equals:{}:{}", ct.label, panic_key(&p)), { let mut c = pair_case(ct, a, b); c["panic"] = json!(p); c });
            return None;
        }
    };
    let want = rm::ref_equal(ct.class, ct.typ, a, b);
    if let Some(w) = want {
        if ab != w {
            let kind = if w { "unequal-but-reference-equal" } else { "equal-but-reference-unequal" };
            l.violation(&format!("equals:{}:{}", ct.label, kind), { let mut c = pair_case(ct, a, b); c["got"] = json!(ab); c["reference"] = json!(w); c });
        }
    }
    if a == b && !ab {
        l.violation(&format!("equals:{}:not-reflexive", ct.label), pair_case(ct, a, b));
    }
    let bitwise = a == b;
    let cls = format!(
        "equals:{}:{}-{}:{}{}",
        ct.label,
        shape(ct, a),
        shape(ct, b),
        if ab { if bitwise { "identical" } else { "equal-mod-case" } } else { "unequal" },
        if want.is_none() { ":open" } else { "" }
    );
    l.outcome(&cls, || pair_case(ct, a, b));
    Some(ab)
}

/// All pairs and triples of `pool`.
fn check_laws(l: &mut Local, ct: Ct, pool: &[Vec<u8>]) -> u64 {
    let n = pool.len();
    let mut m = vec![vec![false; n]; n];
    let mut ok = true;
    for i in 0..n {
        for j in 0..n {
            match check_pair(l, ct, &pool[i], &pool[j]) {
                Some(v) => m[i][j] = v,
                None => ok = false,
            }
        }
    }
    if !ok {
        return 0;
    }
    for i in 0..n {
        for j in 0..n {
            if m[i][j] != m[j][i] && i < j {
                l.violation(&format!("equals:{}:not-symmetric", ct.label), { let mut c = pair_case(ct, &pool[i], &pool[j]); c["a_eq_b"] = json!(m[i][j]); c["b_eq_a"] = json!(m[j][i]); c });
            }
        }
    }
    // transitivity over every ordered triple
    for i in 0..n {
        for j in 0..n {
            if !m[i][j] {
                continue;
            }
            for k in 0..n {
                if m[j][k] && !m[i][k] {
                    l.violation(
                        &format!("equals:{}:not-transitive", ct.label),
                        json!({"kind": "triple", "class": ct.class, "type": ct.typ, "label": ct.label, "a": hex(&pool[i]), "b": hex(&pool[j]), "c": hex(&pool[k])}),
                    );
                }
            }
        }
    }
    (n * n * n) as u64
}

fn check_triple(l: &mut Local, ct: Ct, a: &[u8], b: &[u8], cc: &[u8]) {
    let p = vec![a.to_vec(), b.to_vec(), cc.to_vec()];
    let _ = check_laws(l, ct, &p);
}

// ------------------------------------------------------------- RDATA sets

#[derive(Default)]
struct SetStats {
    histories: u64,
    inserts: u64,
    triples: u64,
}

fn set_case(ct: Ct, seq: &[&[u8]]) -> Value {
    json!({"kind": "set", "class": ct.class, "type": ct.typ, "label": ct.label, "sequence": seq.iter().map(|r| hex(r)).collect::<Vec<_>>()})
}

/// One insertion history, through insert() and through from_iter().
fn check_history(l: &mut Local, ct: Ct, seq: &[&[u8]]) -> Option<usize> {
    l.tick();
    {
        let mut flat = Vec::new();
        for r in seq {
            flat.extend_from_slice(&(r.len() as u16).to_be_bytes());
            flat.extend_from_slice(r);
        }
        watch::note("set", &flat, &[], [ct.class as u64, ct.typ as u64, 0, 0]);
    }
    let (class, typ) = (Class::from(ct.class), Type::from(ct.typ));
    // The reference set uses the reference equality; skip histories where it
    // is open (TSIG case variants).
    let open = std::cell::Cell::new(false);
    let (kept, inserted) = rm::ref_dedup(seq.iter().copied(), |a, b| match rm::ref_equal(ct.class, ct.typ, a, b) {
        Some(v) => v,
        None => {
            open.set(true);
            false
        }
    });
    if open.get() {
        return None;
    }
    let got = catch(|| {
        if seq.is_empty() {
            let none = RdataSetOwned::from_iter(class, typ, std::iter::empty()).is_none();
            return (vec![], vec![], if none { None } else { Some(vec![]) });
        }
        let mut set = RdataSetOwned::from(qd::rdata(seq[0]));
        let mut flags = vec![true];
        for r in &seq[1..] {
            flags.push(set.insert(class, typ, qd::rdata(r)));
        }
        let via_insert: Vec<Vec<u8>> = set.iter().map(|r| r.octets().to_vec()).collect();
        let via_iter = RdataSetOwned::from_iter(class, typ, seq.iter().map(|r| qd::rdata(r))).map(|s| s.iter().map(|r| r.octets().to_vec()).collect::<Vec<_>>());
        // a clone and the borrowed view must iterate identically
        let cloned: Vec<Vec<u8>> = set.clone().iter().map(|r| r.octets().to_vec()).collect();
        assert!(cloned == via_insert, "clone iterates differently");
        (via_insert, flags, via_iter)
    });
    match got {
        Err(p) => l.violation(&format!("set:{}:{}", ct.label, panic_key(&p)), { let mut c = set_case(ct, seq); c["panic"] = json!(p); c }),
        Ok((via_insert, flags, via_iter)) => {
            let want: Vec<Vec<u8>> = kept.iter().map(|r| r.to_vec()).collect();
            if seq.is_empty() {
                if via_iter.is_some() {
                    l.violation(&format!("set:{}:from_iter-of-nothing-is-some", ct.label), set_case(ct, seq));
                }
            } else {
                if via_insert != want {
                    l.violation(&format!("set:{}:insert-wrong-members", ct.label), { let mut c = set_case(ct, seq); c["got"] = json!(via_insert.iter().map(|r| hex(r)).collect::<Vec<_>>()); c["expected"] = json!(want.iter().map(|r| hex(r)).collect::<Vec<_>>()); c });
                }
                if flags != inserted {
                    l.violation(&format!("set:{}:insert-wrong-return", ct.label), { let mut c = set_case(ct, seq); c["got"] = json!(flags); c["expected"] = json!(inserted); c });
                }
                if via_iter.as_ref() != Some(&want) {
                    l.violation(&format!("set:{}:from_iter-wrong-members", ct.label), { let mut c = set_case(ct, seq); c["got"] = json!(via_iter.map(|v| v.iter().map(|r| hex(r)).collect::<Vec<_>>())); c["expected"] = json!(want.iter().map(|r| hex(r)).collect::<Vec<_>>()); c });
                }
            }
        }
    }
    let cls = if seq.is_empty() {
        "empty"
    } else if kept.len() == seq.len() {
        "all-kept"
    } else if kept.len() == 1 {
        "collapsed-to-one"
    } else {
        "some-dropped"
    };
    l.outcome(&format!("set:{}:{}", ct.label, cls), || set_case(ct, seq));
    Some(kept.len())
}

fn histories(l: &mut Local, ct: Ct, menu: &[&[u8]], depth: usize, st: &mut SetStats) {
    qvlib::enumerate::for_each_seq_upto(menu.len(), depth, |s| {
        let seq: Vec<&[u8]> = s.iter().map(|i| menu[*i]).collect();
        if check_history(l, ct, &seq).is_some() {
            st.histories += 1;
            st.inserts += seq.len() as u64;
        }
        true
    });
}

// -------------------------------------------------------------------- run

fn replay(ctx: &Ctx, case: &Value) {
    let mut l = ctx.local();
    let class = case["class"].as_u64().unwrap_or(1) as u16;
    let typ = case["type"].as_u64().unwrap_or(1) as u16;
    let ct = class_types().into_iter().find(|x| x.class == class && x.typ == typ).unwrap_or(Ct { class, typ, label: "replay" });
    let h = |k: &str| unhex(case[k].as_str().unwrap_or(""));
    match case["kind"].as_str().unwrap_or("") {
        "pair" => check_triple(&mut l, ct, &h("a"), &h("b"), &h("a")),
        "triple" => check_triple(&mut l, ct, &h("a"), &h("b"), &h("c")),
        "set" => {
            let rds: Vec<Vec<u8>> = case["sequence"].as_array().map(|a| a.iter().map(|v| unhex(v.as_str().unwrap_or(""))).collect()).unwrap_or_default();
            let refs: Vec<&[u8]> = rds.iter().map(|r| &r[..]).collect();
            check_history(&mut l, ct, &refs);
        }
        other => {
            eprintln!("unknown replay kind {other:?}");
            std::process::exit(2);
        }
    }
}

enum Item {
    Laws(Ct),
    /// histories over menu window `w` of the pool (second field: ordering)
    Window(Ct, usize, bool),
    /// histories over the whole pool with the given first member
    Whole(Ct, usize),
    /// laws and histories over the maximal-length menu (`long_pool`)
    Long(Ct),
    /// every pool member against every proper prefix of itself taken as a
    /// sub-slice of the same buffer (operands that share their start address),
    /// in both orders, and against a separately allocated copy of itself
    Alias(Ct),
}

/// RDATA at the upper end of the 16-bit length range (the RdataSet stores a
/// 16-bit length prefix per member): 65 535, 65 534 and 65 533 octets, a case
/// variant and a one-octet-shorter prefix of the longest, plus one short
/// member. For TXT the long members are valid <character-string> sequences;
/// for name-bearing types they are a valid name followed by junk (malformed,
/// hence compared octet-wise).
pub fn long_pool(ct: Ct) -> Vec<Vec<u8>> {
    let mk = |len: usize, fill: u8| -> Vec<u8> {
        if ct.typ == t::TXT {
            let mut out = Vec::with_capacity(len);
            let mut rem = len;
            while rem > 0 {
                let take = rem.min(256);
                out.push((take - 1) as u8);
                out.extend(std::iter::repeat(fill).take(take - 1));
                rem -= take;
            }
            out
        } else {
            let mut out = vec![1, fill, 0];
            out.resize(len, fill);
            out
        }
    };
    vec![mk(65535, b'a'), mk(65535, b'A'), mk(65534, b'a'), mk(65533, b'a'), mk(65534, b'A'), mk(3, b'a')]
}

const LONG_CTS: [&str; 6] = ["TXT", "NS", "CH-A", "NULL", "IN-TYPE65280", "HS-A"];

fn hang_case(n: &watch::Noted) -> (String, Value) {
    let (class, typ) = (n.nums[0], n.nums[1]);
    if n.kind == "pair" {
        ("equals:does-not-terminate".into(), json!({"kind": "pair", "class": class, "type": typ, "a": hex(&n.a), "b": hex(&n.b)}))
    } else {
        let mut seq = Vec::new();
        let mut i = 0;
        while i + 2 <= n.a.len() {
            let len = u16::from_be_bytes([n.a[i], n.a[i + 1]]) as usize;
            seq.push(hex(&n.a[i + 2..i + 2 + len]));
            i += 2 + len;
        }
        ("set:does-not-terminate".into(), json!({"kind": "set", "class": class, "type": typ, "sequence": seq}))
    }
}

pub fn run(ctx: Ctx) -> ! {
    watch::start(&ctx, hang_case, |c| finish(c, SetStats::default()));
    if let Some(case) = ctx.replay_case() {
        let case = case.clone();
        replay(&ctx, &case);
        finish(ctx, SetStats::default());
    }
    let rich = !ctx.quick();
    let cts = class_types();
    let window_depth = ctx.pick(5usize, 6);
    let whole_depth = ctx.pick(2usize, 3);
    const WINDOW: usize = 6;
    const STRIDE: usize = 3;
    let mut items = Vec::new();
    let mut pool_sizes: Vec<(&'static str, usize)> = Vec::new();
    for ct in &cts {
        let p = pool(*ct, rich);
        pool_sizes.push((ct.label, p.len()));
        items.push(Item::Laws(*ct));
        let mut w = 0;
        while w < p.len() {
            items.push(Item::Window(*ct, w, false));
            items.push(Item::Window(*ct, w, true));
            w += STRIDE;
        }
        for first in 0..p.len() {
            items.push(Item::Whole(*ct, first));
        }
        if LONG_CTS.contains(&ct.label) {
            items.push(Item::Long(*ct));
        }
        items.push(Item::Alias(*ct));
    }
    ctx.set_extra("pool_sizes", json!(pool_sizes.iter().map(|(k, v)| json!([k, v])).collect::<Vec<_>>()));
    let k = (ctx.seed as usize) % items.len().max(1);
    items.rotate_left(k);
    let totals = std::sync::Mutex::new(SetStats::default());
    ctx.par_for_each(&items, |l, item| {
        let mut st = SetStats::default();
        match item {
            Item::Laws(ct) => st.triples += check_laws(l, *ct, &pool(*ct, rich)),
            Item::Window(ct, w, by_case) => {
                let mut p = pool(*ct, rich);
                if *by_case {
                    // second ordering: case variants of the same octets adjacent
                    p.sort_by_key(|r| (r.to_ascii_lowercase(), r.clone()));
                }
                // windows wrap around so that the last members also meet the first
                let menu: Vec<&[u8]> = (0..WINDOW.min(p.len())).map(|i| &p[(w + i) % p.len()][..]).collect();
                histories(l, *ct, &menu, window_depth, &mut st);
            }
            Item::Alias(ct) => {
                for r in pool(*ct, rich) {
                    let copy = r.clone();
                    check_pair(l, *ct, &r[..], &copy[..]);
                    for k in 0..r.len() {
                        check_pair(l, *ct, &r[..], &r[..k]);
                        check_pair(l, *ct, &r[..k], &r[..]);
                    }
                }
            }
            Item::Long(ct) => {
                let p = long_pool(*ct);
                st.triples += check_laws(l, *ct, &p);
                let menu: Vec<&[u8]> = p.iter().map(|r| &r[..]).collect();
                histories(l, *ct, &menu, 3, &mut st);
            }
            Item::Whole(ct, first) => {
                let p = pool(*ct, rich);
                let all: Vec<&[u8]> = p.iter().map(|r| &r[..]).collect();
                if *first == 0 {
                    check_history(l, *ct, &[]);
                }
                let depth = if all.len() <= 150 { whole_depth } else { 2 };
                qvlib::enumerate::for_each_seq_upto(all.len(), depth - 1, |s| {
                    let mut seq: Vec<&[u8]> = vec![all[*first]];
                    seq.extend(s.iter().map(|i| all[*i]));
                    if check_history(l, *ct, &seq).is_some() {
                        st.histories += 1;
                        st.inserts += seq.len() as u64;
                    }
                    true
                });
            }
        }
        watch::idle();
        let mut t = totals.lock().unwrap();
        t.histories += st.histories;
        t.inserts += st.inserts;
        t.triples += st.triples;
    });
    let t = totals.into_inner().unwrap();
    finish(ctx, t);
}

fn finish(ctx: Ctx, st: SetStats) -> ! {
    ctx.set_extra("rdataset_histories", json!(st.histories));
    ctx.set_extra("rdataset_inserts", json!(st.inserts));
    ctx.set_extra("triples_covered", json!(st.triples));
    ctx.assume("qvlib::wire::{rdata_valid, canon_rdata} decide well-formedness and locate embedded names (reviewed; trusted base)");
    ctx.assume("names compare case-insensitively for NS MD MF CNAME MB MG MR PTR SOA MINFO MX (any class), CH A and IN SRV; every other class/type compares octet-wise");
    ctx.assume("TSIG RDATA that differ only in the ASCII case of the algorithm name: either answer accepted (meta-RR, statement silent); the equivalence laws are still required");
    ctx.finish(
        "exploration",
        "28 class/type combinations. Per combination a pool of RDATA = product over the layout's fields of: name candidates {a., A., b., ., a.b., A.B. | malformed: truncated (2 cases), label type 0x40, pointer} (thorough adds a.B., ab., aB., another truncation, empty), trailing junk {none, j, J} after a last name, fixed fields {00.., ..01, 80.. | too short, too long}; name-free and opaque types a pool of 12-16 octet strings incl. case variants. Rdata::equals on every ordered pair (separately allocated operands; and every member against every prefix of itself as a sub-slice of the same buffer) vs the reference (octet-wise unless both operands well formed for a name-bearing pre-RFC 3597 type, then embedded names ASCII-case-insensitive); reflexive, symmetric; transitive on every ordered triple. RdataSetOwned: every insertion sequence of length <= 4 (thorough 5) over 6-member menus sliding (stride 3, wrapping) over the pool in two orderings (generation order; case variants adjacent) and every sequence of length <= 2 (thorough 3 for pools <= 150) over the whole pool, via From+insert (return values checked) and via from_iter, vs keep-first-of-each-class in insertion order; plus, for 6 class/type combinations, laws and every insertion sequence of length <= 3 over a 6-member menu of maximal-length RDATA (65 535 / 65 534 / 65 533 octets, case variants)",
        true,
    )
}
