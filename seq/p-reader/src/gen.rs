//! Generators shared by the three checks: the (class, type) menu, valid RDATA
//! from a small grammar per layout, near-valid variants, and a message
//! builder that records the offsets of structural fields (same field model
//! as qvlib::templates, whose builder is private).

use qvlib::templates::{Field, FieldKind, Template};
use qvlib::wire::{self, c, t, wname, F};

#[derive(Clone, Copy, Debug, PartialEq, Eq)]
pub struct Ct {
    pub class: u16,
    pub typ: u16,
    pub label: &'static str,
}

const fn ct(class: u16, typ: u16, label: &'static str) -> Ct {
    Ct { class, typ, label }
}

/// Every class/type combination of the C18 statement, the class-independent
/// types under other classes, and unknown / class-mismatched (opaque)
/// combinations.
pub fn class_types() -> Vec<Ct> {
    vec![
        ct(c::IN, t::A, "IN-A"),
        ct(c::IN, t::NS, "NS"),
        ct(c::IN, t::MD, "MD"),
        ct(c::IN, t::MF, "MF"),
        ct(c::IN, t::CNAME, "CNAME"),
        ct(c::IN, t::SOA, "SOA"),
        ct(c::IN, t::MB, "MB"),
        ct(c::IN, t::MG, "MG"),
        ct(c::IN, t::MR, "MR"),
        ct(c::IN, t::NULL, "NULL"),
        ct(c::IN, t::WKS, "IN-WKS"),
        ct(c::IN, t::PTR, "PTR"),
        ct(c::IN, t::HINFO, "HINFO"),
        ct(c::IN, t::MINFO, "MINFO"),
        ct(c::IN, t::MX, "MX"),
        ct(c::IN, t::TXT, "TXT"),
        ct(c::IN, t::AAAA, "IN-AAAA"),
        ct(c::IN, t::SRV, "IN-SRV"),
        ct(1232, t::OPT, "OPT"),
        ct(c::ANY, t::TSIG, "TSIG"),
        ct(c::CH, t::A, "CH-A"),
        // class-independent types in other classes
        ct(c::CH, t::NS, "CH-NS"),
        ct(c::HS, t::MX, "HS-MX"),
        ct(c::CH, t::TXT, "CH-TXT"),
        ct(65280, t::SOA, "C65280-SOA"),
        // unknown types and class-specific types in the wrong class: opaque
        ct(c::IN, 65280, "IN-TYPE65280"),
        ct(c::CH, t::AAAA, "CH-AAAA"),
        ct(c::CH, t::SRV, "CH-SRV"),
        ct(c::HS, t::A, "HS-A"),
        ct(c::CH, t::WKS, "CH-WKS"),
    ]
}

pub fn l63() -> Vec<u8> {
    let mut v = vec![63u8];
    v.extend_from_slice(&[b'L'; 63]);
    v.push(0);
    v
}

/// A 255-octet name (the maximum).
pub fn n255() -> Vec<u8> {
    let l = vec![b'm'; 63];
    let n = wire::wname_from_labels(&[&l[..], &l[..], &l[..], &vec![b'n'; 61][..]]);
    assert_eq!(n.len(), 255);
    n
}

/// Valid names used inside generated RDATA. `rich` adds the length extremes.
pub fn name_pool(rich: bool) -> Vec<Vec<u8>> {
    let mut v = vec![vec![0u8], wname("a."), wname("A."), wname("b.a."), wname("x.y.b.a.")];
    if rich {
        v.push(l63());
        v.push(n255());
    }
    v
}

fn fixed_variants(n: usize) -> Vec<Vec<u8>> {
    let mut v = vec![vec![0u8; n], vec![0xffu8; n]];
    v.push((0..n).map(|i| (i as u8).wrapping_mul(37).wrapping_add(1)).collect());
    v.dedup();
    v
}

fn charstr(len: usize, fill: u8) -> Vec<u8> {
    let mut v = vec![len as u8];
    v.extend(std::iter::repeat(fill).take(len));
    v
}

fn field_values(f: F, rich: bool) -> Vec<Vec<u8>> {
    match f {
        F::NameC | F::NameU => name_pool(rich),
        F::Fixed(n) => fixed_variants(n),
        F::CharStr => {
            let mut v = vec![charstr(0, 0), charstr(1, b'x'), charstr(3, b'A')];
            if rich {
                v.push(charstr(255, b's'));
            }
            v
        }
        F::CharStrs1 => {
            let mut v = vec![charstr(0, 0), charstr(5, b'h'), [charstr(0, 0), charstr(0, 0)].concat(), [charstr(1, b'a'), charstr(2, b'B'), charstr(0, 0)].concat()];
            if rich {
                v.push([charstr(255, b's'), charstr(255, b't'), charstr(1, 0xc0)].concat());
            }
            v
        }
        F::RestMin(_) => vec![vec![], vec![0x80], vec![0, 0, 0x40]],
        F::OptOptions => vec![
            vec![],
            vec![0, 10, 0, 0],
            vec![0, 10, 0, 3, 1, 2, 3],
            vec![0, 10, 0, 8, 1, 2, 3, 4, 5, 6, 7, 8, 0, 12, 0, 0],
        ],
        F::TsigTail => {
            let mut v = Vec::new();
            for (mac, other) in [(0usize, 0usize), (16, 0), (32, 6), (0, 6)] {
                let mut r = vec![0, 0, 0x65, 0x53, 0xf1, 0x00, 0x01, 0x2c];
                r.extend_from_slice(&(mac as u16).to_be_bytes());
                r.extend((0..mac).map(|i| i as u8 ^ 0xa5));
                r.extend_from_slice(&[0x12, 0x34, 0x00, if other > 0 { 18 } else { 0 }]);
                r.extend_from_slice(&(other as u16).to_be_bytes());
                r.extend((0..other).map(|i| i as u8));
                v.push(r);
            }
            v
        }
    }
}

/// Valid RDATA of `ct` from the grammar of its layout: the full product of
/// the per-field value menus. Opaque types get arbitrary octet strings.
pub fn valid_rdatas(ct: Ct, rich: bool) -> Vec<Vec<u8>> {
    let Some(lay) = wire::layout(ct.class, ct.typ) else {
        return vec![vec![], vec![0], vec![1, 2, 3], vec![0xc0, 0x00], vec![1, b'a', 0], (0..20).collect()];
    };
    let mut out: Vec<Vec<u8>> = vec![vec![]];
    for f in lay {
        let vals = field_values(*f, rich);
        let mut next = Vec::with_capacity(out.len() * vals.len());
        for p in &out {
            for v in &vals {
                let mut r = p.clone();
                r.extend_from_slice(v);
                next.push(r);
            }
        }
        out = next;
    }
    for r in &out {
        assert!(wire::rdata_valid(ct.class, ct.typ, r), "generator produced invalid RDATA for {}", ct.label);
    }
    out
}

/// Near-valid variants of `rd`: every proper truncation, every one-octet
/// extension over `EXT`, and every position set to each of `TWEAK` and to
/// its value +-1.
pub fn near_variants(rd: &[u8], mut f: impl FnMut(&[u8])) {
    const EXT: [u8; 4] = [0x00, 0x01, 0xc0, 0xff];
    const TWEAK: [u8; 5] = [0x00, 0x3f, 0x40, 0xc0, 0xff];
    for n in 0..rd.len() {
        f(&rd[..n]);
    }
    let mut v = rd.to_vec();
    for e in EXT {
        v.push(e);
        f(&v);
        v.pop();
    }
    for i in 0..rd.len() {
        let orig = rd[i];
        let mut vals: Vec<u8> = TWEAK.to_vec();
        vals.push(orig.wrapping_add(1));
        vals.push(orig.wrapping_sub(1));
        vals.sort();
        vals.dedup();
        for x in vals {
            if x != orig {
                v[i] = x;
                f(&v);
            }
        }
        v[i] = orig;
    }
}

// ---------------------------------------------------------------- builder

/// Message builder recording structural fields.
pub struct TB {
    pub buf: Vec<u8>,
    pub fields: Vec<Field>,
    counts: [u16; 4],
}

impl TB {
    pub fn new(id: u16, flags: u16) -> TB {
        let mut buf = Vec::new();
        buf.extend_from_slice(&id.to_be_bytes());
        buf.extend_from_slice(&flags.to_be_bytes());
        buf.extend_from_slice(&[0; 8]);
        let fields = (0..4).map(|k| Field { kind: FieldKind::Count, offset: 4 + 2 * k, len: 2, section: 9 }).collect();
        TB { buf, fields, counts: [0; 4] }
    }
    /// Literal labels followed by a pointer or the root label.
    pub fn name(&mut self, labels: &[&[u8]], pointer: Option<usize>, section: u8) {
        for l in labels {
            self.fields.push(Field { kind: FieldKind::LabelLen, offset: self.buf.len(), len: 1, section });
            self.buf.push(l.len() as u8);
            self.buf.extend_from_slice(l);
        }
        match pointer {
            Some(p) => {
                self.fields.push(Field { kind: FieldKind::Pointer, offset: self.buf.len(), len: 2, section });
                self.buf.extend_from_slice(&wire::ptr(p));
            }
            None => {
                self.fields.push(Field { kind: FieldKind::LabelLen, offset: self.buf.len(), len: 1, section });
                self.buf.push(0);
            }
        }
    }
    pub fn raw(&mut self, octets: &[u8]) {
        self.buf.extend_from_slice(octets);
    }
    pub fn question(&mut self, labels: &[&[u8]], pointer: Option<usize>, qtype: u16, qclass: u16) -> usize {
        let start = self.buf.len();
        self.name(labels, pointer, 0);
        self.buf.extend_from_slice(&qtype.to_be_bytes());
        self.buf.extend_from_slice(&qclass.to_be_bytes());
        self.fields.push(Field { kind: FieldKind::Question, offset: start, len: self.buf.len() - start, section: 0 });
        self.counts[0] += 1;
        start
    }
    /// Returns the offset of the RDATA.
    #[allow(clippy::too_many_arguments)]
    pub fn rr(&mut self, section: u8, labels: &[&[u8]], pointer: Option<usize>, typ: u16, class: u16, ttl: u32, rdata: &dyn Fn(&mut TB)) -> usize {
        let start = self.buf.len();
        self.name(labels, pointer, section);
        self.fields.push(Field { kind: FieldKind::RrType, offset: self.buf.len(), len: 2, section });
        self.buf.extend_from_slice(&typ.to_be_bytes());
        self.fields.push(Field { kind: FieldKind::RrClass, offset: self.buf.len(), len: 2, section });
        self.buf.extend_from_slice(&class.to_be_bytes());
        self.fields.push(Field { kind: FieldKind::RrTtl, offset: self.buf.len(), len: 4, section });
        self.buf.extend_from_slice(&ttl.to_be_bytes());
        let rdl = self.buf.len();
        self.fields.push(Field { kind: FieldKind::Rdlength, offset: rdl, len: 2, section });
        self.buf.extend_from_slice(&[0, 0]);
        rdata(self);
        let n = (self.buf.len() - rdl - 2) as u16;
        self.buf[rdl..rdl + 2].copy_from_slice(&n.to_be_bytes());
        self.fields.push(Field { kind: FieldKind::Record, offset: start, len: self.buf.len() - start, section });
        self.counts[section as usize] += 1;
        rdl + 2
    }
    pub fn done(mut self, name: &str) -> Template {
        for k in 0..4 {
            let cb = self.counts[k].to_be_bytes();
            self.buf[4 + 2 * k] = cb[0];
            self.buf[5 + 2 * k] = cb[1];
        }
        Template { name: name.to_string(), bytes: self.buf, fields: self.fields, tsig: None }
    }
}

/// Response-like messages carrying every RFC 1035 type (and SRV, CH A, OPT,
/// TSIG, an unknown type), with embedded names compressed in several ways
/// (whole-name pointer, label + pointer, pointer to a pointer), uncompressed,
/// and TTLs on both sides of 2^31.
pub fn reader_zoo() -> Vec<Template> {
    let mut out = Vec::new();
    let q = 12usize; // offset of the QNAME "a.t."
    let tt = 14usize; // offset of "t."
    {
        let mut b = TB::new(0xbeef, 0x8580);
        b.question(&[b"a", b"t"], None, t::A, c::IN);
        let ns_rd = b.rr(1, &[], Some(q), t::NS, c::IN, 60, &move |b: &mut TB| b.name(&[b"ns"], Some(tt), 1));
        let cn_rd = b.rr(1, &[], Some(q), t::CNAME, c::IN, 0x7fff_ffff, &move |b: &mut TB| b.name(&[], Some(ns_rd), 1));
        b.rr(1, &[b"p"], Some(tt), t::PTR, c::IN, 0x8000_0001, &move |b: &mut TB| b.name(&[b"x"], Some(cn_rd), 1));
        b.rr(2, &[], Some(tt), t::MD, c::IN, 1, &|b: &mut TB| b.name(&[b"md", b"T"], None, 2));
        b.rr(2, &[], Some(tt), t::MF, c::IN, 1, &|b: &mut TB| b.name(&[], None, 2));
        out.push(b.done("zoo-names-1"));
    }
    {
        let mut b = TB::new(0x0001, 0x8403);
        b.question(&[b"a", b"t"], None, t::ANY, c::IN);
        let mb = b.rr(1, &[], Some(q), t::MB, c::IN, 5, &move |b: &mut TB| b.name(&[b"mb"], Some(q), 1));
        b.rr(1, &[], Some(q), t::MG, c::IN, 5, &move |b: &mut TB| b.name(&[], Some(mb), 1));
        b.rr(1, &[], Some(q), t::MR, c::IN, 5, &move |b: &mut TB| b.name(&[b"mr"], Some(mb), 1));
        b.rr(3, &[], None, t::NS, c::CH, 5, &move |b: &mut TB| b.name(&[], Some(tt), 3));
        out.push(b.done("zoo-names-2"));
    }
    {
        let mut b = TB::new(0x0002, 0x8400);
        b.question(&[b"t"], None, t::SOA, c::IN);
        let soa = b.rr(1, &[], Some(12), t::SOA, c::IN, 3600, &|b: &mut TB| {
            b.name(&[b"ns"], Some(12), 1);
            b.name(&[b"admin"], Some(12), 1);
            b.raw(&[0, 0, 0, 1, 0, 0, 0x0e, 0x10, 0, 0, 2, 0x58, 0, 1, 0x51, 0x80, 0x80, 0, 0, 5]);
        });
        b.rr(1, &[], Some(12), t::MX, c::IN, 300, &move |b: &mut TB| {
            b.raw(&[0, 10]);
            b.name(&[b"mail"], Some(12), 1);
        });
        b.rr(1, &[], Some(12), t::MINFO, c::IN, 300, &move |b: &mut TB| {
            b.name(&[], Some(soa), 1);
            b.name(&[b"r"], Some(soa), 1);
        });
        b.rr(3, &[], Some(12), t::MX, c::HS, 300, &|b: &mut TB| {
            b.raw(&[0xff, 0xff]);
            b.name(&[], None, 3);
        });
        out.push(b.done("zoo-soa-mx"));
    }
    {
        let mut b = TB::new(0x0003, 0x0000);
        b.question(&[b"a", b"t"], None, t::TXT, c::IN);
        b.rr(1, &[], Some(q), t::A, c::IN, 1, &|b: &mut TB| b.raw(&[192, 0, 2, 1]));
        b.rr(1, &[], Some(q), t::AAAA, c::IN, 1, &|b: &mut TB| b.raw(&[0x20, 1, 0xd, 0xb8, 0, 0, 0, 0, 0, 0, 0, 0, 0, 0, 0, 1]));
        b.rr(1, &[], Some(q), t::WKS, c::IN, 1, &|b: &mut TB| b.raw(&[192, 0, 2, 1, 6, 0, 0, 0x40]));
        b.rr(2, &[], Some(q), t::HINFO, c::IN, 1, &|b: &mut TB| b.raw(b"\x03cpu\x02os"));
        b.rr(2, &[], Some(q), t::TXT, c::IN, 1, &|b: &mut TB| b.raw(b"\x05hello\x00\x01x"));
        b.rr(3, &[], Some(q), t::NULL, c::IN, 1, &|b: &mut TB| b.raw(&[0xc0, 0x0c, 0xff]));
        b.rr(3, &[], Some(q), 65280, c::IN, 1, &|b: &mut TB| b.raw(&[1, b'z', 0xc0, 0x0c]));
        out.push(b.done("zoo-opaque"));
    }
    {
        let mut b = TB::new(0x0004, 0x8000);
        b.question(&[b"a", b"t"], None, t::SRV, c::IN);
        b.rr(1, &[b"_s", b"_tcp"], Some(tt), t::SRV, c::IN, 1, &|b: &mut TB| {
            b.raw(&[0, 1, 0, 2, 0, 53]);
            b.name(&[b"a", b"t"], None, 1);
        });
        b.rr(1, &[b"_s", b"_tcp"], Some(tt), t::SRV, c::IN, 1, &move |b: &mut TB| {
            b.raw(&[0, 1, 0, 2, 0, 53]);
            b.name(&[], Some(q), 1);
        });
        b.rr(1, &[], Some(q), t::A, c::CH, 1, &|b: &mut TB| {
            b.name(&[b"ch"], None, 1);
            b.raw(&[0x01, 0x02]);
        });
        b.rr(1, &[], Some(q), t::A, c::CH, 1, &move |b: &mut TB| {
            b.name(&[], Some(tt), 1);
            b.raw(&[0x01, 0x02]);
        });
        out.push(b.done("zoo-uncompressible"));
    }
    {
        let mut b = TB::new(0x0005, 0x0100);
        b.question(&[b"a", b"t"], None, t::A, c::IN);
        b.rr(3, &[], None, t::OPT, 1232, 0x0000_8000, &|b: &mut TB| b.raw(&[0, 10, 0, 3, 1, 2, 3]));
        b.rr(3, &[b"k"], None, t::TSIG, c::ANY, 0, &|b: &mut TB| {
            b.name(&[b"hmac-sha256"], None, 3);
            b.raw(&[0, 0, 0x65, 0x53, 0xf1, 0, 1, 0x2c, 0, 4, 9, 8, 7, 6, 0x12, 0x34, 0, 0, 0, 0]);
        });
        b.rr(3, &[b"k"], None, t::TSIG, c::ANY, 0, &move |b: &mut TB| {
            b.name(&[], Some(tt), 3);
            b.raw(&[0, 0, 0x65, 0x53, 0xf1, 0, 1, 0x2c, 0, 0, 0x12, 0x34, 0, 0, 0, 0]);
        });
        out.push(b.done("zoo-meta"));
    }
    out
}
