//! Hang watchdog. Totality ("returns a value or an error") includes
//! termination: a call into quandary that never returns must end the run
//! with a replayable violation instead of blocking the check forever.
//!
//! Every worker thread owns a slot in which it notes the case it is about to
//! execute; a watchdog thread reports the case of any slot that stays busy
//! on the same case for longer than the limit, then finishes the run.

use std::sync::atomic::{AtomicBool, AtomicU64, Ordering};
use std::sync::{Arc, Mutex, OnceLock};
use std::time::{Duration, Instant};

use qvlib::{Ctx, Value};

#[derive(Clone, Default)]
pub struct Noted {
    pub kind: &'static str,
    pub a: Vec<u8>,
    pub b: Vec<u8>,
    pub nums: [u64; 4],
}

struct Slot {
    busy: AtomicBool,
    seq: AtomicU64,
    data: Mutex<Noted>,
}

static SLOTS: OnceLock<Mutex<Vec<Arc<Slot>>>> = OnceLock::new();

thread_local! {
    static MY: Arc<Slot> = {
        let s = Arc::new(Slot { busy: AtomicBool::new(false), seq: AtomicU64::new(0), data: Mutex::new(Noted::default()) });
        SLOTS.get_or_init(|| Mutex::new(Vec::new())).lock().unwrap().push(s.clone());
        s
    };
}

/// Notes the case the calling thread is about to run.
#[inline]
pub fn note(kind: &'static str, a: &[u8], b: &[u8], nums: [u64; 4]) {
    MY.with(|s| {
        {
            let mut d = s.data.lock().unwrap();
            d.kind = kind;
            d.a.clear();
            d.a.extend_from_slice(a);
            d.b.clear();
            d.b.extend_from_slice(b);
            d.nums = nums;
        }
        s.seq.fetch_add(1, Ordering::Release);
        s.busy.store(true, Ordering::Release);
    });
}

/// The calling thread is between cases.
#[inline]
pub fn idle() {
    MY.with(|s| s.busy.store(false, Ordering::Release));
}

pub fn limit() -> Duration {
    Duration::from_secs(std::env::var("QVERIF_HANG_SECS").ok().and_then(|s| s.parse().ok()).unwrap_or(90))
}

/// Starts the watchdog. `to_case` turns a noted case into (violation key,
/// replayable case); `fin` finishes the run (never returns).
///
/// The watchdog needs the `Ctx` while the workers still borrow it and must
/// consume it to finish; since finishing exits the process, it takes a
/// bitwise copy of the `Ctx` for that last step (nothing is ever dropped).
pub fn start(ctx: &Ctx, to_case: fn(&Noted) -> (String, Value), fin: fn(Ctx) -> !) {
    let p = ctx as *const Ctx as usize;
    let lim = limit();
    std::thread::spawn(move || {
        let mut last: Vec<(u64, Instant)> = Vec::new();
        // A stall must persist over this many of the watchdog's own polls as
        // well as over `lim` of wall time (a frozen or starved machine stops
        // the watchdog together with the workers and must not count).
        let need_polls = (lim.as_millis() / 500) as u32;
        let mut polls: Vec<u32> = Vec::new();
        loop {
            std::thread::sleep(Duration::from_millis(500));
            let slots: Vec<Arc<Slot>> = SLOTS.get_or_init(|| Mutex::new(Vec::new())).lock().unwrap().clone();
            last.resize(slots.len(), (u64::MAX, Instant::now()));
            polls.resize(slots.len(), 0);
            for (i, s) in slots.iter().enumerate() {
                let seq = s.seq.load(Ordering::Acquire);
                if !s.busy.load(Ordering::Acquire) || last[i].0 != seq {
                    last[i] = (seq, Instant::now());
                    polls[i] = 0;
                    continue;
                }
                polls[i] += 1;
                if last[i].1.elapsed() > lim && polls[i] >= need_polls {
                    let noted = s.data.lock().unwrap().clone();
                    let (key, mut case) = to_case(&noted);
                    case["hang_seconds"] = qvlib::json!(lim.as_secs());
                    // SAFETY: the Ctx outlives every worker (they run inside
                    // scoped threads of the function that owns it) and this
                    // thread ends the process without returning.
                    let ctx: &Ctx = unsafe { &*(p as *const Ctx) };
                    ctx.violation(&key, case);
                    let owned: Ctx = unsafe { std::ptr::read(ctx) };
                    fin(owned);
                }
            }
        }
    });
}
