//! C18 — RDATA reading, validation and writing are mutually consistent.
//!
//! Shape I. Three parts, each an exhaustive enumeration:
//!  V  Rdata::validate against the independent validator: grammar products
//!     of valid RDATA, all their near-valid variants, all short strings.
//!  R  Rdata::read against the independent decompressing decoder: every
//!     (cursor, RDLENGTH) pair of messages that carry each valid RDATA under
//!     every assignment of compression forms to its names; cross-type reads;
//!     all short messages.
//!  W  real Writer -> real Reader (and the independent decoder) round trip of
//!     every valid RDATA in the three compression modes, as single records
//!     and as RRsets, with and without earlier names to compress against.

use quandary::class::Class;
use quandary::message::reader::Reader;
use quandary::message::writer::{CompressionMode, Hint, HintedName, Writer};
use quandary::message::{Qclass, Qtype, Question};
use quandary::rr::{Rdata, RdataSetOwned, Ttl, Type};

use qvlib::wire::{self, c, t, wname, F};
use qvlib::{catch, hex, json, panic_key, qd, unhex, Ctx, Local, Value};

use crate::gen::{self, Ct};
use crate::refmodel::{self as rm, Exp};
use crate::watch;

fn dbg<E: std::fmt::Debug>(e: E) -> String {
    format!("{e:?}")
}

/// Collapses the error detail so that outcome classes stay few.
fn err_class(e: &str) -> String {
    if e.starts_with("InvalidName(") {
        "Err(InvalidName)".to_string()
    } else {
        format!("Err({e})")
    }
}

// ------------------------------------------------------------- V: validate

pub fn check_validate(l: &mut Local, ct: Ct, rd: &[u8], fam: &str) {
    l.tick();
    watch::note("validate", rd, &[], [ct.class as u64, ct.typ as u64, 0, 0]);
    let want = wire::rdata_valid(ct.class, ct.typ, rd);
    let got = catch(|| qd::rdata(rd).validate(Class::from(ct.class), Type::from(ct.typ)).map_err(dbg));
    let case = || json!({"kind": "validate", "class": ct.class, "type": ct.typ, "label": ct.label, "rdata": hex(rd), "family": fam, "reference_valid": want});
    match &got {
        Err(p) => l.violation(&format!("validate:{}:{}", ct.label, panic_key(p)), { let mut c = case(); c["panic"] = json!(p); c }),
        Ok(Ok(())) if !want => l.violation(&format!("validate:{}:accepts-invalid", ct.label), case()),
        Ok(Err(e)) if want => l.violation(&format!("validate:{}:rejects-valid", ct.label), { let mut c = case(); c["error"] = json!(e); c }),
        _ => {}
    }
    l.outcome(&format!("validate:{}:{}", ct.label, if want { "valid" } else { "invalid" }), case);
}

// ----------------------------------------------------------------- R: read

pub fn check_read(l: &mut Local, ct: Ct, msg: &[u8], cursor: usize, rdlength: u16, fam: &str) {
    l.tick();
    watch::note("read", msg, &[], [ct.class as u64, ct.typ as u64, cursor as u64, rdlength as u64]);
    let exp = rm::exp_rdata_read(msg, cursor, rdlength, ct.class, ct.typ);
    let got = catch(|| {
        Rdata::read(Class::from(ct.class), Type::from(ct.typ), msg, cursor, rdlength).map_err(dbg).map(|cow| {
            let own = cow.validate(Class::from(ct.class), Type::from(ct.typ)).map_err(dbg);
            (cow.octets().to_vec(), own)
        })
    });
    let case = || json!({"kind": "read", "class": ct.class, "type": ct.typ, "label": ct.label, "msg": hex(msg), "cursor": cursor, "rdlength": rdlength, "family": fam, "model": exp.describe()});
    let cls = match &got {
        Err(p) => {
            l.violation(&format!("read:{}:{}", ct.label, panic_key(p)), { let mut c = case(); c["panic"] = json!(p); c });
            "PANIC".to_string()
        }
        Ok(Err(e)) => {
            if let Exp::MustOk(v) = &exp {
                l.violation(&format!("read:{}:rejects-valid", ct.label), { let mut c = case(); c["error"] = json!(e); c["expected"] = json!(hex(v)); c });
            }
            err_class(e)
        }
        Ok(Ok((out, own))) => {
            match &exp {
                Exp::MustErr(w) => l.violation(&format!("read:{}:accepts-invalid", ct.label), { let mut c = case(); c["got"] = json!(hex(out)); c["why"] = json!(w); c }),
                Exp::MustOk(v) | Exp::Either(v, _) => {
                    if out != v {
                        l.violation(&format!("read:{}:wrong-rdata", ct.label), { let mut c = case(); c["got"] = json!(hex(out)); c["expected"] = json!(hex(v)); c });
                    }
                }
            }
            if !wire::rdata_valid(ct.class, ct.typ, out) {
                l.violation(&format!("read:{}:result-not-valid-uncompressed", ct.label), { let mut c = case(); c["got"] = json!(hex(out)); c });
            }
            if let Err(e) = own {
                l.violation(&format!("read:{}:result-fails-validate", ct.label), { let mut c = case(); c["got"] = json!(hex(out)); c["error"] = json!(e); c });
            }
            let raw = msg.get(cursor..cursor + rdlength as usize);
            if raw == Some(&out[..]) {
                "Ok".to_string()
            } else {
                "Ok:decompressed".to_string()
            }
        }
    };
    let open = matches!(exp, Exp::Either(..));
    l.outcome(&format!("read:{}:{}{}", ct.label, cls, if open { ":uncompressible-name-with-pointer" } else { "" }), case);
}

/// Every (cursor, RDLENGTH) pair on `msg`, plus RDLENGTH 65535 at every
/// cursor.
fn sweep_all_pairs(l: &mut Local, ct: Ct, msg: &[u8], fam: &str) {
    let n = msg.len();
    for cursor in 0..=n + 1 {
        let max = (n + 2).saturating_sub(cursor);
        for rdl in 0..=max {
            check_read(l, ct, msg, cursor, rdl as u16, fam);
        }
        check_read(l, ct, msg, cursor, 0xffff, fam);
    }
}

#[derive(Clone, Copy, Debug, PartialEq, Eq)]
enum Form {
    Literal,
    /// One pointer to a literal copy of the whole name.
    Pointer,
    /// First label literal, then a pointer to the rest inside the copy.
    LabelPointer,
    /// A pointer to a pointer to the copy.
    Chain,
}

const FORMS: [Form; 4] = [Form::Literal, Form::Pointer, Form::LabelPointer, Form::Chain];

/// Splits valid uncompressed RDATA into name pieces and other pieces.
fn pieces(ct: Ct, rd: &[u8]) -> Vec<(bool, Vec<u8>)> {
    let mut out = Vec::new();
    let fields = wire::rdata_name_fields(ct.class, ct.typ, rd).unwrap_or_default();
    let mut i = 0;
    for (o, n) in fields {
        if o > i {
            out.push((false, rd[i..o].to_vec()));
        }
        out.push((true, rd[o..o + n].to_vec()));
        i = o + n;
    }
    if i < rd.len() {
        out.push((false, rd[i..].to_vec()));
    }
    out
}

/// Builds a message: 12-octet header, a literal copy of every name of the
/// RDATA, a pointer to each copy, then the RDATA with its k-th name encoded
/// in form `forms[k]`. Returns (message, offset of RDATA, RDLENGTH).
fn build_read_message(ps: &[(bool, Vec<u8>)], forms: &[Form]) -> (Vec<u8>, usize, usize) {
    let mut m = vec![0x01, b'h', 0x00, 0, 0, 0, 0, 0, 0, 0, 0, 0];
    let names: Vec<&Vec<u8>> = ps.iter().filter(|p| p.0).map(|p| &p.1).collect();
    let mut copy_at = Vec::new();
    for n in &names {
        copy_at.push(m.len());
        m.extend_from_slice(n);
    }
    let mut ptr_at = Vec::new();
    for at in &copy_at {
        ptr_at.push(m.len());
        m.extend_from_slice(&wire::ptr(*at));
    }
    let ro = m.len();
    let mut k = 0;
    for (is_name, bytes) in ps {
        if !*is_name {
            m.extend_from_slice(bytes);
            continue;
        }
        let first = bytes[0] as usize;
        match forms[k] {
            Form::Literal => m.extend_from_slice(bytes),
            Form::Pointer => m.extend_from_slice(&wire::ptr(copy_at[k])),
            Form::LabelPointer => {
                if first == 0 {
                    // the root has no first label: fall back to a pointer
                    m.extend_from_slice(&wire::ptr(copy_at[k]));
                } else {
                    m.extend_from_slice(&bytes[..1 + first]);
                    m.extend_from_slice(&wire::ptr(copy_at[k] + 1 + first));
                }
            }
            Form::Chain => m.extend_from_slice(&wire::ptr(ptr_at[k])),
        }
        k += 1;
    }
    let n = m.len() - ro;
    (m, ro, n)
}

fn read_family(l: &mut Local, ct: Ct, cts: &[Ct], rd: &[u8], sweep_limit: usize) {
    let ps = pieces(ct, rd);
    let n_names = ps.iter().filter(|p| p.0).count();
    let combos = FORMS.len().pow(n_names as u32);
    for combo in 0..combos {
        let mut forms = Vec::new();
        let mut x = combo;
        for _ in 0..n_names {
            forms.push(FORMS[x % FORMS.len()]);
            x /= FORMS.len();
        }
        let (msg, ro, n) = build_read_message(&ps, &forms);
        // Self-test of generator + model: a faithful encoding must decode
        // back to the RDATA it was made from.
        let back = wire::decode_rdata(&msg, ro, n, ct.class, ct.typ, rm::RULE);
        assert!(matches!(&back, Ok(d) if d.uncompressed == rd), "model self-test failed for {} {} forms {:?}: {:?}", ct.label, hex(rd), forms, back.map(|d| hex(&d.uncompressed)));
        let fam = format!("grammar:{:?}", forms);
        if msg.len() <= sweep_limit {
            sweep_all_pairs(l, ct, &msg, &fam);
        } else {
            for cursor in [ro.saturating_sub(1), ro, ro + 1] {
                let mut rdls: Vec<usize> = vec![0, 1, 2, 6, 0xffff];
                rdls.extend(n.saturating_sub(2)..=n + 2);
                rdls.sort();
                rdls.dedup();
                for rdl in rdls {
                    if rdl <= 0xffff {
                        check_read(l, ct, &msg, cursor, rdl as u16, &fam);
                    }
                }
            }
        }
        // the same octets read as every other class/type
        for other in cts {
            if other.class == ct.class && other.typ == ct.typ {
                continue;
            }
            for rdl in [n.saturating_sub(1), n, n + 1] {
                check_read(l, *other, &msg, ro, rdl as u16, "grammar:cross-type");
            }
        }
    }
}

const SHORT_ALPHABET: [u8; 8] = [0x00, 0x01, 0x02, 0x03, 0x06, 0x40, 0xc0, 0xff];

// ----------------------------------------------------- W: writer round trip

#[derive(Clone, Copy, Debug, PartialEq, Eq)]
pub enum Mode {
    Standard,
    CasePreserving,
    Disabled,
}

const MODES: [Mode; 3] = [Mode::Standard, Mode::CasePreserving, Mode::Disabled];

impl Mode {
    fn q(self) -> CompressionMode {
        match self {
            Mode::Standard => CompressionMode::Standard,
            Mode::CasePreserving => CompressionMode::CasePreserving,
            Mode::Disabled => CompressionMode::Disabled,
        }
    }
    fn name(self) -> &'static str {
        match self {
            Mode::Standard => "Standard",
            Mode::CasePreserving => "CasePreserving",
            Mode::Disabled => "Disabled",
        }
    }
    fn from_name(s: &str) -> Mode {
        match s {
            "CasePreserving" => Mode::CasePreserving,
            "Disabled" => Mode::Disabled,
            _ => Mode::Standard,
        }
    }
}

fn has_compressible_names(ct: Ct) -> bool {
    wire::layout(ct.class, ct.typ).map(|l| l.contains(&F::NameC)).unwrap_or(false)
}

/// Writes question + optional seed record + the RDATA(s) with the real
/// Writer. Returns the message, or Err(text) if the writer refused.
fn write_message(ct: Ct, rdatas: &[&[u8]], mode: Mode, context: u8, rrset: bool) -> Result<Vec<u8>, String> {
    let mut buf = vec![0u8; 8192];
    let len = {
        let mut w = Writer::new(&mut buf, 8192).map_err(dbg)?;
        w.set_compression_mode(mode.q());
        let (qn, owner) = match context {
            0 => (wname("x.y.b.a."), wname("x.y.b.a.")),
            _ => (wname("a."), wname("b.a.")),
        };
        let q = Question { qname: qd::qname(&qn), qtype: Qtype::from(ct.typ), qclass: Qclass::from(ct.class) };
        w.add_question(&q).map_err(dbg)?;
        if context == 1 {
            // An earlier record with upper-case names: a compression target
            // that differs in case from the names that follow.
            let seed_owner = qd::qname(&wname("Y.B.A."));
            w.add_answer_rr(HintedName::new(Hint::None, &seed_owner), Type::from(t::NS), Class::from(c::IN), Ttl::from(7), qd::rdata(&wname("X.Y.B.A.")), None).map_err(dbg)?;
        }
        let owner = qd::qname(&owner);
        if rrset {
            let set = RdataSetOwned::from_iter(Class::from(ct.class), Type::from(ct.typ), rdatas.iter().map(|r| qd::rdata(r))).ok_or("empty rrset")?;
            w.add_answer_rrset(HintedName::new(Hint::None, &owner), Type::from(ct.typ), Class::from(ct.class), Ttl::from(300), &set, None).map_err(dbg)?;
        } else {
            for r in rdatas {
                w.add_answer_rr(HintedName::new(Hint::None, &owner), Type::from(ct.typ), Class::from(ct.class), Ttl::from(300), qd::rdata(r), None).map_err(dbg)?;
            }
        }
        w.finish()
    };
    buf.truncate(len);
    Ok(buf)
}

/// Reads the message back with the real Reader; returns the RDATA of the
/// records after the question (and seed).
fn read_back(msg: &[u8], skip: usize, n: usize) -> Result<Vec<(u16, u16, Vec<u8>)>, String> {
    let mut r = Reader::try_from(msg).map_err(dbg)?;
    r.read_question().map_err(|e| format!("question: {e:?}"))?;
    for _ in 0..skip {
        r.read_rr().map_err(|e| format!("seed record: {e:?}"))?;
    }
    let mut out = Vec::new();
    for i in 0..n {
        let rr = r.read_rr().map_err(|e| format!("record {i}: {e:?}"))?;
        out.push((rr.rr_type.into(), rr.class.into(), rr.rdata.octets().to_vec()));
    }
    if !r.at_eom() {
        return Err("reader not at the end of the message after the last record".into());
    }
    Ok(out)
}

fn same_rdata(ct: Ct, mode: Mode, written: &[u8], read: &[u8]) -> bool {
    if mode == Mode::Standard && has_compressible_names(ct) {
        // DESIGN 7a: Standard compression may reuse an earlier name that
        // differs in ASCII case; names then compare case-insensitively.
        wire::canon_rdata(ct.class, ct.typ, written) == wire::canon_rdata(ct.class, ct.typ, read)
    } else {
        written == read
    }
}

pub fn check_roundtrip(l: &mut Local, ct: Ct, rdatas: &[&[u8]], mode: Mode, context: u8, rrset: bool) {
    l.tick();
    watch::note(
        "roundtrip",
        rdatas[0],
        rdatas.get(1).copied().unwrap_or(&[]),
        [ct.class as u64, ct.typ as u64, MODES.iter().position(|m| *m == mode).unwrap_or(0) as u64, context as u64 | (rrset as u64) << 1 | (rdatas.len() as u64) << 2],
    );
    let case = || json!({"kind": "roundtrip", "class": ct.class, "type": ct.typ, "label": ct.label, "rdatas": rdatas.iter().map(|r| hex(r)).collect::<Vec<_>>(), "mode": mode.name(), "context": context, "rrset": rrset});
    let key = |what: &str| format!("roundtrip:{}:{}:{}", ct.label, mode.name(), what);
    let msg = match catch(|| write_message(ct, rdatas, mode, context, rrset)) {
        Err(p) => return l.violation(&format!("roundtrip:{}:writer-{}", ct.label, panic_key(&p)), { let mut c = case(); c["panic"] = json!(p); c }),
        Ok(Err(e)) => return l.violation(&key("writer-refused-valid-rdata"), { let mut c = case(); c["error"] = json!(e); c }),
        Ok(Ok(m)) => m,
    };
    let skip = if context == 1 { 1 } else { 0 };
    let with_msg = |mut c: Value| {
        c["msg"] = json!(hex(&msg));
        c
    };
    // 1. the real Reader
    match catch(|| read_back(&msg, skip, rdatas.len())) {
        Err(p) => l.violation(&format!("roundtrip:{}:reader-{}", ct.label, panic_key(&p)), { let mut c = with_msg(case()); c["panic"] = json!(p); c }),
        Ok(Err(e)) => l.violation(&key("reader-failed"), { let mut c = with_msg(case()); c["error"] = json!(e); c }),
        Ok(Ok(rrs)) => {
            for (i, (typ, class, rd)) in rrs.iter().enumerate() {
                if *typ != ct.typ || *class != ct.class {
                    l.violation(&key("type-class-changed"), with_msg(case()));
                }
                if !same_rdata(ct, mode, rdatas[i], rd) {
                    l.violation(&key("reads-back-different"), { let mut c = with_msg(case()); c["index"] = json!(i); c["read"] = json!(hex(rd)); c });
                }
            }
        }
    }
    // 2. the independent decoder on the same octets
    let mut compressed = false;
    match wire::decode_message(&msg, rm::RULE, false) {
        Err(e) => l.violation(&key("independent-decoder-failed"), { let mut c = with_msg(case()); c["error"] = json!(e); c }),
        Ok(m) => {
            if m.answers.len() != skip + rdatas.len() {
                l.violation(&key("wrong-record-count"), with_msg(case()));
            } else {
                for (i, rr) in m.answers[skip..].iter().enumerate() {
                    if !same_rdata(ct, mode, rdatas[i], &rr.rdata) {
                        l.violation(&key("decodes-different"), { let mut c = with_msg(case()); c["index"] = json!(i); c["decoded"] = json!(hex(&rr.rdata)); c });
                    }
                    if rr.rdata_raw != rr.rdata {
                        compressed = true;
                    }
                }
            }
        }
    }
    l.outcome(&format!("roundtrip:{}:{}:{}", ct.label, mode.name(), if compressed { "rdata-compressed" } else { "rdata-literal" }), || with_msg(case()));
}

// -------------------------------------------------------------------- run

fn replay(ctx: &Ctx, case: &Value) {
    let mut l = ctx.local();
    let class = case["class"].as_u64().unwrap_or(1) as u16;
    let typ = case["type"].as_u64().unwrap_or(1) as u16;
    let cts = gen::class_types();
    let ct = cts.iter().copied().find(|x| x.class == class && x.typ == typ).unwrap_or(Ct { class, typ, label: "replay" });
    match case["kind"].as_str().unwrap_or("") {
        "validate" => check_validate(&mut l, ct, &unhex(case["rdata"].as_str().unwrap_or("")), "replay"),
        "read" => check_read(&mut l, ct, &unhex(case["msg"].as_str().unwrap_or("")), case["cursor"].as_u64().unwrap_or(0) as usize, case["rdlength"].as_u64().unwrap_or(0) as u16, "replay"),
        "roundtrip" => {
            let rds: Vec<Vec<u8>> = case["rdatas"].as_array().map(|a| a.iter().map(|v| unhex(v.as_str().unwrap_or(""))).collect()).unwrap_or_default();
            let refs: Vec<&[u8]> = rds.iter().map(|r| &r[..]).collect();
            check_roundtrip(&mut l, ct, &refs, Mode::from_name(case["mode"].as_str().unwrap_or("")), case["context"].as_u64().unwrap_or(0) as u8, case["rrset"].as_bool().unwrap_or(false));
        }
        other => {
            eprintln!("unknown replay kind {other:?}");
            std::process::exit(2);
        }
    }
}

#[derive(Clone)]
enum Item {
    /// grammar RDATA `idx` of class/type `ct`: validate + near variants
    Validate(Ct, Vec<u8>),
    /// all short strings with the given first octet
    ValidateShort(Ct, u8),
    Read(Ct, Vec<u8>, usize),
    ReadShort(u8, u8),
    Roundtrip(Ct),
}

fn hang_case(n: &watch::Noted) -> (String, Value) {
    let (class, typ) = (n.nums[0], n.nums[1]);
    match n.kind {
        "validate" => ("validate:does-not-terminate".into(), json!({"kind": "validate", "class": class, "type": typ, "rdata": hex(&n.a)})),
        "read" => ("read:does-not-terminate".into(), json!({"kind": "read", "class": class, "type": typ, "msg": hex(&n.a), "cursor": n.nums[2], "rdlength": n.nums[3]})),
        _ => {
            let mut rds = vec![hex(&n.a)];
            if (n.nums[3] >> 2) > 1 {
                rds.push(hex(&n.b));
            }
            ("roundtrip:does-not-terminate".into(), json!({"kind": "roundtrip", "class": class, "type": typ, "rdatas": rds, "mode": MODES[n.nums[2] as usize % 3].name(), "context": n.nums[3] & 1, "rrset": (n.nums[3] >> 1) & 1 == 1}))
        }
    }
}

pub fn run(ctx: Ctx) -> ! {
    watch::start(&ctx, hang_case, finish);
    if let Some(case) = ctx.replay_case() {
        let case = case.clone();
        replay(&ctx, &case);
        finish(ctx);
    }
    let cts = gen::class_types();
    let vshort = ctx.pick(6usize, 7);
    let rshort = ctx.pick(5usize, 6);
    let sweep_limit = ctx.pick(72usize, 110);
    let mut items: Vec<Item> = Vec::new();
    for ct in &cts {
        items.push(Item::Roundtrip(*ct));
    }
    for ct in &cts {
        for rd in gen::valid_rdatas(*ct, true) {
            items.push(Item::Validate(*ct, rd));
        }
        // reads: the plain pool for sweeps of every pair, the rich pool
        // (63-octet label, 255-octet name, 255-octet strings) around the
        // exact position only
        let plain = gen::valid_rdatas(*ct, false);
        for rd in gen::valid_rdatas(*ct, true) {
            let lim = if plain.contains(&rd) { sweep_limit } else { 0 };
            items.push(Item::Read(*ct, rd, lim));
        }
        for x in SHORT_ALPHABET {
            items.push(Item::ValidateShort(*ct, x));
        }
    }
    for x in SHORT_ALPHABET {
        for y in SHORT_ALPHABET {
            items.push(Item::ReadShort(x, y));
        }
    }
    // Rotate by the seed (order only).
    let k = (ctx.seed as usize) % items.len().max(1);
    items.rotate_left(k);
    ctx.set_extra("work_items", json!(items.len()));
    ctx.par_for_each(&items, |l, item| {
        run_item(l, item, &cts, vshort, rshort);
        watch::idle();
    });
    finish(ctx);
}

fn run_item(l: &mut Local, item: &Item, cts: &[Ct], vshort: usize, rshort: usize) {
    match item {
        Item::Validate(ct, rd) => {
            check_validate(l, *ct, rd, "grammar");
            gen::near_variants(rd, |v| check_validate(l, *ct, v, "grammar-near"));
            // and the same octets under every other class/type
            for other in cts {
                if other.class != ct.class || other.typ != ct.typ {
                    check_validate(l, *other, rd, "grammar-cross-type");
                }
            }
        }
        Item::ValidateShort(ct, first) => {
            if *first == SHORT_ALPHABET[0] {
                check_validate(l, *ct, &[], "short");
            }
            for len in 0..vshort {
                qvlib::enumerate::for_each_bytes_exact(&SHORT_ALPHABET, len, |tail| {
                    let mut v = vec![*first];
                    v.extend_from_slice(tail);
                    check_validate(l, *ct, &v, "short");
                });
            }
        }
        Item::Read(ct, rd, lim) => read_family(l, *ct, cts, rd, *lim),
        Item::ReadShort(x, y) => {
            if *x == SHORT_ALPHABET[0] && *y == SHORT_ALPHABET[0] {
                for ct in cts {
                    sweep_all_pairs(l, *ct, &[], "short-message");
                    for z in SHORT_ALPHABET {
                        sweep_all_pairs(l, *ct, &[z], "short-message");
                    }
                }
            }
            for len in 0..=rshort.saturating_sub(2) {
                qvlib::enumerate::for_each_bytes_exact(&SHORT_ALPHABET, len, |tail| {
                    let mut m = vec![*x, *y];
                    m.extend_from_slice(tail);
                    for ct in cts {
                        sweep_all_pairs(l, *ct, &m, "short-message");
                    }
                });
            }
        }
        Item::Roundtrip(ct) => {
            let rich = gen::valid_rdatas(*ct, true);
            for rd in &rich {
                for mode in MODES {
                    for context in [0u8, 1] {
                        check_roundtrip(l, *ct, &[rd], mode, context, false);
                        check_roundtrip(l, *ct, &[rd], mode, context, true);
                    }
                }
            }
            // ordered pairs of distinct (by the reference equality) RDATA
            // from the plain pool, as consecutive records and as an RRset
            let plain = gen::valid_rdatas(*ct, false);
            let plain: Vec<&Vec<u8>> = plain.iter().take(12).collect();
            for a in &plain {
                for b in &plain {
                    if rm::ref_equal(ct.class, ct.typ, a, b) != Some(false) {
                        continue;
                    }
                    for mode in MODES {
                        for context in [0u8, 1] {
                            check_roundtrip(l, *ct, &[a, b], mode, context, false);
                            check_roundtrip(l, *ct, &[a, b], mode, context, true);
                        }
                    }
                }
            }
        }
    }
}

fn finish(ctx: Ctx) -> ! {
    ctx.assume("qvlib::wire::{rdata_valid, decode_rdata, decode_message} implement RFC 1035 3.3/3.4, RFC 2782, RFC 3596, RFC 6891 6.1.2, RFC 8945 4.2 (reviewed; trusted base)");
    ctx.assume("pointer rule: a pointer must target an offset before the start of the chunk it terminates (DESIGN.md 7a)");
    ctx.assume("a pointer inside an SRV target, CH A name or TSIG algorithm name may be rejected or decompressed by Rdata::read (RFC 3597 4: SHOULD decompress SRV; RFC 8945 4.2: algorithm name not compressed)");
    ctx.assume("in CompressionMode::Standard a name may read back in the ASCII case of an earlier equal name (DESIGN.md 7a); in CasePreserving and Disabled modes RDATA must read back octet for octet");
    ctx.finish(
        "exploration",
        "30 class/type combinations (every type of the statement, class-independent types in other classes, unknown and class-mismatched types). V: Rdata::validate == independent validator on the full product of a per-layout value grammar (names {., a., A., b.a., x.y.b.a., 63-octet label, 255-octet name}, fixed fields {00.., ff.., pattern}, strings {empty, 1, 3, 255}, options, TSIG tails), on every truncation, every one-octet extension {00,01,c0,ff} and every position set to {00,3f,40,c0,ff,+1,-1} of each, on the same octets under every other class/type, and on every octet string of length <= 5 (thorough 6) over {00,01,02,03,06,40,c0,ff}. R: Rdata::read vs independent decompressing decoder: for every grammar RDATA and every assignment of {literal, pointer, label+pointer, pointer-to-pointer} to its names a message with literal copies of the names; every (cursor 0..len+1, RDLENGTH 0..len+2-cursor and 65535) pair for messages <= 72 (thorough 110) octets, a +-1/+-2 window otherwise, the same octets read as every other class/type with RDLENGTH n-1,n,n+1; every message of length <= 4 (thorough 5) over the same 8 octets at every pair. Result of a successful read must equal the decoder's decompressed RDATA, be valid uncompressed RDATA and pass Rdata::validate. W: every grammar RDATA and every ordered pair of unequal plain-pool RDATA written by the real Writer (Standard, CasePreserving, Disabled; single add_*_rr and add_*_rrset; with and without an earlier upper-case record to compress against) must be read back by the real Reader and by the independent decoder as the same RDATA",
        true,
    )
}
