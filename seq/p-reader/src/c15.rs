//! C15 — the message reader is total, atomic and faithful.
//!
//! Shape H (explicit-state): for every message of the enumerated families a
//! complete breadth-first search over the reader's cursor states. The
//! reader's whole state is its cursor (observable through
//! `message_to_cursor().len()`), the cursor only grows, so the search is
//! complete per message, not depth-bounded. `Reader` cannot be cloned or
//! positioned, so a state is re-created by replaying the operation path that
//! first reached it (replay divergence is itself a violation).

use std::collections::BTreeMap;

use quandary::message::reader::{PeekRr, ReadRr};
use quandary::message::{Question, Reader};

use qvlib::templates::{self, FieldKind, Template};
use qvlib::wire;
use qvlib::{catch, hex, json, panic_key, unhex, Ctx, Local, Value};

use crate::gen;
use crate::refmodel::{self as rm, Exp};
use crate::watch;

#[derive(Clone, Copy, Debug, PartialEq, Eq, PartialOrd, Ord)]
pub enum Op {
    ReadQuestion,
    SkipQuestion,
    ReadRr,
    SkipRr,
    PeekDrop,
    PeekSkip,
    PeekParse,
    PeekOwnerParse,
    PeekOwner2Skip,
}

pub const OPS: [Op; 9] = [
    Op::SkipQuestion,
    Op::SkipRr,
    Op::ReadQuestion,
    Op::ReadRr,
    Op::PeekDrop,
    Op::PeekSkip,
    Op::PeekParse,
    Op::PeekOwnerParse,
    Op::PeekOwner2Skip,
];

impl Op {
    pub fn name(self) -> &'static str {
        match self {
            Op::ReadQuestion => "read_question",
            Op::SkipQuestion => "skip_question",
            Op::ReadRr => "read_rr",
            Op::SkipRr => "skip_rr",
            Op::PeekDrop => "peek_rr;drop",
            Op::PeekSkip => "peek_rr;skip",
            Op::PeekParse => "peek_rr;parse",
            Op::PeekOwnerParse => "peek_rr;owner;parse",
            Op::PeekOwner2Skip => "peek_rr;owner;owner;skip",
        }
    }
}

// ------------------------------------------------------------ observation

#[derive(Clone, Debug, PartialEq, Eq)]
pub struct RrObs {
    owner: Vec<u8>,
    typ: u16,
    class: u16,
    ttl: u32,
    rdata: Vec<u8>,
}

#[derive(Clone, Debug, PartialEq, Eq)]
pub struct PeekObs {
    typ: u16,
    class: u16,
    ttl: u32,
    ttl_field: u32,
    rdlength: u16,
    to_rr_len: usize,
}

#[derive(Clone, Debug)]
pub enum Fin {
    NotReached,
    Dropped,
    Skipped,
    Parsed(Result<RrObs, String>),
}

#[derive(Clone, Debug)]
pub enum Out {
    Question(Result<(Vec<u8>, u16, u16), String>),
    Skip(Result<(), String>),
    Rr(Result<RrObs, String>),
    Peek { peek: Result<PeekObs, String>, owners: Vec<Result<Vec<u8>, String>>, fin: Fin },
}

#[derive(Clone, Debug)]
pub struct Run {
    out: Out,
    before: usize,
    after: usize,
    at_eom_after: bool,
    same_state: bool,
}

fn dbg<E: std::fmt::Debug>(e: E) -> String {
    format!("{e:?}")
}

fn rr_obs(r: ReadRr) -> RrObs {
    RrObs { owner: r.owner.wire_repr().to_vec(), typ: r.rr_type.into(), class: r.class.into(), ttl: r.ttl.into(), rdata: r.rdata.octets().to_vec() }
}

fn q_obs(q: Question) -> (Vec<u8>, u16, u16) {
    (q.qname.wire_repr().to_vec(), q.qtype.into(), q.qclass.into())
}

fn peek_obs(p: &PeekRr) -> PeekObs {
    PeekObs { typ: p.rr_type().into(), class: p.class().into(), ttl: p.ttl().into(), ttl_field: p.ttl_field(), rdlength: p.rdlength(), to_rr_len: p.message_to_rr().len() }
}

/// Executes one operation on the real reader.
fn apply(r: &mut Reader, op: Op) -> Out {
    match op {
        Op::ReadQuestion => Out::Question(r.read_question().map(q_obs).map_err(dbg)),
        Op::SkipQuestion => Out::Skip(r.skip_question().map_err(dbg)),
        Op::ReadRr => Out::Rr(r.read_rr().map(rr_obs).map_err(dbg)),
        Op::SkipRr => Out::Skip(r.skip_rr().map_err(dbg)),
        Op::PeekDrop | Op::PeekSkip | Op::PeekParse | Op::PeekOwnerParse | Op::PeekOwner2Skip => match r.peek_rr() {
            Err(e) => Out::Peek { peek: Err(dbg(e)), owners: vec![], fin: Fin::NotReached },
            Ok(mut p) => {
                let po = peek_obs(&p);
                let mut owners = Vec::new();
                let n_owner = match op {
                    Op::PeekOwnerParse => 1,
                    Op::PeekOwner2Skip => 2,
                    _ => 0,
                };
                for _ in 0..n_owner {
                    owners.push(p.owner().map(|n| n.wire_repr().to_vec()).map_err(dbg));
                }
                let fin = match op {
                    Op::PeekDrop => {
                        drop(p);
                        Fin::Dropped
                    }
                    Op::PeekSkip | Op::PeekOwner2Skip => {
                        p.skip();
                        Fin::Skipped
                    }
                    _ => Fin::Parsed(p.parse().map(rr_obs).map_err(dbg)),
                };
                Out::Peek { peek: Ok(po), owners, fin }
            }
        },
    }
}

/// Builds a reader on `msg`, replays `path` (each step must land on the
/// recorded cursor), then executes `op`. Err = a panic somewhere inside.
fn run_path(msg: &[u8], path: &[(Op, usize)], op: Op) -> Result<Result<Run, String>, String> {
    catch(|| {
        let mut r = Reader::try_from(msg).map_err(dbg)?;
        for (p, expect_after) in path {
            let _ = apply(&mut r, *p);
            let at = r.message_to_cursor().len();
            if at != *expect_after {
                return Err(format!("replay diverged: {} landed on {at}, first time on {expect_after}", p.name()));
            }
        }
        let before = r.message_to_cursor().len();
        let out = apply(&mut r, op);
        let after = r.message_to_cursor().len();
        // An operation that left the cursor where it was must have left the
        // whole reader as it was: compare (derived Eq: buffer, cursor, mark)
        // with a second reader brought to the same state.
        let mut same_state = true;
        if after == before {
            let mut r2 = Reader::try_from(msg).map_err(dbg)?;
            for (p, _) in path {
                let _ = apply(&mut r2, *p);
            }
            same_state = r == r2;
        }
        Ok(Run { out, before, after, at_eom_after: r.at_eom(), same_state })
    })
}

// ---------------------------------------------------------------- checking

struct Verdicts {
    v: Vec<(String, String)>,
}

impl Verdicts {
    fn add(&mut self, key: &str, detail: String) {
        self.v.push((key.to_string(), detail));
    }
}

fn cmp_rr(vs: &mut Verdicts, opn: &str, got: &RrObs, exp: &rm::RrExp) {
    if got.owner != exp.owner {
        vs.add(&format!("{opn}:owner-mismatch"), format!("owner {} expected {}", hex(&got.owner), hex(&exp.owner)));
    }
    if got.typ != exp.typ || got.class != exp.class {
        vs.add(&format!("{opn}:type-class-mismatch"), format!("type/class {}/{} expected {}/{}", got.typ, got.class, exp.typ, exp.class));
    }
    if got.ttl != rm::ttl_clamp(exp.ttl_raw) {
        vs.add(&format!("{opn}:ttl-mismatch"), format!("ttl {} expected {} (raw {:#x})", got.ttl, rm::ttl_clamp(exp.ttl_raw), exp.ttl_raw));
    }
    if got.rdata != exp.rdata {
        vs.add(&format!("{opn}:rdata-mismatch"), format!("rdata {} expected {}", hex(&got.rdata), hex(&exp.rdata)));
    }
}

/// Compares a full record read (read_rr or PeekRr::parse) with the model.
/// Returns the cursor the reader must be at afterwards.
fn check_full_rr(vs: &mut Verdicts, opn: &str, res: &Result<RrObs, String>, exp: &Exp<rm::RrExp>, before: usize) -> usize {
    match (res, exp) {
        (Ok(got), Exp::MustErr(w)) => {
            vs.add(&format!("{opn}:ok-but-must-fail"), format!("returned a record (type {}), model: {w}", got.typ));
            before
        }
        (Err(e), Exp::MustOk(_)) => {
            vs.add(&format!("{opn}:err-but-must-succeed"), format!("returned {e}"));
            before
        }
        (Err(_), _) => before,
        (Ok(got), Exp::MustOk(x)) | (Ok(got), Exp::Either(x, _)) => {
            cmp_rr(vs, opn, got, x);
            x.end
        }
    }
}

fn check(msg: &[u8], op: Op, run: &Run) -> Vec<(String, String)> {
    let mut vs = Verdicts { v: vec![] };
    let opn = op.name();
    let cur = run.before;
    let must_after: usize = match &run.out {
        Out::Question(res) => match (res, rm::exp_read_question(msg, cur)) {
            (Ok(_), Exp::MustErr(w)) => {
                vs.add(&format!("{opn}:ok-but-must-fail"), w);
                cur
            }
            (Err(e), Exp::MustOk(_)) => {
                vs.add(&format!("{opn}:err-but-must-succeed"), e.clone());
                cur
            }
            (Err(_), _) => cur,
            (Ok(got), Exp::MustOk(x)) | (Ok(got), Exp::Either(x, _)) => {
                if got.0 != x.qname || got.1 != x.qtype || got.2 != x.qclass {
                    vs.add(&format!("{opn}:field-mismatch"), format!("got {} {} {}, expected {} {} {}", hex(&got.0), got.1, got.2, hex(&x.qname), x.qtype, x.qclass));
                }
                x.end
            }
        },
        Out::Skip(res) => {
            let exp: Exp<usize> = if op == Op::SkipQuestion {
                rm::exp_skip_question(msg, cur)
            } else {
                match rm::exp_delimit_rr(msg, cur) {
                    Exp::MustErr(w) => Exp::MustErr(w),
                    Exp::MustOk(d) => Exp::MustOk(d.end),
                    Exp::Either(d, w) => Exp::Either(d.end, w),
                }
            };
            match (res, exp) {
                (Ok(()), Exp::MustErr(w)) => {
                    vs.add(&format!("{opn}:ok-but-must-fail"), w);
                    cur
                }
                (Err(e), Exp::MustOk(_)) => {
                    vs.add(&format!("{opn}:err-but-must-succeed"), e.clone());
                    cur
                }
                (Err(_), _) => cur,
                (Ok(()), Exp::MustOk(end)) | (Ok(()), Exp::Either(end, _)) => end,
            }
        }
        Out::Rr(res) => check_full_rr(&mut vs, opn, res, &rm::exp_read_rr(msg, cur), cur),
        Out::Peek { peek, owners, fin } => {
            let dexp = rm::exp_delimit_rr(msg, cur);
            match (peek, &dexp) {
                (Ok(_), Exp::MustErr(w)) => {
                    vs.add("peek_rr:ok-but-must-fail", w.clone());
                    // Whatever follows is unconstrained by the model; only
                    // totality (no panic) was at stake.
                    run.after
                }
                (Err(e), Exp::MustOk(_)) => {
                    vs.add("peek_rr:err-but-must-succeed", e.clone());
                    cur
                }
                (Err(_), _) => cur,
                (Ok(po), Exp::MustOk(d)) | (Ok(po), Exp::Either(d, _)) => {
                    let want = PeekObs { typ: d.typ, class: d.class, ttl: rm::ttl_clamp(d.ttl_raw), ttl_field: d.ttl_raw, rdlength: d.rdlength, to_rr_len: cur };
                    if *po != want {
                        vs.add("peek_rr:field-mismatch", format!("got {po:?}, expected {want:?}"));
                    }
                    let nexp = wire::decode_name(msg, cur, rm::RULE);
                    for o in owners {
                        match (o, &nexp) {
                            (Ok(n), Ok(d)) => {
                                if *n != d.name {
                                    vs.add("peek_rr;owner:mismatch", format!("owner {} expected {}", hex(n), hex(&d.name)));
                                }
                            }
                            (Ok(n), Err(e)) => vs.add("peek_rr;owner:ok-but-must-fail", format!("owner {} but model says {e:?}", hex(n))),
                            (Err(e), Ok(_)) => vs.add("peek_rr;owner:err-but-must-succeed", e.clone()),
                            (Err(_), Err(_)) => {}
                        }
                    }
                    match fin {
                        Fin::NotReached | Fin::Dropped => cur,
                        Fin::Skipped => d.end,
                        Fin::Parsed(res) => check_full_rr(&mut vs, opn, res, &rm::exp_read_rr(msg, cur), cur),
                    }
                }
            }
        }
    };
    if run.after != must_after {
        let failed = run.after != cur && must_after == cur;
        let key = if failed { format!("{opn}:cursor-moved-on-failure") } else { format!("{opn}:wrong-cursor") };
        vs.add(&key, format!("cursor {} -> {}, expected {}", cur, run.after, must_after));
    }
    if !run.same_state {
        vs.add(&format!("{opn}:reader-state-changed-without-moving"), "reader != a fresh reader replayed to the same cursor".to_string());
    }
    if run.at_eom_after != (run.after >= msg.len()) {
        vs.add("at_eom:wrong", format!("at_eom()={} at cursor {} of {}", run.at_eom_after, run.after, msg.len()));
    }
    vs.v
}

fn outcome_class(op: Op, run: &Run, msg: &[u8]) -> String {
    fn trim(e: &str) -> &str {
        e
    }
    let tn = |typ: u16, class: u16| rm::type_name(class, typ);
    match &run.out {
        Out::Question(Ok(_)) => format!("{}:Ok", op.name()),
        Out::Question(Err(e)) => format!("{}:{}", op.name(), trim(e)),
        Out::Skip(Ok(())) => format!("{}:Ok", op.name()),
        Out::Skip(Err(e)) => format!("{}:{}", op.name(), trim(e)),
        Out::Rr(Ok(r)) => {
            let ptr = matches!(rm::exp_read_rr(msg, run.before), Exp::MustOk(ref x) | Exp::Either(ref x, _) if x.rdata_had_pointers);
            format!("read_rr:Ok:{}{}", tn(r.typ, r.class), if ptr { ":decompressed" } else { "" })
        }
        Out::Rr(Err(e)) => format!("read_rr:{}", trim(e)),
        Out::Peek { peek: Err(e), .. } => format!("peek_rr:{}", trim(e)),
        Out::Peek { peek: Ok(_), owners, fin } => {
            let o = match owners.first() {
                None => "",
                Some(Ok(_)) => ";owner=Ok",
                Some(Err(_)) => ";owner=Err",
            };
            match fin {
                Fin::Parsed(Ok(r)) => format!("peek_rr{o};parse:Ok:{}", tn(r.typ, r.class)),
                Fin::Parsed(Err(e)) => format!("peek_rr{o};parse:{}", trim(e)),
                Fin::Skipped => format!("peek_rr{o};skip"),
                _ => "peek_rr;drop".to_string(),
            }
        }
    }
}

// ------------------------------------------------------------------- BFS

#[derive(Default)]
pub struct Stats {
    pub messages: u64,
    pub states: u64,
    pub transitions: u64,
    pub max_states: u64,
}

fn path_json(path: &[(Op, usize)]) -> Value {
    json!(path.iter().map(|(o, c)| json!([o.name(), c])).collect::<Vec<_>>())
}

/// Header accessors, message_to_cursor and at_eom in the state reached by
/// `path`.
fn check_state(l: &mut Local, fam: &str, msg: &[u8], path: &[(Op, usize)], cur: usize) {
    let r = catch(|| {
        let mut r = Reader::try_from(msg).map_err(dbg)?;
        for (p, _) in path {
            let _ = apply(&mut r, *p);
        }
        let h = (
            r.id(),
            r.qr(),
            u8::from(r.opcode()),
            r.aa(),
            r.tc(),
            r.rd(),
            r.ra(),
            u8::from(r.rcode()),
            [r.qdcount(), r.ancount(), r.nscount(), r.arcount()],
        );
        Ok::<_, String>((h, r.message_to_cursor().to_vec(), r.at_eom(), format!("{r:?}").len()))
    });
    l.tick();
    let case = || json!({"msg": hex(msg), "family": fam, "cursor": cur, "path": path_json(path), "op": "header accessors"});
    match r {
        Err(p) => l.violation(&format!("header:{}", panic_key(&p)), { let mut c = case(); c["panic"] = json!(p); c }),
        Ok(Err(e)) => l.violation("reader:construction-failed", { let mut c = case(); c["error"] = json!(e); c }),
        Ok(Ok((h, to_cursor, at_eom, _))) => {
            let w = wire::Header::parse(msg).expect("msg >= 12");
            let want = (w.id, w.qr, w.opcode, w.aa, w.tc, w.rd, w.ra, w.rcode, [w.qdcount, w.ancount, w.nscount, w.arcount]);
            if h != want {
                l.violation("header:accessor-mismatch", { let mut c = case(); c["got"] = json!(format!("{h:?}")); c["expected"] = json!(format!("{want:?}")); c });
            }
            if to_cursor != msg[..cur.min(msg.len())] || to_cursor.len() != cur {
                l.violation("message_to_cursor:wrong", case());
            }
            if at_eom != (cur >= msg.len()) {
                l.violation("at_eom:wrong", case());
            }
        }
    }
}

/// Complete exploration of one message. Returns the number of violations
/// recorded.
pub fn explore(l: &mut Local, fam: &str, msg: &[u8], st: &mut Stats) -> u64 {
    let mut nviol = 0u64;
    st.messages += 1;
    watch::note("c15", msg, fam.as_bytes(), [0; 4]);
    if msg.len() < 12 {
        l.tick();
        match catch(|| Reader::try_from(msg).map(|_| ()).map_err(dbg)) {
            Ok(Err(e)) => l.outcome(&format!("Reader::try_from:{e}"), || json!({"msg": hex(msg)})),
            Ok(Ok(())) => {
                nviol += 1;
                l.violation("reader:accepts-short-header", json!({"msg": hex(msg), "family": fam}))
            }
            Err(p) => {
                nviol += 1;
                l.violation(&format!("Reader::try_from:{}", panic_key(&p)), json!({"msg": hex(msg), "family": fam, "panic": p}))
            }
        }
        watch::idle();
        return nviol;
    }
    // cursor -> path that first reached it
    let mut seen: BTreeMap<usize, Vec<(Op, usize)>> = BTreeMap::new();
    seen.insert(12, vec![]);
    let mut queue: Vec<usize> = vec![12];
    let mut qi = 0;
    while qi < queue.len() {
        let cur = queue[qi];
        qi += 1;
        let path = seen[&cur].clone();
        st.states += 1;
        check_state(l, fam, msg, &path, cur);
        for op in OPS {
            l.tick();
            st.transitions += 1;
            let case = |extra: Value| {
                let mut c = json!({"msg": hex(msg), "family": fam, "cursor": cur, "path": path_json(&path), "op": op.name()});
                if let (Some(o), Some(e)) = (c.as_object_mut(), extra.as_object()) {
                    for (k, v) in e {
                        o.insert(k.clone(), v.clone());
                    }
                }
                c
            };
            match run_path(msg, &path, op) {
                Err(p) => {
                    nviol += 1;
                    l.violation(&format!("{}:{}", op.name(), panic_key(&p)), case(json!({"panic": p})));
                    l.outcome(&format!("{}:PANIC", op.name()), || case(json!({})));
                }
                Ok(Err(e)) => {
                    nviol += 1;
                    l.violation("reader:replay-diverged", case(json!({"error": e})));
                }
                Ok(Ok(run)) => {
                    if run.before != cur {
                        nviol += 1;
                        l.violation("reader:replay-diverged", case(json!({"error": format!("replayed to {} instead of {}", run.before, cur)})));
                        continue;
                    }
                    let vs = check(msg, op, &run);
                    for (k, d) in vs {
                        nviol += 1;
                        l.violation(&k, case(json!({"detail": d, "observed": format!("{:?}", run.out), "cursor_after": run.after})));
                    }
                    let cls = outcome_class(op, &run, msg);
                    l.outcome(&cls, || case(json!({"cursor_after": run.after})));
                    if run.after > cur && run.after <= msg.len() && !seen.contains_key(&run.after) {
                        let mut p2 = path.clone();
                        p2.push((op, run.after));
                        seen.insert(run.after, p2);
                        queue.push(run.after);
                    }
                }
            }
        }
    }
    st.max_states = st.max_states.max(queue.len() as u64);
    watch::idle();
    nviol
}

// --------------------------------------------------------------- families

/// A base message and the set of lengths at which it is cut.
struct Base {
    name: String,
    bytes: Vec<u8>,
    /// Truncation lengths to explore, besides the full message.
    cuts: Cuts,
}

enum Cuts {
    None,
    /// Every length from `from` to len-1.
    From(usize),
    /// Every length from `from` to len-1 if the message is at most `small`
    /// octets long, else only the last `tail` lengths and `from..from+tail`.
    Windowed { from: usize, small: usize, tail: usize },
}

impl Base {
    fn lengths(&self) -> Vec<usize> {
        let n = self.bytes.len();
        let mut v: Vec<usize> = match self.cuts {
            Cuts::None => vec![],
            Cuts::From(f) => (f.min(n)..n).collect(),
            Cuts::Windowed { from, small, tail } => {
                if n <= small {
                    (from.min(n)..n).collect()
                } else {
                    let mut v: Vec<usize> = (from.min(n)..(from + tail).min(n)).collect();
                    v.extend(n.saturating_sub(tail).max(from)..n);
                    v.sort();
                    v.dedup();
                    v
                }
            }
        };
        v.push(n);
        v
    }
}

const KNOWN_TYPES: [u16; 22] = [1, 2, 3, 4, 5, 6, 7, 8, 9, 10, 11, 12, 13, 14, 15, 16, 28, 33, 41, 250, 65280, 255];

/// Replacement values for one field: (description, new octets of the field).
fn field_values(t: &Template, fi: usize, reduced: bool) -> Vec<(String, Vec<u8>)> {
    let f = &t.fields[fi];
    let b = &t.bytes;
    let len = b.len();
    let mut out: Vec<(String, Vec<u8>)> = Vec::new();
    let push16 = |vals: &[u32], orig: u16, out: &mut Vec<(String, Vec<u8>)>| {
        let mut vs: Vec<u16> = vals.iter().filter(|v| **v <= 0xffff).map(|v| *v as u16).filter(|v| *v != orig).collect();
        vs.sort();
        vs.dedup();
        for v in vs {
            out.push((format!("={v}"), v.to_be_bytes().to_vec()));
        }
    };
    match f.kind {
        FieldKind::Count => {
            let n = rm::be16(b, f.offset);
            let vals: Vec<u32> = if reduced { vec![0, n as u32 + 1] } else { vec![0, (n as u32).wrapping_sub(1) & 0xffff, n as u32 + 1, 0xffff] };
            push16(&vals, n, &mut out);
        }
        FieldKind::LabelLen => {
            let n = b[f.offset];
            let mut vals: Vec<u8> = if reduced { vec![0, n.wrapping_add(1), 0xc0] } else { vec![0, n.wrapping_sub(1), n.wrapping_add(1), 0x3f, 0x40, 0x80, 0xc0, 0xff] };
            vals.sort();
            vals.dedup();
            for v in vals {
                if v != n {
                    out.push((format!("={v:#x}"), vec![v]));
                }
            }
        }
        FieldKind::Pointer => {
            let orig = rm::be16(b, f.offset) & 0x3fff;
            let off = f.offset as u32;
            let targets: Vec<u32> = if reduced { vec![0, off, len as u32] } else { vec![0, 12, off.saturating_sub(1), off, off + 1, len as u32 - 1, len as u32, 0x3fff] };
            let mut ts: Vec<u16> = targets.into_iter().filter(|v| *v <= 0x3fff).map(|v| v as u16).filter(|v| *v != orig).collect();
            ts.sort();
            ts.dedup();
            for v in ts {
                out.push((format!("->{v}"), (0xc000 | v).to_be_bytes().to_vec()));
            }
            if !reduced {
                // the pointer degraded into a label length / reserved type
                out.push(("=label".into(), vec![0x01, b[f.offset + 1]]));
                out.push(("=0x80".into(), vec![0x80, b[f.offset + 1]]));
            }
        }
        FieldKind::Rdlength => {
            let n = rm::be16(b, f.offset) as u32;
            let rest = (len - f.offset - 2) as u32;
            let vals: Vec<u32> = if reduced { vec![0, n + 1, rest] } else { vec![0, 1, 2, 6, n.wrapping_sub(1) & 0xffff, n + 1, n + 2, 0x3f, 0x40, 0xff, rest, rest + 1, 0xffff] };
            push16(&vals, n as u16, &mut out);
        }
        FieldKind::RrType => {
            let n = rm::be16(b, f.offset);
            let vals: Vec<u32> = if reduced { vec![2, 15, 6] } else { KNOWN_TYPES.iter().map(|v| *v as u32).collect() };
            push16(&vals, n, &mut out);
        }
        FieldKind::RrClass => {
            let n = rm::be16(b, f.offset);
            let vals: Vec<u32> = if reduced { vec![3] } else { vec![1, 3, 4, 254, 255] };
            push16(&vals, n, &mut out);
        }
        FieldKind::RrTtl => {
            let n = rm::be32(b, f.offset);
            let vals: &[u32] = if reduced { &[0x8000_0000] } else { &[0, 0x7fff_ffff, 0x8000_0000, 0xffff_ffff] };
            for v in vals {
                if *v != n {
                    out.push((format!("={v:#x}"), v.to_be_bytes().to_vec()));
                }
            }
        }
        FieldKind::MacSize | FieldKind::OtherLen | FieldKind::OptLen => {
            let n = rm::be16(b, f.offset) as u32;
            let vals: Vec<u32> = if reduced { vec![n + 1] } else { vec![0, n.wrapping_sub(1) & 0xffff, n + 1, 0xff, 0xffff] };
            push16(&vals, n as u16, &mut out);
        }
        FieldKind::Record | FieldKind::Question => {}
    }
    out
}

fn kind_name(k: FieldKind) -> &'static str {
    match k {
        FieldKind::Count => "count",
        FieldKind::LabelLen => "labellen",
        FieldKind::Pointer => "pointer",
        FieldKind::Rdlength => "rdlength",
        FieldKind::RrType => "type",
        FieldKind::RrClass => "class",
        FieldKind::RrTtl => "ttl",
        FieldKind::MacSize => "macsize",
        FieldKind::OtherLen => "otherlen",
        FieldKind::OptLen => "optlen",
        FieldKind::Record => "record",
        FieldKind::Question => "question",
    }
}

fn bases(ctx: &Ctx) -> Vec<Base> {
    let mut temps = templates::requests();
    temps.extend(gen::reader_zoo());
    let mut out = Vec::new();
    let quick = ctx.quick();
    for t in &temps {
        // (a) the template itself at every length
        out.push(Base { name: format!("{}|trunc", t.name), bytes: t.bytes.clone(), cuts: Cuts::From(0) });
        // (b) every single-field mutation; truncations of a mutant shorter
        // than the end of the mutated field equal truncations of the
        // template, so they start right after it.
        for (fi, f) in t.fields.iter().enumerate() {
            for (desc, val) in field_values(t, fi, false) {
                let mut b = t.bytes.clone();
                b[f.offset..f.offset + val.len()].copy_from_slice(&val);
                let from = f.offset + val.len();
                let cuts = if quick { Cuts::Windowed { from, small: 400, tail: 24 } } else { Cuts::From(from) };
                out.push(Base { name: format!("{}|{}@{}{}", t.name, kind_name(f.kind), f.offset, desc), bytes: b, cuts });
            }
            // whole record / question removed or duplicated (pointers and
            // counts left as they were)
            if matches!(f.kind, FieldKind::Record | FieldKind::Question) {
                let mut b = t.bytes.clone();
                b.drain(f.offset..f.offset + f.len);
                out.push(Base { name: format!("{}|{}@{}-removed", t.name, kind_name(f.kind), f.offset), bytes: b, cuts: Cuts::None });
                let mut b = t.bytes.clone();
                let dup: Vec<u8> = b[f.offset..f.offset + f.len].to_vec();
                let at = f.offset + f.len;
                b.splice(at..at, dup);
                out.push(Base { name: format!("{}|{}@{}-duplicated", t.name, kind_name(f.kind), f.offset), bytes: b, cuts: Cuts::None });
            }
        }
        // (c) thorough: every pair of field mutations over a reduced value
        // menu (no truncation)
        if !quick && t.bytes.len() <= 400 {
            let reduced = t.bytes.len() > 128;
            let vals: Vec<Vec<(String, Vec<u8>)>> = (0..t.fields.len()).map(|fi| field_values(t, fi, reduced)).collect();
            for i in 0..t.fields.len() {
                for j in i + 1..t.fields.len() {
                    for (d1, v1) in &vals[i] {
                        for (d2, v2) in &vals[j] {
                            let mut b = t.bytes.clone();
                            b[t.fields[i].offset..t.fields[i].offset + v1.len()].copy_from_slice(v1);
                            b[t.fields[j].offset..t.fields[j].offset + v2.len()].copy_from_slice(v2);
                            out.push(Base {
                                name: format!("{}|{}@{}{}+{}@{}{}", t.name, kind_name(t.fields[i].kind), t.fields[i].offset, d1, kind_name(t.fields[j].kind), t.fields[j].offset, d2),
                                bytes: b,
                                cuts: Cuts::None,
                            });
                        }
                    }
                }
            }
        }
    }
    out
}

/// Header of the raw families: offsets 0..3 hold the name "h." so that
/// pointers into the header have something to land on.
const RAW_HEADER: [u8; 12] = [0x01, b'h', 0x00, 0x00, 0x00, 0x01, 0x00, 0x01, 0x00, 0x00, 0x00, 0x00];
const RAW_ALPHABET: [u8; 11] = [0x00, 0x01, 0x02, 0x03, 0x0c, 0x0d, 0x3f, 0x40, 0x80, 0xc0, 0xff];

/// Raw family 1: the fixed header followed by every octet string of length
/// <= n over RAW_ALPHABET. Sharded by the first two body octets.
fn raw_bodies(l: &mut Local, n: usize, shard: usize, st: &mut Stats) {
    let a = RAW_ALPHABET.len();
    if shard == 0 {
        // bodies of length 0 and 1
        explore(l, "raw-body", &RAW_HEADER, st);
        for x in RAW_ALPHABET {
            let mut m = RAW_HEADER.to_vec();
            m.push(x);
            explore(l, "raw-body", &m, st);
        }
    }
    let (x, y) = (RAW_ALPHABET[shard / a], RAW_ALPHABET[shard % a]);
    for len in 0..=n.saturating_sub(2) {
        qvlib::enumerate::for_each_bytes_exact(&RAW_ALPHABET, len, |tail| {
            let mut m = RAW_HEADER.to_vec();
            m.push(x);
            m.push(y);
            m.extend_from_slice(tail);
            explore(l, "raw-body", &m, st);
        });
    }
}

const RR_RDATA_ALPHABET: [u8; 8] = [0x00, 0x01, 0x02, 0x0c, 0x3f, 0x40, 0xc0, 0xff];

/// Raw family 2: one record right after the header: owner from a menu, every
/// known type, every RDATA string of length <= n over RR_RDATA_ALPHABET with
/// RDLENGTH exact, one short and one long. One shard per (owner, type).
fn raw_records(l: &mut Local, n: usize, shard: usize, st: &mut Stats) {
    let owners: [&[u8]; 4] = [&[0x00], &[0xc0, 0x00], &[0x01, b'o', 0xc0, 0x00], &[0xc0, 0x0c]];
    let cts: Vec<(u16, u16)> = KNOWN_TYPES.iter().map(|t| (1u16, *t)).chain([(3u16, 1u16)]).collect();
    let owner = owners[shard / cts.len()];
    let (class, typ) = cts[shard % cts.len()];
    for len in 0..=n {
        qvlib::enumerate::for_each_bytes_exact(&RR_RDATA_ALPHABET, len, |rd| {
            for delta in [0i32, -1, 1] {
                let rdl = len as i32 + delta;
                if rdl < 0 {
                    continue;
                }
                let mut m = RAW_HEADER.to_vec();
                m.extend_from_slice(owner);
                m.extend_from_slice(&typ.to_be_bytes());
                m.extend_from_slice(&class.to_be_bytes());
                m.extend_from_slice(&[0, 0, 0, 60]);
                m.extend_from_slice(&(rdl as u16).to_be_bytes());
                m.extend_from_slice(rd);
                explore(l, "raw-record", &m, st);
            }
        });
    }
}

pub const RAW_RECORD_SHARDS: usize = 4 * 23;

fn hang_case(n: &watch::Noted) -> (String, Value) {
    ("reader:does-not-terminate".to_string(), json!({"msg": hex(&n.a), "family": String::from_utf8_lossy(&n.b), "op": "some reader operation on this message did not return"}))
}

pub fn run(ctx: Ctx) -> ! {
    watch::start(&ctx, hang_case, |c| finish(c, &[]));
    if let Some(case) = ctx.replay_case() {
        let msg = unhex(case.get("msg").and_then(|v| v.as_str()).unwrap_or(""));
        let fam = case.get("family").and_then(|v| v.as_str()).unwrap_or("replay").to_string();
        let mut st = Stats::default();
        let n = {
            let mut l = ctx.local();
            explore(&mut l, &fam, &msg, &mut st)
        };
        eprintln!("replay: message of {} octets, {} cursor states, {} operations, {} violations", msg.len(), st.states, st.transitions, n);
        finish(ctx, &[st]);
    }

    let all = std::sync::Mutex::new(Vec::<Stats>::new());
    let t0 = std::time::Instant::now();
    let phase = |name: &str| {
        if std::env::var("QVERIF_TIMING").is_ok() {
            eprintln!("[C15] {name} done at {:.2}s", t0.elapsed().as_secs_f64());
        }
    };
    // Family B: all 65536 flag words on a bare header (header accessors).
    ctx.par_shards(16, |l, shard| {
        let mut st = Stats::default();
        for w in (shard * 4096)..((shard + 1) * 4096) {
            let mut m = vec![0xab, 0xcd, (w >> 8) as u8, w as u8, 0, 1, 0xff, 0xff, 0x80, 0, 0, 2];
            if w % 2 == 1 {
                m.extend_from_slice(&[0, 0, 1, 0, 1]);
            }
            explore(l, "flag-words", &m, &mut st);
        }
        all.lock().unwrap().push(st);
    });
    phase("B flag words");
    // Family C: raw bodies.
    let nbody = ctx.pick(6, 7);
    ctx.par_shards(RAW_ALPHABET.len() * RAW_ALPHABET.len(), |l, shard| {
        let mut st = Stats::default();
        raw_bodies(l, nbody, shard, &mut st);
        all.lock().unwrap().push(st);
    });
    phase("C raw bodies");
    // Family D: raw single records.
    let nrd = ctx.pick(4, 5);
    ctx.par_shards(RAW_RECORD_SHARDS, |l, shard| {
        let mut st = Stats::default();
        raw_records(l, nrd, shard, &mut st);
        all.lock().unwrap().push(st);
    });
    phase("D raw records");
    // Family A: templates x truncation x mutation.
    let mut bs = bases(&ctx);
    // long-running items first
    bs.sort_by_key(|b| std::cmp::Reverse(b.bytes.len() * b.lengths().len()));
    ctx.set_extra("base_messages", json!(bs.len()));
    ctx.par_for_each(&bs, |l, b| {
        let mut st = Stats::default();
        for n in b.lengths() {
            explore(l, &b.name, &b.bytes[..n], &mut st);
        }
        all.lock().unwrap().push(st);
    });
    phase("A templates");
    let stats = all.into_inner().unwrap();
    finish(ctx, &stats);
}

fn finish(ctx: Ctx, stats: &[Stats]) -> ! {
    let (mut m, mut s, mut t, mut mx) = (0u64, 0u64, 0u64, 0u64);
    for st in stats {
        m += st.messages;
        s += st.states;
        t += st.transitions;
        mx = mx.max(st.max_states);
    }
    ctx.set_extra("messages", json!(m));
    ctx.set_extra("states", json!(s));
    ctx.set_extra("transitions", json!(t));
    ctx.set_extra("traces_validated_against_impl", json!(m));
    ctx.set_extra("max_states_per_message", json!(mx));
    ctx.assume("qvlib::wire::{decode_name, decode_rdata, rdata_valid} are a correct RFC 1035/2782/6891/8945 decoder (reviewed; trusted base)");
    ctx.assume("pointer rule: a pointer must target an offset before the start of the chunk it terminates (DESIGN.md 7a)");
    ctx.assume("skip_question/skip_rr/peek_rr are only required to validate the first chunk of the name, the fixed fields and the RDLENGTH bound; whether a first chunk that alone exceeds 255 octets is rejected is left open");
    ctx.assume("a pointer inside an SRV target, CH A name or TSIG algorithm name may be rejected or decompressed");
    ctx.finish(
        "model_checking",
        "per message: complete BFS over reader cursor states (state = message_to_cursor().len(); every state re-created by replaying its path on a fresh Reader) with operations {read_question, skip_question, read_rr, skip_rr, peek_rr then drop | skip | parse | owner+parse | owner,owner,skip} plus header accessors/at_eom/message_to_cursor in every state. Messages: (A) 52 request templates + 6 response templates with every RFC 1035 type and compressed RDATA, each at every truncation length, with every single-field mutation (counts, label lengths, pointers, RDLENGTH, TYPE, CLASS, TTL, MAC/other/option lengths, record removed/duplicated) at every truncation length after the field (quick: messages > 400 octets only 24 lengths after the field and the last 24), thorough: all pairs of field mutations (full value menu for templates <= 128 octets, reduced menu up to 400 octets); (B) all 65536 flag words; (C) fixed header + every body of length <= 5 (thorough 6) over 11 significant octets; (D) header + one record: 4 owners x 23 class/types x every RDATA of length <= 3 (thorough 4) over 8 octets x RDLENGTH exact/-1/+1. Oracle: independent RFC 1035 decoder (qvlib::wire) at the same cursor: no panic, no hang (watchdog); failure leaves the cursor unchanged and the reader equal (derived Eq) to a fresh reader replayed to the same state; success => every field equal incl. decompressed RDATA and TTL clamped per RFC 2181; skip/peek modelled as first-chunk + fixed fields + RDLENGTH bound",
        true,
    )
}
