//! Reference models shared by C20 / C21 / C22. Written from RFC 1034 §4.3.2,
//! RFC 4592 and the property statements; nothing here calls quandary (names
//! are uncompressed wire octets, codes are u16, handled by qvlib::wire).

use std::collections::{BTreeMap, BTreeSet};

use qvlib::wire::{self, WName};
use qvlib::{hex, json, unhex, Value};

/// One resource record as plain data.
#[derive(Clone, Debug, PartialEq, Eq, PartialOrd, Ord, Hash)]
pub struct Rr {
    pub owner: WName,
    pub typ: u16,
    pub class: u16,
    pub ttl: u32,
    pub rdata: Vec<u8>,
}

impl Rr {
    pub fn new(owner: &str, typ: u16, class: u16, ttl: u32, rdata: &[u8]) -> Rr {
        Rr { owner: wire::wname(owner), typ, class, ttl, rdata: rdata.to_vec() }
    }
    pub fn to_json(&self) -> Value {
        json!({"owner": wire::name_text(&self.owner), "owner_wire": hex(&self.owner), "type": self.typ, "class": self.class, "ttl": self.ttl, "rdata": hex(&self.rdata)})
    }
    pub fn from_json(v: &Value) -> Option<Rr> {
        Some(Rr {
            owner: unhex(v.get("owner_wire")?.as_str()?),
            typ: v.get("type")?.as_u64()? as u16,
            class: v.get("class")?.as_u64()? as u16,
            ttl: v.get("ttl")?.as_u64()? as u32,
            rdata: unhex(v.get("rdata")?.as_str()?),
        })
    }
}

/// All names from `name` up to and including `apex` (name first). `name` must
/// be at or below `apex`.
pub fn chain_to_apex(name: &[u8], apex: &[u8]) -> Vec<WName> {
    let mut out = vec![name.to_vec()];
    let mut cur = name.to_vec();
    let n_apex = wire::labels(apex).len();
    while wire::labels(&cur).len() > n_apex {
        cur = wire::parent(&cur).expect("not below apex");
        out.push(cur.clone());
    }
    out
}

pub fn is_wildcard(name: &[u8]) -> bool {
    name.len() >= 2 && name[0] == 1 && name[1] == b'*'
}

/// RRset as the model keeps it: TTL and the RDATA in insertion order, each in
/// the canonical form of its equality class (embedded names of the RFC 1035
/// name-bearing types lower-cased), duplicates dropped.
pub type RefRrset = (u32, Vec<Vec<u8>>);

/// Why the reference says an `add` must be rejected (every condition that
/// fails is listed; the implementation may report any one of them).
pub type Reject = Vec<&'static str>;

/// The zone store as the property statement describes it: a map from owner
/// (lower-cased) to its RRsets, plus the tree nodes implied by the owners
/// (every name between an owner and the apex exists, possibly empty).
#[derive(Clone, Debug, PartialEq, Eq)]
pub struct RefStore {
    pub apex: WName,
    pub class: u16,
    pub nodes: BTreeMap<WName, BTreeMap<u16, RefRrset>>,
}

impl RefStore {
    pub fn new(apex: &[u8], class: u16) -> RefStore {
        let mut nodes = BTreeMap::new();
        nodes.insert(wire::lower(apex), BTreeMap::new());
        RefStore { apex: wire::lower(apex), class, nodes }
    }

    /// C20's success condition, word for word: owner at or below the apex,
    /// class equal to the zone's, TTL equal to its RRset's (if one exists).
    pub fn add(&mut self, rr: &Rr) -> Result<bool, Reject> {
        let mut why = Vec::new();
        let in_zone = wire::eq_or_subdomain(&rr.owner, &self.apex);
        if !in_zone {
            why.push("NotInZone");
        }
        if rr.class != self.class {
            why.push("ClassMismatch");
        }
        let owner = wire::lower(&rr.owner);
        if why.is_empty() {
            if let Some((ttl, _)) = self.nodes.get(&owner).and_then(|n| n.get(&rr.typ)) {
                if *ttl != rr.ttl {
                    why.push("TtlMismatch");
                }
            }
        }
        if !why.is_empty() {
            return Err(why);
        }
        for n in chain_to_apex(&owner, &self.apex) {
            self.nodes.entry(n).or_default();
        }
        let canon = wire::canon_rdata(rr.class, rr.typ, &rr.rdata);
        let set = self.nodes.get_mut(&owner).unwrap().entry(rr.typ).or_insert((rr.ttl, Vec::new()));
        if set.1.contains(&canon) {
            Ok(false)
        } else {
            set.1.push(canon);
            Ok(true)
        }
    }

    pub fn rrset(&self, name: &[u8], typ: u16) -> Option<&RefRrset> {
        self.nodes.get(&wire::lower(name)).and_then(|n| n.get(&typ))
    }

    pub fn has(&self, name: &[u8], typ: u16) -> bool {
        self.rrset(name, typ).is_some()
    }

    /// RFC 1034 §4.3.2 step 3 with RFC 4592 wildcard synthesis, for `name`.
    /// With `below_cuts` the NS RRsets on the way are ignored (glue search).
    pub fn resolve(&self, name: &[u8], below_cuts: bool) -> Resolved {
        if !wire::eq_or_subdomain(name, &self.apex) {
            return Resolved::Outside;
        }
        let name = wire::lower(name);
        let mut chain = chain_to_apex(&name, &self.apex);
        chain.reverse(); // apex first
        for n in chain.iter().skip(1) {
            match self.nodes.get(n) {
                Some(node) => {
                    if !below_cuts && node.contains_key(&wire::t::NS) {
                        return Resolved::Cut(n.clone());
                    }
                }
                None => {
                    // The parent of `n` is the closest encloser.
                    let ce = wire::parent(n).unwrap();
                    let star = wire::child(b"*", &ce);
                    return match self.nodes.get(&star) {
                        Some(_) => Resolved::Node { node: star, synthesized: true },
                        None => Resolved::NxDomain,
                    };
                }
            }
        }
        Resolved::Node { node: name, synthesized: false }
    }
}

#[derive(Clone, Debug, PartialEq, Eq)]
pub enum Resolved {
    /// Not at or below the apex.
    Outside,
    /// The walk met the NS RRset of this (topmost) non-apex node.
    Cut(WName),
    /// The data to use is that of `node` (the name itself, or the wildcard
    /// `*.<closest encloser>` when `synthesized`).
    Node { node: WName, synthesized: bool },
    NxDomain,
}

// ------------------------------------------------------------------ catalog

/// What identifies a catalog entry for the harness: kind, name, class, tag.
#[derive(Clone, Debug, PartialEq, Eq, PartialOrd, Ord, Hash)]
pub struct RefEntry {
    pub kind: u8, // 0 Loaded, 1 NotYetLoaded, 2 FailedToLoad
    pub name: WName,
    pub class: u16,
    pub tag: u32,
}

impl RefEntry {
    pub fn text(&self) -> String {
        format!("{}({},{},#{})", ["Loaded", "NotYetLoaded", "FailedToLoad"][self.kind as usize], wire::name_text(&self.name), self.class, self.tag)
    }
}

/// The catalog as the statement describes it: a map (class, name) -> entry.
#[derive(Clone, Debug, Default, PartialEq, Eq, PartialOrd, Ord, Hash)]
pub struct RefCatalog {
    pub map: BTreeMap<(u16, WName), RefEntry>,
}

impl RefCatalog {
    pub fn insert(&mut self, e: RefEntry) -> Option<RefEntry> {
        self.map.insert((e.class, wire::lower(&e.name)), e)
    }
    pub fn remove(&mut self, name: &[u8], class: u16) -> Option<RefEntry> {
        self.map.remove(&(class, wire::lower(name)))
    }
    pub fn get(&self, name: &[u8], class: u16) -> Option<&RefEntry> {
        self.map.get(&(class, wire::lower(name)))
    }
    /// The entry of that class whose name is the longest suffix of `name`.
    pub fn lookup(&self, name: &[u8], class: u16) -> Option<&RefEntry> {
        let mut cur = Some(wire::lower(name));
        while let Some(n) = cur {
            if let Some(e) = self.map.get(&(class, n.clone())) {
                return Some(e);
            }
            cur = wire::parent(&n);
        }
        None
    }
    pub fn entries(&self) -> BTreeSet<RefEntry> {
        self.map.values().cloned().collect()
    }
}
