//! C20 — the zone store holds exactly the records added to it.
//!
//! Histories of `HashMapTreeZone::add` are enumerated exhaustively (every
//! sequence over the alphabet up to a depth, no merging) and, over smaller
//! sub-alphabets, searched to closure with the complete tree (read from the
//! derived Debug output) as visited-set key. After every add the result and
//! all observations are compared with `refmodel::RefStore`.

use std::collections::{BTreeMap, BTreeSet};
use std::sync::atomic::{AtomicU64, Ordering};

use quandary::class::Class;
use quandary::db::zone::{GluePolicy, IteratedRrset, LookupOptions, LookupResult, SingleRrset};
use quandary::db::{HashMapTreeZone, Zone};
use quandary::rr::{Ttl, Type};
use qvlib::qd::{qname, rdata, wn};
use qvlib::wire::{self, c, t, WName};
use qvlib::{catch, hex, json, panic_key, unhex, Ctx, Local, Value};

use crate::bfs;
use crate::dbg;
use crate::refmodel::{RefStore, Resolved, Rr};

// ------------------------------------------------------------------ alphabet

fn soa(mname: &str, serial: u32) -> Vec<u8> {
    let mut r = wire::wname(mname);
    r.extend_from_slice(&wire::wname("hm.z.y."));
    for v in [serial, 2, 3, 4, 5] {
        r.extend_from_slice(&v.to_be_bytes());
    }
    r
}

/// The add alphabet for a zone `z.y.` of class IN (also used, unchanged, for a
/// root-apex zone, where every owner is in the zone). Groups: apex RRsets
/// (SOA / NS with equal-by-case RDATA, TTL conflicts), owners at four depths
/// with case variants, a wildcard, fresh deep owners; then rejections: owners
/// beside / above / unrelated to the apex (one sharing the apex's labels as a
/// prefix), class mismatches at existing and at not-yet-existing owners.
fn alphabet() -> Vec<Rr> {
    let a1: &[u8] = &[192, 0, 2, 1];
    let a2: &[u8] = &[192, 0, 2, 2];
    let n1 = wire::wname("ns.z.y.");
    let n1u = wire::wname("NS.Z.y.");
    let n2 = wire::wname("ns2.z.y.");
    let x1: &[u8] = b"\x01x";
    let x1u: &[u8] = b"\x01X";
    let r = Rr::new;
    vec![
        // apex RRsets
        r("z.y.", t::SOA, c::IN, 1, &soa("ns.z.y.", 1)),
        r("Z.Y.", t::SOA, c::IN, 1, &soa("NS.z.Y.", 1)), // equal to the previous by case
        r("z.y.", t::SOA, c::IN, 1, &soa("ns.z.y.", 2)),
        r("z.y.", t::SOA, c::IN, 2, &soa("ns.z.y.", 1)), // TTL conflict once an SOA exists
        r("z.y.", t::NS, c::IN, 1, &n1),
        r("Z.y.", t::NS, c::IN, 1, &n1u),
        r("z.y.", t::NS, c::IN, 2, &n2),
        r("z.y.", t::A, c::IN, 1, a1),
        // one level down, with a case-variant owner
        r("a.z.y.", t::A, c::IN, 1, a1),
        r("a.z.y.", t::A, c::IN, 1, a2),
        r("a.z.y.", t::A, c::IN, 2, a1),
        r("A.z.y.", t::A, c::IN, 1, a1),
        r("A.Z.Y.", t::TXT, c::IN, 1, x1),
        r("a.z.y.", t::TXT, c::IN, 1, x1u), // TXT is compared octet-wise: a second RDATA
        r("a.z.y.", t::NS, c::IN, 1, &n1),
        r("a.z.y.", t::NS, c::IN, 1, &n1u),
        // deeper: empty non-terminals appear and get filled in later
        r("b.a.z.y.", t::A, c::IN, 1, a1),
        r("b.a.z.y.", t::A, c::IN, 2, a2),
        r("b.a.z.y.", t::TXT, c::IN, 2, x1),
        r("c.b.a.z.y.", t::A, c::IN, 1, a1),
        r("c.b.a.z.y.", t::NS, c::IN, 2, &n1),
        r("B.a.z.y.", t::A, c::IN, 1, a2),
        r("*.z.y.", t::A, c::IN, 1, a1),
        r("d.z.y.", t::A, c::IN, 1, a1),
        r("e.d.z.y.", t::TXT, c::IN, 1, x1),
        // owners outside the zone
        r("s.y.", t::A, c::IN, 1, a1),     // sibling of the apex
        r("y.", t::A, c::IN, 1, a1),       // parent of the apex
        r(".", t::NS, c::IN, 1, &n1),      // root
        r("q.", t::A, c::IN, 1, a1),       // unrelated
        r("z.y.x.", t::A, c::IN, 1, a1),   // the apex's labels, but not as a suffix
        r("az.y.", t::A, c::IN, 1, a1),    // label with the apex's first label as a suffix
        // class mismatches (at the apex, at a possibly existing node, at nodes that do not exist yet)
        r("z.y.", t::A, c::CH, 1, a1),
        r("a.z.y.", t::A, c::CH, 1, a1),
        r("c.b.a.z.y.", t::A, c::CH, 1, a1),
        r("e.d.z.y.", t::TXT, c::HS, 1, x1),
        r("f.z.y.", t::A, c::CH, 1, a1),
        // wrong class and outside at once
        r("s.y.", t::A, c::CH, 1, a1),
        // label-boundary confusers: outside the zone although their wire form
        // ends, octet for octet, with the apex's (01 'z' 01 'y' 00) — the
        // apex's labels sit inside one longer label
        r("x\\001z.y.", t::A, c::IN, 1, a1),       // sibling of the apex: label 'x' 01 'z'
        r("w.X\\001Z.y.", t::A, c::IN, 1, a1),     // below that sibling (would land at w.z.y.)
        r("x\\001z\\001y.", t::A, c::IN, 1, a1), // one label below the root
        // less common types at one owner: RDATA that differ in one fixed field
        // only (distinct records) and in the case of an embedded name only
        // (one record), so that the type-specific equality decides what the
        // store holds
        r("_s._t.z.y.", t::SRV, c::IN, 1, &srv(1, 2, 5060, "t.z.y.")),
        r("_s._t.z.y.", t::SRV, c::IN, 1, &srv(1, 2, 5061, "t.z.y.")), // port differs: a second record
        r("_s._t.z.y.", t::SRV, c::IN, 1, &srv(1, 2, 5060, "T.Z.y.")), // equal to the first by case
        r("_s._t.z.y.", t::SRV, c::IN, 1, &srv(1, 3, 5060, "t.z.y.")), // weight differs
        r("m.z.y.", t::MX, c::IN, 1, &mx(10, "t.z.y.")),
        r("m.z.y.", t::MX, c::IN, 1, &mx(11, "t.z.y.")), // preference differs
        r("m.z.y.", t::MX, c::IN, 1, &mx(10, "T.z.Y.")), // equal to the first by case
        r("m.z.y.", t::MINFO, c::IN, 1, &[wire::wname("r.z.y."), wire::wname("e.z.y.")].concat()),
        r("m.z.y.", t::MINFO, c::IN, 1, &[wire::wname("R.z.y."), wire::wname("e.Z.y.")].concat()), // equal by case
        r("m.z.y.", t::MINFO, c::IN, 1, &[wire::wname("r.z.y."), wire::wname("f.z.y.")].concat()),
        r("m.z.y.", t::HINFO, c::IN, 1, b"\x03cpu\x02os"),
        r("m.z.y.", t::HINFO, c::IN, 1, b"\x03CPU\x02os"), // HINFO compares octet-wise: a second record
        // empty RDATA (legal for NULL and for types the library does not know)
        // next to non-empty RDATA, in either order and twice
        r("n.z.y.", t::NULL, c::IN, 1, b""),
        r("n.z.y.", t::NULL, c::IN, 1, b"\x00"),
        r("n.z.y.", t::NULL, c::IN, 1, b"\x01\x02"),
        r("n.z.y.", 65280, c::IN, 1, b""),
        r("n.z.y.", 65280, c::IN, 1, b"\x00"),
        // one node with many RRset types (a busy apex has a dozen): typed
        // lookups must keep agreeing with iteration however long the list is
        r("v.z.y.", t::A, c::IN, 1, a1),
        r("v.z.y.", t::TXT, c::IN, 1, x1),
        r("v.z.y.", t::MX, c::IN, 1, &mx(1, "t.z.y.")),
        r("v.z.y.", t::HINFO, c::IN, 1, b"\x01c\x01o"),
        r("v.z.y.", t::NULL, c::IN, 1, b"\x07"),
        r("v.z.y.", 48, c::IN, 1, b"\x01"),
        r("v.z.y.", 99, c::IN, 1, b"\x02"),
        r("v.z.y.", 257, c::IN, 1, b"\x03"),
        r("v.z.y.", 65280, c::IN, 1, b"\x04"),
        r("v.z.y.", 65281, c::IN, 1, b"\x05"),
        r("v.z.y.", 65534, c::IN, 1, b"\x06"),
        r("v.z.y.", t::SRV, c::IN, 1, &srv(1, 1, 1, "t.z.y.")),
    ]
}

fn srv(prio: u16, weight: u16, port: u16, target: &str) -> Vec<u8> {
    let mut v = Vec::new();
    for x in [prio, weight, port] {
        v.extend_from_slice(&x.to_be_bytes());
    }
    v.extend_from_slice(&wire::wname(target));
    v
}

fn mx(pref: u16, host: &str) -> Vec<u8> {
    let mut v = pref.to_be_bytes().to_vec();
    v.extend_from_slice(&wire::wname(host));
    v
}

/// Sub-alphabets (indices into `alphabet()`) searched to closure.
fn sub_alphabets() -> Vec<(&'static str, Vec<usize>)> {
    vec![
        ("tree shape: owners at depths 0-3, wildcard, case variants, empty non-terminals, rejected adds at missing nodes", vec![7, 8, 11, 16, 19, 21, 22, 23, 24, 25, 26, 30, 32, 33, 34, 35, 38, 39]),
        ("RRsets: SOA/NS/A/TXT at the apex and one child, equal-by-case RDATA, TTL conflicts in either order", vec![0, 1, 2, 3, 4, 5, 6, 7, 8, 9, 10, 11, 12, 13, 14, 15, 31]),
        ("mixed: apex SOA/NS plus depth, TTL conflicts below empty non-terminals", vec![0, 2, 3, 4, 6, 8, 10, 16, 17, 18, 19, 20, 21, 24, 33, 36]),
        ("less common types: SRV / MX / MINFO / HINFO records that differ in one fixed field or in name case only", vec![40, 41, 42, 43, 44, 45, 46, 47, 48, 49, 50, 51]),
        ("one node with twelve RRset types, added in every order", vec![57, 58, 59, 60, 61, 62, 63, 64, 65, 66, 67, 68]),
        ("empty RDATA next to non-empty RDATA (NULL and an unknown type), every order, with repeats", vec![52, 53, 54, 55, 56, 8]),
    ]
}

const LOOKUP_TYPES: [u16; 14] = [t::A, t::NS, t::SOA, t::TXT, t::CNAME, t::SRV, t::MX, t::MINFO, t::HINFO, t::NULL, 65280, 48, 257, 65534];

/// Names looked up around every history, besides the model's nodes.
fn probe_names(alpha: &[Rr]) -> Vec<WName> {
    let mut set: BTreeSet<WName> = alpha.iter().map(|r| wire::lower(&r.owner)).collect();
    for extra in ["w.z.y.", "x.z.y.", "x.a.z.y.", "x.b.a.z.y.", "y.", "x.c.b.a.z.y.", "x.d.z.y.", "f.z.y.", "e.d.z.y.", "c.b.a.z.y.", "b.a.z.y."] {
        set.insert(wire::wname(extra));
    }
    set.into_iter().collect()
}

// -------------------------------------------------------------- observations

type ObsRrset = (u16, u32, Vec<Vec<u8>>);

fn canon_set<'a, I: Iterator<Item = &'a quandary::rr::Rdata>>(class: u16, typ: u16, it: I) -> Vec<Vec<u8>> {
    let mut v: Vec<Vec<u8>> = it.map(|r| wire::canon_rdata(class, typ, r.octets())).collect();
    v.sort();
    v
}

fn obs_iterated(class: u16, r: &IteratedRrset) -> ObsRrset {
    let typ = u16::from(r.rr_type);
    (typ, u32::from(r.ttl), canon_set(class, typ, r.rdatas.iter()))
}

fn obs_single(class: u16, typ: u16, r: &SingleRrset) -> (u32, Vec<Vec<u8>>) {
    (u32::from(r.ttl), canon_set(class, typ, r.rdatas.iter()))
}

fn model_set(set: &(u32, Vec<Vec<u8>>)) -> (u32, Vec<Vec<u8>>) {
    let mut v = set.1.clone();
    v.sort();
    (set.0, v)
}

fn nt(n: &[u8]) -> String {
    wire::name_text(n)
}

/// The tree nodes (lower-cased name text) of a zone, from its Debug output;
/// also the canonical text of the whole zone (the complete-state key).
fn debug_tree(zone: &HashMapTreeZone) -> Result<(Vec<String>, String), String> {
    let text = format!("{zone:?}");
    let dv = dbg::parse(&text)?;
    let apex = dv.field("apex").ok_or("no apex in Debug output")?;
    let mut nodes = Vec::new();
    dbg::walk_nodes(apex, None, &mut nodes)?;
    let mut names = Vec::new();
    for n in &nodes {
        // The label under which the parent holds the node must be the node's
        // own first label (case-insensitively): otherwise lookups by label
        // and iteration by node name would disagree.
        if let Some(k) = n.key {
            let first = n.name.split('.').next().unwrap_or("");
            if !first.eq_ignore_ascii_case(k) {
                return Err(format!("tree node named {} is stored under label {k}", n.name));
            }
        }
        names.push(n.name.to_ascii_lowercase());
    }
    names.sort();
    Ok((names, dv.canon()))
}

/// All observations of the statement compared with the model.
fn check_state(zone: &HashMapTreeZone, model: &RefStore, probes: &[WName], with_debug: bool) -> Result<Option<String>, (String, String)> {
    let class = model.class;
    // iter_by_node: every node once, with exactly its de-duplicated RRsets.
    let mut seen: BTreeMap<WName, Vec<ObsRrset>> = BTreeMap::new();
    for (name, rrsets) in zone.iter_by_node() {
        let n = wire::lower(&wn(name));
        let sets: Vec<ObsRrset> = rrsets.map(|r| obs_iterated(class, &r)).collect();
        if seen.insert(n.clone(), sets).is_some() {
            return Err(("iter_by_node:node-twice".into(), format!("iter_by_node yields node {} twice", nt(&n))));
        }
    }
    for (n, node) in &model.nodes {
        let got = match seen.get(n) {
            Some(g) => g,
            None => return Err(("iter_by_node:node-missing".into(), format!("iter_by_node does not yield node {} ({})", nt(n), if node.is_empty() { "empty non-terminal or empty apex" } else { "owns records" }))),
        };
        let mut got_sorted = got.clone();
        got_sorted.sort();
        let want: Vec<ObsRrset> = node.iter().map(|(ty, set)| (*ty, set.0, model_set(set).1)).collect();
        if got_sorted != want {
            return Err(("iter_by_node:rrsets".into(), format!("iter_by_node at {}: got {:?}, reference {:?}", nt(n), show_sets(&got_sorted), show_sets(&want))));
        }
    }
    if let Some(extra) = seen.keys().find(|n| !model.nodes.contains_key(*n)) {
        return Err(("iter_by_node:extra-node".into(), format!("iter_by_node yields node {} which no successful add created", nt(extra))));
    }
    // iter_by_rrset: exactly the RRsets added.
    let mut flat: Vec<(WName, ObsRrset)> = zone.iter_by_rrset().map(|(n, r)| (wire::lower(&wn(n)), obs_iterated(class, &r))).collect();
    flat.sort();
    let mut want_flat: Vec<(WName, ObsRrset)> = Vec::new();
    for (n, node) in &model.nodes {
        for (ty, set) in node {
            want_flat.push((n.clone(), (*ty, set.0, model_set(set).1)));
        }
    }
    want_flat.sort();
    if flat != want_flat {
        return Err(("iter_by_rrset".into(), format!("iter_by_rrset yields {} RRsets {:?}, reference has {} {:?}", flat.len(), flat.iter().map(|(n, s)| format!("{} {}", nt(n), s.0)).collect::<Vec<_>>(), want_flat.len(), want_flat.iter().map(|(n, s)| format!("{} {}", nt(n), s.0)).collect::<Vec<_>>())));
    }
    // soa() / ns() agree with the apex RRsets.
    for (what, typ, got) in [("soa", t::SOA, zone.soa().map(|r| obs_single(class, t::SOA, &r))), ("ns", t::NS, zone.ns().map(|r| obs_single(class, t::NS, &r)))] {
        let want = model.rrset(&model.apex, typ).map(model_set);
        if got != want {
            return Err((what.into(), format!("{what}() = {:?} but the apex {} RRset of the reference is {:?}", got.map(|g| (g.0, g.1.iter().map(|r| hex(r)).collect::<Vec<_>>())), if typ == t::SOA { "SOA" } else { "NS" }, want.map(|g| (g.0, g.1.iter().map(|r| hex(r)).collect::<Vec<_>>())))));
        }
    }
    // Lookups: every node and every probe name, every type, cuts ignored.
    let opts = || LookupOptions { unchecked: false, search_below_cuts: true };
    let mut names: Vec<&WName> = model.nodes.keys().collect();
    for p in probes {
        if !model.nodes.contains_key(p) {
            names.push(p);
        }
    }
    for n in names {
        let qn = qname(n);
        let res = model.resolve(n, true);
        for typ in LOOKUP_TYPES {
            let got = zone.lookup(&qn, Type::from(typ), opts());
            let ok = match (&res, &got) {
                (Resolved::Outside, LookupResult::WrongZone) => true,
                (Resolved::NxDomain, LookupResult::NxDomain) => true,
                (Resolved::Node { node, synthesized }, _) => {
                    let src_ok = |s: &Option<std::borrow::Cow<quandary::name::Name>>| match (s, synthesized) {
                        (None, false) => true,
                        (Some(s), true) => wire::eq_ci(&wn(s), node),
                        _ => false,
                    };
                    match (model.rrset(node, typ), &got) {
                        (Some(set), LookupResult::Found(f)) => obs_single(class, typ, &f.data) == model_set(set) && src_ok(&f.source_of_synthesis),
                        (None, LookupResult::NoRecords(nr)) => !model.has(node, t::CNAME) && src_ok(&nr.source_of_synthesis),
                        (None, LookupResult::Cname(cn)) => model.rrset(node, t::CNAME).map(|set| obs_single(class, t::CNAME, &cn.rrset) == model_set(set)).unwrap_or(false) && src_ok(&cn.source_of_synthesis),
                        _ => false,
                    }
                }
                _ => false,
            };
            if !ok {
                return Err(("lookup".into(), format!("lookup({}, type {typ}, below cuts) = {} but the reference resolves the name to {:?} with RRset {:?}", nt(n), lookup_text(&got), res_text(&res), match &res { Resolved::Node { node, .. } => model.rrset(node, typ).map(|s| (s.0, s.1.len())), _ => None })));
            }
        }
    }
    // The tree as the derived Debug output shows it: same node set.
    if with_debug {
        let (names, canon) = debug_tree(zone).map_err(|e| ("debug-tree".to_string(), e))?;
        let mut want: Vec<String> = model.nodes.keys().map(|n| nt(n)).collect();
        want.sort();
        if names != want {
            return Err(("tree-nodes".into(), format!("the zone's tree (Debug output) has nodes {names:?}, the reference has {want:?}")));
        }
        return Ok(Some(canon));
    }
    Ok(None)
}

fn show_sets(v: &[ObsRrset]) -> Vec<String> {
    v.iter().map(|(ty, ttl, rd)| format!("type {ty} ttl {ttl} [{}]", rd.iter().map(|r| hex(r)).collect::<Vec<_>>().join(" "))).collect()
}

fn res_text(r: &Resolved) -> String {
    match r {
        Resolved::Outside => "outside the zone".into(),
        Resolved::NxDomain => "no such name".into(),
        Resolved::Cut(n) => format!("cut at {}", nt(n)),
        Resolved::Node { node, synthesized } => format!("node {}{}", nt(node), if *synthesized { " (wildcard synthesis)" } else { "" }),
    }
}

fn lookup_text(r: &LookupResult) -> String {
    match r {
        LookupResult::Found(f) => format!("Found(ttl {}, {} rdata, synthesis {:?})", u32::from(f.data.ttl), f.data.rdatas.iter().count(), f.source_of_synthesis.as_ref().map(|s| s.to_string())),
        LookupResult::Cname(_) => "Cname".into(),
        LookupResult::Referral(r) => format!("Referral({})", r.child_zone),
        LookupResult::NoRecords(n) => format!("NoRecords(synthesis {:?})", n.source_of_synthesis.as_ref().map(|s| s.to_string())),
        LookupResult::NxDomain => "NxDomain".into(),
        LookupResult::WrongZone => "WrongZone".into(),
    }
}

/// Everything lookups can tell about the zone, in both cut modes, octet
/// exact (no canonicalisation): compared before/after a rejected add.
fn fingerprint(zone: &HashMapTreeZone, probes: &[(WName, Box<quandary::name::Name>)]) -> Vec<u8> {
    let mut out = Vec::with_capacity(2048);
    let push_set = |out: &mut Vec<u8>, r: &SingleRrset| {
        out.extend_from_slice(&u32::from(r.ttl).to_be_bytes());
        for rd in r.rdatas.iter() {
            out.extend_from_slice(&(rd.octets().len() as u16).to_be_bytes());
            out.extend_from_slice(rd.octets());
        }
        out.push(0xfe);
    };
    for (_, qn) in probes {
        for below in [false, true] {
            for typ in LOOKUP_TYPES {
                match zone.lookup(qn, Type::from(typ), LookupOptions { unchecked: false, search_below_cuts: below }) {
                    LookupResult::Found(f) => {
                        out.push(1);
                        push_set(&mut out, &f.data);
                        if let Some(s) = &f.source_of_synthesis {
                            out.extend_from_slice(s.wire_repr());
                        }
                    }
                    LookupResult::Cname(cn) => {
                        out.push(2);
                        push_set(&mut out, &cn.rrset);
                    }
                    LookupResult::Referral(r) => {
                        out.push(3);
                        out.extend_from_slice(r.child_zone.wire_repr());
                        push_set(&mut out, &r.ns_rrset);
                    }
                    LookupResult::NoRecords(nr) => {
                        out.push(4);
                        if let Some(s) = &nr.source_of_synthesis {
                            out.extend_from_slice(s.wire_repr());
                        }
                    }
                    LookupResult::NxDomain => out.push(5),
                    LookupResult::WrongZone => out.push(6),
                }
                out.push(0xff);
            }
        }
    }
    out
}

/// The add alphabet for a zone `z.y.` of class CH: RDATA equality depends on
/// the class as well as on the type (an A record is a name plus a 16-bit
/// address in CH and four opaque octets elsewhere; SRV has an embedded name
/// in IN only), so the de-duplication a zone performs must follow the zone's
/// own class. Pairs that differ in the case of an embedded name only are one
/// record where the class gives the type a name field and two where it does
/// not; plus class mismatches against a CH zone (IN and HS records).
fn alphabet_ch() -> Vec<Rr> {
    let cha = |name: &str, addr: u16| -> Vec<u8> {
        let mut v = wire::wname(name);
        v.extend_from_slice(&addr.to_be_bytes());
        v
    };
    let n1 = wire::wname("ns.z.y.");
    let n1u = wire::wname("NS.Z.y.");
    let r = Rr::new;
    vec![
        r("z.y.", t::SOA, c::CH, 1, &soa("ns.z.y.", 1)),
        r("Z.Y.", t::SOA, c::CH, 1, &soa("NS.z.Y.", 1)), // equal by case
        r("z.y.", t::NS, c::CH, 1, &n1),
        r("Z.y.", t::NS, c::CH, 1, &n1u), // equal by case
        // CH A: name + address; the name compares case-insensitively
        r("a.z.y.", t::A, c::CH, 1, &cha("net.", 1)),
        r("a.z.y.", t::A, c::CH, 1, &cha("NET.", 1)), // equal to the previous by case
        r("A.z.y.", t::A, c::CH, 1, &cha("net.", 2)), // address differs: a second record
        r("a.z.y.", t::A, c::CH, 2, &cha("net.", 1)), // TTL conflict once the RRset exists
        r("z.y.", t::A, c::CH, 1, &cha("Net.", 1)),
        r("z.y.", t::A, c::CH, 1, &cha("nEt.", 1)), // equal by case, at the apex
        // SRV outside IN is opaque: case variants of the target are distinct
        r("_s._t.z.y.", t::SRV, c::CH, 1, &srv(1, 2, 5060, "t.z.y.")),
        r("_s._t.z.y.", t::SRV, c::CH, 1, &srv(1, 2, 5060, "T.Z.y.")), // a second record in CH
        r("_s._t.z.y.", t::SRV, c::CH, 1, &srv(1, 2, 5060, "t.z.y.")), // exact duplicate of the first
        // MX has a name field in every class
        r("m.z.y.", t::MX, c::CH, 1, &mx(10, "t.z.y.")),
        r("m.z.y.", t::MX, c::CH, 1, &mx(10, "T.z.Y.")), // equal by case
        r("m.z.y.", t::TXT, c::CH, 1, b"\x01x"),
        r("m.z.y.", t::TXT, c::CH, 1, b"\x01X"), // octet-wise: a second record
        // class mismatches against a CH zone
        r("a.z.y.", t::A, c::IN, 1, &[192, 0, 2, 1]),
        r("z.y.", t::NS, c::IN, 1, &n1),
        r("f.z.y.", t::TXT, c::HS, 1, b"\x01x"),
        // outside the zone
        r("s.y.", t::A, c::CH, 1, &cha("net.", 1)),
    ]
}

// ---------------------------------------------------------------------- step

pub struct Env {
    apex: WName,
    class: u16,
    alpha: Vec<Rr>,
    probes: Vec<WName>,
    fp_probes: Vec<(WName, Box<quandary::name::Name>)>,
}

impl Env {
    fn new(apex: &str, alpha: Vec<Rr>) -> Env {
        let probes = probe_names(&alpha);
        let fp_probes = probes.iter().map(|p| (p.clone(), qname(p))).collect();
        Env { apex: wire::wname(apex), class: c::IN, alpha, probes, fp_probes }
    }
    fn with_class(mut self, class: u16) -> Env {
        self.class = class;
        self
    }
    fn new_zone(&self) -> HashMapTreeZone {
        HashMapTreeZone::new(qname(&self.apex), Class::from(self.class), GluePolicy::Narrow)
    }
}

struct StepOut {
    class: String,
    canon: Option<String>,
}

fn err_name(e: &quandary::db::Error) -> &'static str {
    match e {
        quandary::db::Error::NotInZone => "NotInZone",
        quandary::db::Error::ClassMismatch => "ClassMismatch",
        quandary::db::Error::TtlMismatch => "TtlMismatch",
        quandary::db::Error::InvalidRdata => "InvalidRdata",
    }
}

/// Applies one add to the real zone and to the model and checks everything.
/// `fp_before` is the lookup fingerprint of the zone before the add.
fn step(env: &Env, zone: &mut HashMapTreeZone, model: &mut RefStore, rr: &Rr, fp_before: &[u8], with_debug: bool) -> Result<StepOut, (String, String)> {
    let nodes_before = model.nodes.len();
    let had_set = model.has(&rr.owner, rr.typ);
    let want = model.add(rr);
    let r = catch(|| {
        let got = zone.add(&qname(&rr.owner), Type::from(rr.typ), Class::from(rr.class), Ttl::from(rr.ttl), rdata(&rr.rdata));
        let class = match (&want, &got) {
            (Ok(changed), Ok(())) => {
                if !had_set {
                    format!("Ok:new-rrset:+{}nodes", model.nodes.len() - nodes_before)
                } else if *changed {
                    "Ok:rdata-added-to-rrset".to_string()
                } else {
                    "Ok:duplicate-rdata-ignored".to_string()
                }
            }
            (Err(why), Err(e)) => {
                if !why.contains(&err_name(e)) {
                    return Err(("add:error-kind".to_string(), format!("add was rejected with {} but the conditions that fail are {why:?}", err_name(e))));
                }
                format!("Err({}) of {}", err_name(e), why.join("+"))
            }
            (Ok(_), Err(e)) => return Err(("add:rejected".to_string(), format!("add failed with {} although the owner is in the zone, the class matches and the TTL agrees with its RRset", err_name(e)))),
            (Err(why), Ok(())) => return Err(("add:accepted".to_string(), format!("add succeeded although it must be rejected ({})", why.join("+")))),
        };
        if want.is_err() {
            let fp_after = fingerprint(zone, &env.fp_probes);
            if fp_after != fp_before {
                return Err(("rejected-add-changed-lookups".to_string(), format!("a rejected add ({}) changed the result of a lookup", want.as_ref().err().unwrap().join("+"))));
            }
        }
        let canon = check_state(zone, model, &env.probes, with_debug)?;
        Ok(StepOut { class, canon })
    });
    match r {
        Ok(x) => x,
        Err(p) => Err((panic_key(&p), p)),
    }
}

/// Replay / confirmation path: the whole history on a fresh zone.
pub fn run_history(env: &Env, ops: &[Rr]) -> Option<(String, Value)> {
    let mut zone = env.new_zone();
    let mut model = RefStore::new(&env.apex, env.class);
    if let Err((k, w)) = check_state(&zone, &model, &env.probes, true) {
        return Some((k, json!({"failed_at_step": "initial (empty zone)", "what": w})));
    }
    for (i, rr) in ops.iter().enumerate() {
        let fp = fingerprint(&zone, &env.fp_probes);
        if let Err((k, w)) = step(env, &mut zone, &mut model, rr, &fp, true) {
            return Some((k, json!({"failed_at_step": i, "add": rr.to_json(), "what": w})));
        }
    }
    None
}

fn case_json(env: &Env, ops: &[Rr], detail: Value) -> Value {
    json!({"apex": nt(&env.apex), "apex_wire": hex(&env.apex), "class": env.class, "adds": ops.iter().map(|r| r.to_json()).collect::<Vec<_>>(), "observed": detail})
}

fn report(l: &mut Local, env: &Env, ops: &[Rr], key: &str, what: &str) {
    match run_history(env, ops) {
        Some((k, d)) => l.violation(&k, case_json(env, ops, d)),
        None => l.violation(&format!("search-only:{key}"), case_json(env, ops, json!({"what": what, "note": "seen on the cloned zone during the search, not reproduced by re-running the history on a fresh zone"}))),
    }
}

// ------------------------------------------------------- plain enumeration

struct Dfs<'a> {
    env: &'a Env,
    depth: usize,
    hist: Vec<usize>,
    states: u64,
}

impl Dfs<'_> {
    fn go(&mut self, l: &mut Local, zone: &HashMapTreeZone, model: &RefStore) {
        if self.hist.len() >= self.depth {
            return;
        }
        let fp = fingerprint(zone, &self.env.fp_probes);
        // The Debug cross-check of the tree is made on every state of the
        // last level and on every 8th state above it (it dominates the cost).
        for op in 0..self.env.alpha.len() {
            let mut z = zone.clone();
            let mut m = model.clone();
            self.hist.push(op);
            l.tick();
            self.states += 1;
            let with_debug = self.hist.len() == self.depth || self.states % 8 == 0;
            match step(self.env, &mut z, &mut m, &self.env.alpha[op], &fp, with_debug) {
                Ok(out) => {
                    l.outcome(&out.class, || json!({"apex": nt(&self.env.apex), "adds": self.hist.iter().map(|i| self.env.alpha[*i].to_json()).collect::<Vec<_>>()}));
                    self.go(l, &z, &m);
                }
                Err((k, w)) => {
                    let ops: Vec<Rr> = self.hist.iter().map(|i| self.env.alpha[*i].clone()).collect();
                    report(l, self.env, &ops, &k, &w);
                }
            }
            self.hist.pop();
        }
    }
}

/// Every sequence of length <= depth over env.alpha (sharded on the first two
/// adds). Returns the number of histories executed.
fn enumerate(ctx: &Ctx, env: &Env, depth: usize) -> u64 {
    let n = env.alpha.len();
    let total = AtomicU64::new(0);
    // Level 1 and 2 are run inside the shards' prefixes: shard (i, j) checks
    // the prefix [i] only when j == 0.
    let shards: Vec<(usize, usize)> = (0..n).flat_map(|i| (0..n).map(move |j| (i, j))).collect();
    ctx.par_for_each(&shards, |l, (i, j)| {
        let mut zone = env.new_zone();
        let mut model = RefStore::new(&env.apex, env.class);
        let mut hist = Vec::new();
        let mut count = 0u64;
        for (lvl, op) in [*i, *j].iter().enumerate() {
            if lvl >= depth {
                break;
            }
            let fp = fingerprint(&zone, &env.fp_probes);
            hist.push(*op);
            let counted = lvl == 1 || *j == 0;
            if counted {
                l.tick();
                count += 1;
            }
            match step(env, &mut zone, &mut model, &env.alpha[*op], &fp, true) {
                Ok(out) => {
                    if counted {
                        l.outcome(&out.class, || json!({"apex": nt(&env.apex), "adds": hist.iter().map(|i| env.alpha[*i].to_json()).collect::<Vec<_>>()}));
                    }
                }
                Err((k, w)) => {
                    if counted {
                        let ops: Vec<Rr> = hist.iter().map(|i| env.alpha[*i].clone()).collect();
                        report(l, env, &ops, &k, &w);
                    }
                    total.fetch_add(count, Ordering::Relaxed);
                    return;
                }
            }
        }
        if depth > 2 {
            let mut d = Dfs { env, depth, hist, states: 0 };
            d.go(l, &zone, &model);
            count += d.states;
        }
        total.fetch_add(count, Ordering::Relaxed);
    });
    total.load(Ordering::Relaxed)
}

// --------------------------------------------------------- closure search

struct State {
    zone: HashMapTreeZone,
    model: RefStore,
}

fn closure(ctx: &Ctx, env: &Env, ops: &[usize]) -> bfs::Stats {
    let zone = env.new_zone();
    let (_, key) = debug_tree(&zone).expect("Debug output of an empty zone");
    let init = State { model: RefStore::new(&env.apex, env.class), zone };
    bfs::run(ctx, init, key, ops.len(), None, |l, st: &State, opi, hist| {
        l.tick();
        let rr = &env.alpha[ops[opi]];
        let fp = fingerprint(&st.zone, &env.fp_probes);
        let mut zone = st.zone.clone();
        let mut model = st.model.clone();
        match step(env, &mut zone, &mut model, rr, &fp, true) {
            Ok(out) => {
                l.outcome(&out.class, || json!({"apex": nt(&env.apex), "adds": hist().iter().map(|i| env.alpha[ops[*i]].to_json()).collect::<Vec<_>>()}));
                Some((out.canon.expect("canonical state"), State { zone, model }))
            }
            Err((k, w)) => {
                let h: Vec<Rr> = hist().iter().map(|i| env.alpha[ops[*i]].clone()).collect();
                report(l, env, &h, &k, &w);
                None
            }
        }
    })
}

// ---------------------------------------------------------------------- main

fn replay(ctx: Ctx, case: &Value) -> ! {
    let apex = unhex(case.get("apex_wire").and_then(|a| a.as_str()).unwrap_or("00"));
    let ops: Vec<Rr> = case.get("adds").and_then(|o| o.as_array()).map(|a| a.iter().filter_map(Rr::from_json).collect()).unwrap_or_default();
    let mut env = Env::new(&nt(&apex), ops.clone());
    env.class = case.get("class").and_then(|c| c.as_u64()).unwrap_or(1) as u16;
    // Probe the standard names as well as the owners of the case.
    let mut all = alphabet();
    all.extend(ops.iter().cloned());
    env.probes = probe_names(&all);
    env.fp_probes = env.probes.iter().map(|p| (p.clone(), qname(p))).collect();
    println!("replaying {} adds on zone {}", ops.len(), nt(&apex));
    match run_history(&env, &ops) {
        Some((key, detail)) => {
            println!("reproduced: {key}: {detail}");
            let mut c = case.clone();
            c["observed"] = detail;
            ctx.violation(&key, c);
        }
        None => println!("not reproduced: the case passes"),
    }
    ctx.finish("model_checking", "replay of one recorded case", false)
}

pub fn main(ctx: Ctx) -> ! {
    if let Some(case) = ctx.replay_case().cloned() {
        replay(ctx, &case);
    }
    let env = Env::new("z.y.", alphabet());
    let env_root = Env::new(".", alphabet());
    // A 22-add core of the alphabet (one or two adds of every group) for one
    // more level of plain enumeration.
    let core: Vec<Rr> = [0usize, 1, 2, 3, 4, 6, 7, 8, 9, 10, 11, 13, 16, 17, 19, 21, 22, 24, 25, 31, 33, 34].iter().map(|i| alphabet()[*i].clone()).collect();
    let env_core = Env::new("z.y.", core);
    let mut runs: Vec<(&Env, usize)> = vec![(&env, ctx.pick(3, 4)), (&env_root, ctx.pick(3, 4))];
    runs.push((&env_core, ctx.pick(4, 5)));
    // A zone of class CH: de-duplication must follow the zone's class.
    let env_ch = Env::new("z.y.", alphabet_ch()).with_class(c::CH);
    runs.push((&env_ch, ctx.pick(4, 5)));
    let mut parts = Vec::new();
    let mut traces = 0u64;
    let mut states = 0u64;
    let mut transitions = 0u64;
    for (e, d) in runs {
        let t0 = ctx.elapsed_s();
        let n = enumerate(&ctx, e, d);
        eprintln!("[C20] apex {}: {} histories of length <= {} over {} adds ({:.1}s)", nt(&e.apex), n, d, e.alpha.len(), ctx.elapsed_s() - t0);
        parts.push(json!({"family": "all add sequences, no merging", "apex": nt(&e.apex), "class": e.class, "alphabet": e.alpha.len(), "max_length": d, "histories_executed": n, "wall_s": ((ctx.elapsed_s() - t0) * 100.0).round() / 100.0}));
        traces += n;
        states += n;
        transitions += n;
    }
    let mut complete = true;
    for (label, ops) in sub_alphabets() {
        let t0 = ctx.elapsed_s();
        let st = closure(&ctx, &env, &ops);
        eprintln!("[C20] closure over {} adds ({label}): {} states, {} transitions, depth {} ({:.1}s)", ops.len(), st.states, st.transitions, st.levels.len() - 1, ctx.elapsed_s() - t0);
        parts.push(json!({"family": "explicit-state closure, visited key = complete tree from Debug", "apex": "z.y.", "sub_alphabet": label, "adds": ops.iter().map(|i| env.alpha[*i].to_json()).collect::<Vec<_>>(), "states": st.states, "transitions": st.transitions, "states_first_reached_per_depth": st.levels, "closure_reached": st.complete, "wall_s": ((ctx.elapsed_s() - t0) * 100.0).round() / 100.0}));
        states += st.states;
        transitions += st.transitions;
        traces += st.transitions;
        complete &= st.complete;
    }
    // The class-CH zone as an explicit-state closure over its whole alphabet:
    // every reachable store of the CH zone, every add out of it.
    {
        let ops: Vec<usize> = (0..env_ch.alpha.len()).collect();
        let t0 = ctx.elapsed_s();
        let st = closure(&ctx, &env_ch, &ops);
        eprintln!("[C20] closure over {} adds (class CH zone, whole alphabet): {} states, {} transitions, depth {} ({:.1}s)", ops.len(), st.states, st.transitions, st.levels.len() - 1, ctx.elapsed_s() - t0);
        parts.push(json!({"family": "explicit-state closure, visited key = complete tree from Debug", "apex": "z.y.", "class": env_ch.class, "sub_alphabet": "class CH zone, whole alphabet", "adds": ops.iter().map(|i| env_ch.alpha[*i].to_json()).collect::<Vec<_>>(), "states": st.states, "transitions": st.transitions, "states_first_reached_per_depth": st.levels, "closure_reached": st.complete, "wall_s": ((ctx.elapsed_s() - t0) * 100.0).round() / 100.0}));
        states += st.states;
        transitions += st.transitions;
        traces += st.transitions;
        complete &= st.complete;
    }
    ctx.set_extra("states", json!(states));
    ctx.set_extra("transitions", json!(transitions));
    ctx.set_extra("traces_validated_against_impl", json!(traces));
    ctx.set_extra("families", Value::Array(parts));
    ctx.set_extra("alphabet", Value::Array(env.alpha.iter().map(|r| r.to_json()).collect()));
    ctx.set_extra(
        "oracle_decisions",
        json!([
            "when several rejection conditions hold at once (owner outside the zone and class mismatch) the statement does not say which error is reported: any error naming a condition that fails is accepted",
            "node names and owners are compared case-insensitively; RDATA sets are compared as sets of equality classes (names inside NS/SOA RDATA case-insensitive, everything else octet-wise), so neither the kept spelling nor the order is prescribed",
            "the node set must be exactly the apex, the owners of successful adds and the names between them (empty non-terminals); an extra node would turn NXDOMAIN into an empty answer, which the lookup comparison would flag as well",
            "after a rejected add only lookups are required to be unchanged (add is documented as not atomic); the check compares every lookup of every probe name, type and cut mode octet for octet, and additionally holds iteration to the reference, which a rejected add does not change",
        ]),
    );
    ctx.assume("the derived Debug output of HashMapTreeZone shows the whole tree (used for the node cross-check and as visited-set key)");
    ctx.assume("qvlib::wire::canon_rdata defines the RDATA equality classes (independent of quandary's Rdata::equals)");
    ctx.finish(
        "model_checking",
        "every sequence of adds over the alphabet up to max_length on two zones (no merging), plus closure of three sub-alphabets under a visited set keyed by the complete tree; after every add: result vs the statement's success condition, iter_by_node / iter_by_rrset / soa / ns / lookups of every node and probe name vs a reference map, tree nodes vs Debug output, lookups unchanged after a rejected add. evaluations = adds executed and fully checked",
        complete,
    )
}
