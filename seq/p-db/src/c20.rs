use qvlib::Ctx;
pub fn main(_ctx: Ctx) -> ! { std::process::exit(2) }
