//! Level-synchronous parallel explicit-state search with a visited set.
//!
//! A state is expanded by applying every operation `0..n_ops` to it; `step`
//! runs the real code on a clone, checks the oracle, and returns the
//! successor together with its *complete-state key*. A successor is kept only
//! if its key was never seen. The search ends when the frontier is empty
//! (complete closure: every reachable state and every transition out of it
//! was executed) or at `max_depth`.

use std::collections::hash_map::DefaultHasher;
use std::collections::HashSet;
use std::hash::{Hash, Hasher};
use std::sync::Mutex;

use qvlib::{Ctx, Local};

pub struct Stats {
    pub states: u64,
    pub transitions: u64,
    /// States first reached at depth i.
    pub levels: Vec<u64>,
    /// true if the frontier ran empty (closure reached).
    pub complete: bool,
}

const SHARDS: usize = 64;

fn shard_of(k: &str) -> usize {
    // Fixed-key hasher: deterministic across runs.
    let mut h = DefaultHasher::new();
    k.hash(&mut h);
    (h.finish() as usize) % SHARDS
}

/// History (operation indices from the initial state) of state `id`.
fn history(parents: &[(u32, u16)], mut id: u32) -> Vec<usize> {
    let mut ops = Vec::new();
    while id != 0 {
        let (p, op) = parents[id as usize];
        ops.push(op as usize);
        id = p;
    }
    ops.reverse();
    ops
}

pub fn run<S, F>(ctx: &Ctx, init: S, init_key: String, n_ops: usize, max_depth: Option<usize>, step: F) -> Stats
where
    S: Send + Sync,
    F: Fn(&mut Local<'_>, &S, usize, &dyn Fn() -> Vec<usize>) -> Option<(String, S)> + Sync,
{
    let visited: Vec<Mutex<HashSet<String>>> = (0..SHARDS).map(|_| Mutex::new(HashSet::new())).collect();
    visited[shard_of(&init_key)].lock().unwrap().insert(init_key);
    let mut parents: Vec<(u32, u16)> = vec![(u32::MAX, 0)];
    // Each state sits in a Mutex<Option<..>> so that the worker that expands
    // it can also drop it (its memory then stays with the workers' arenas).
    let mut frontier: Vec<Mutex<Option<(u32, S)>>> = vec![Mutex::new(Some((0, init)))];
    let mut stats = Stats { states: 1, transitions: 0, levels: vec![1], complete: false };
    let mut depth = 0usize;
    while !frontier.is_empty() {
        if let Some(m) = max_depth {
            if depth >= m {
                return stats;
            }
        }
        let fresh: Mutex<Vec<(u32, u16, S)>> = Mutex::new(Vec::new());
        {
            let parents_ref = &parents;
            let visited_ref = &visited;
            let fresh_ref = &fresh;
            let step_ref = &step;
            ctx.par_for_each(&frontier, |l, slot| {
                let owned = slot.lock().unwrap().take().expect("state expanded twice");
                let (id, st) = (&owned.0, &owned.1);
                let mut mine: Vec<(u32, u16, S)> = Vec::new();
                for op in 0..n_ops {
                    let hist = || {
                        let mut h = history(parents_ref, *id);
                        h.push(op);
                        h
                    };
                    if let Some((key, succ)) = step_ref(l, st, op, &hist) {
                        let is_new = visited_ref[shard_of(&key)].lock().unwrap().insert(key);
                        if is_new {
                            mine.push((*id, op as u16, succ));
                        }
                    }
                }
                if !mine.is_empty() {
                    fresh_ref.lock().unwrap().append(&mut mine);
                }
            });
        }
        stats.transitions += frontier.len() as u64 * n_ops as u64;
        let fresh = fresh.into_inner().unwrap();
        frontier = Vec::with_capacity(fresh.len());
        for (p, op, s) in fresh {
            let id = parents.len() as u32;
            parents.push((p, op));
            frontier.push(Mutex::new(Some((id, s))));
        }
        depth += 1;
        if !frontier.is_empty() {
            stats.levels.push(frontier.len() as u64);
            stats.states += frontier.len() as u64;
        }
    }
    stats.complete = true;
    stats
}
