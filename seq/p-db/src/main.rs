fn main() { eprintln!("not implemented"); std::process::exit(2); }
