//! p-db: checks for the zone store (C20), zone validation (C21) and the
//! catalog (C22). One binary, dispatching on the property id.

mod alloc;
mod bfs;
mod c20;
mod c21;
mod c22;
mod dbg;
mod refmodel;

use qvlib::Ctx;

#[global_allocator]
static POOL: alloc::Pool = alloc::Pool;

fn main() {
    let ctx = Ctx::from_args(&["C20", "C21", "C22"]);
    match ctx.id.as_str() {
        "C20" => c20::main(ctx),
        "C21" => c21::main(ctx),
        "C22" => c22::main(ctx),
        _ => unreachable!(),
    }
}
