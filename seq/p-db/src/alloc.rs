//! Harness-side global allocator (nothing to do with the code under test).
//!
//! The searches keep hundreds of thousands of cloned catalogs / zones alive
//! while 16 workers allocate and free small blocks at a high rate. With glibc
//! malloc every worker arena grows one page at a time through `mprotect`,
//! which takes the process-wide mmap lock: measured 34 000 calls at ~2 ms each
//! for a 135 MB state set, i.e. the 16 workers ran at the speed of 3.
//!
//! This allocator serves blocks up to 2 KiB from per-thread size-class free
//! lists, refilled by bumping through 1 MiB chunks obtained from the system
//! allocator; larger blocks go straight to the system allocator. No locks: a
//! freed block goes onto the free list of whichever thread frees it. Chunks
//! are never returned (memory of a worker's free lists is abandoned when the
//! worker exits; bounded by the total volume of states, a few GB at most).

use std::alloc::{GlobalAlloc, Layout, System};
use std::cell::UnsafeCell;
use std::ptr;

const CLASS_SIZES: [usize; 20] = [16, 32, 48, 64, 80, 96, 112, 128, 160, 192, 224, 256, 320, 384, 448, 512, 768, 1024, 1536, 2048];
const MAX_SMALL: usize = 2048;
const CHUNK: usize = 1 << 20;

/// size (1..=2048) -> class index, by 16-octet granule.
static CLASS_OF_GRANULE: [u8; 129] = {
    let mut t = [0u8; 129];
    let mut g = 0;
    while g <= 128 {
        let size = g * 16;
        let mut c = 0;
        while CLASS_SIZES[c] < size {
            c += 1;
        }
        t[g] = c as u8;
        g += 1;
    }
    t
};

struct Tl {
    free: [*mut u8; 20],
    bump: *mut u8,
    end: *mut u8,
}

thread_local! {
    static TL: UnsafeCell<Tl> = const { UnsafeCell::new(Tl { free: [ptr::null_mut(); 20], bump: ptr::null_mut(), end: ptr::null_mut() }) };
}

pub struct Pool;

#[inline]
fn class_of(size: usize) -> usize {
    CLASS_OF_GRANULE[(size + 15) >> 4] as usize
}

unsafe impl GlobalAlloc for Pool {
    #[inline]
    unsafe fn alloc(&self, layout: Layout) -> *mut u8 {
        if layout.size() > MAX_SMALL || layout.align() > 16 || layout.size() == 0 {
            return System.alloc(layout);
        }
        let c = class_of(layout.size());
        let r = TL.try_with(|tl| {
            let tl = &mut *tl.get();
            let head = tl.free[c];
            if !head.is_null() {
                // The first word of a free block links to the next one.
                tl.free[c] = *(head as *mut *mut u8);
                return head;
            }
            let sz = CLASS_SIZES[c];
            if (tl.end as usize) - (tl.bump as usize) < sz || tl.bump.is_null() {
                let chunk = System.alloc(Layout::from_size_align_unchecked(CHUNK, 4096));
                if chunk.is_null() {
                    return ptr::null_mut();
                }
                tl.bump = chunk;
                tl.end = chunk.add(CHUNK);
            }
            let p = tl.bump;
            tl.bump = p.add(sz);
            p
        });
        match r {
            Ok(p) => p,
            // Thread-local storage already torn down: fall back to a block of
            // the class size from the system (dealloc may later put it on a
            // free list, so it must be at least that large).
            Err(_) => System.alloc(Layout::from_size_align_unchecked(CLASS_SIZES[c], 16)),
        }
    }

    #[inline]
    unsafe fn dealloc(&self, p: *mut u8, layout: Layout) {
        if layout.size() > MAX_SMALL || layout.align() > 16 || layout.size() == 0 {
            return System.dealloc(p, layout);
        }
        let c = class_of(layout.size());
        // If TLS is gone the block is simply abandoned.
        let _ = TL.try_with(|tl| {
            let tl = &mut *tl.get();
            *(p as *mut *mut u8) = tl.free[c];
            tl.free[c] = p;
        });
    }
}
