//! Harness-side global allocator (nothing to do with the code under test).
//!
//! The searches keep hundreds of thousands of cloned catalogs / zones alive
//! while 16 workers allocate and free small blocks at a high rate. With glibc
//! malloc every worker arena grows one page at a time through `mprotect`,
//! which takes the process-wide mmap lock: measured 34 000 calls at ~2 ms each
//! for a 135 MB state set, i.e. the 16 workers ran at the speed of 3.
//!
//! This allocator serves blocks up to 2 KiB from per-thread size-class free
//! lists, refilled by bumping through 1 MiB chunks obtained from the system
//! allocator; larger blocks go straight to the system allocator. No locks: a
//! freed block goes onto the free list of whichever thread frees it. A
//! thread's arena (free lists + bump chunk) is parked when the thread exits and
//! handed to the next thread that needs one. Chunks are never returned.

use std::alloc::{GlobalAlloc, Layout, System};
use std::cell::Cell;
use std::ptr;
use std::sync::atomic::{AtomicBool, Ordering};

const CLASS_SIZES: [usize; 20] = [16, 32, 48, 64, 80, 96, 112, 128, 160, 192, 224, 256, 320, 384, 448, 512, 768, 1024, 1536, 2048];
const MAX_SMALL: usize = 2048;
const CHUNK: usize = 1 << 20;

/// size (1..=2048) -> class index, by 16-octet granule.
static CLASS_OF_GRANULE: [u8; 129] = {
    let mut t = [0u8; 129];
    let mut g = 0;
    while g <= 128 {
        let size = g * 16;
        let mut c = 0;
        while CLASS_SIZES[c] < size {
            c += 1;
        }
        t[g] = c as u8;
        g += 1;
    }
    t
};

struct Arena {
    free: [*mut u8; 20],
    bump: *mut u8,
    end: *mut u8,
}

// Arenas not owned by a live thread. A thread checks one out at its first
// small allocation and returns it when it exits, so blocks freed by the
// workers of one search level are reused by the workers of the next.
static PARKED_LOCK: AtomicBool = AtomicBool::new(false);
static mut PARKED: [*mut Arena; 1024] = [ptr::null_mut(); 1024];
static mut PARKED_LEN: usize = 0;

fn lock() {
    while PARKED_LOCK.compare_exchange_weak(false, true, Ordering::Acquire, Ordering::Relaxed).is_err() {
        std::hint::spin_loop();
    }
}

fn unlock() {
    PARKED_LOCK.store(false, Ordering::Release);
}

unsafe fn checkout() -> *mut Arena {
    lock();
    let len = ptr::addr_of!(PARKED_LEN).read();
    let a = if len > 0 {
        ptr::addr_of_mut!(PARKED_LEN).write(len - 1);
        (ptr::addr_of!(PARKED) as *const *mut Arena).add(len - 1).read()
    } else {
        ptr::null_mut()
    };
    unlock();
    if !a.is_null() {
        return a;
    }
    let a = System.alloc(Layout::new::<Arena>()) as *mut Arena;
    if !a.is_null() {
        a.write(Arena { free: [ptr::null_mut(); 20], bump: ptr::null_mut(), end: ptr::null_mut() });
    }
    a
}

struct Holder(Cell<*mut Arena>);

impl Drop for Holder {
    fn drop(&mut self) {
        let a = self.0.replace(ptr::null_mut());
        if a.is_null() {
            return;
        }
        unsafe {
            lock();
            let len = ptr::addr_of!(PARKED_LEN).read();
            if len < 1024 {
                (ptr::addr_of_mut!(PARKED) as *mut *mut Arena).add(len).write(a);
                ptr::addr_of_mut!(PARKED_LEN).write(len + 1);
            }
            unlock();
        }
    }
}

thread_local! {
    static TL: Holder = const { Holder(Cell::new(ptr::null_mut())) };
}

pub struct Pool;

#[inline]
fn class_of(size: usize) -> usize {
    CLASS_OF_GRANULE[(size + 15) >> 4] as usize
}

/// The calling thread's arena (checked out on first use), or null if the
/// thread's TLS is already torn down or no memory is left.
#[inline]
unsafe fn arena() -> *mut Arena {
    TL.try_with(|h| {
        let mut a = h.0.get();
        if a.is_null() {
            a = checkout();
            h.0.set(a);
        }
        a
    })
    .unwrap_or(ptr::null_mut())
}

unsafe impl GlobalAlloc for Pool {
    #[inline]
    unsafe fn alloc(&self, layout: Layout) -> *mut u8 {
        if layout.size() > MAX_SMALL || layout.align() > 16 || layout.size() == 0 {
            return System.alloc(layout);
        }
        let c = class_of(layout.size());
        let a = arena();
        if a.is_null() {
            // No arena (thread exiting): a block of the class size from the
            // system; dealloc may later put it on a free list.
            return System.alloc(Layout::from_size_align_unchecked(CLASS_SIZES[c], 16));
        }
        let tl = &mut *a;
        let head = tl.free[c];
        if !head.is_null() {
            // The first word of a free block links to the next one.
            tl.free[c] = *(head as *mut *mut u8);
            return head;
        }
        let sz = CLASS_SIZES[c];
        if tl.bump.is_null() || (tl.end as usize) - (tl.bump as usize) < sz {
            let chunk = System.alloc(Layout::from_size_align_unchecked(CHUNK, 4096));
            if chunk.is_null() {
                return ptr::null_mut();
            }
            tl.bump = chunk;
            tl.end = chunk.add(CHUNK);
        }
        let p = tl.bump;
        tl.bump = p.add(sz);
        p
    }

    #[inline]
    unsafe fn dealloc(&self, p: *mut u8, layout: Layout) {
        if layout.size() > MAX_SMALL || layout.align() > 16 || layout.size() == 0 {
            return System.dealloc(p, layout);
        }
        let c = class_of(layout.size());
        let a = arena();
        if a.is_null() {
            return; // abandoned
        }
        let tl = &mut *a;
        *(p as *mut *mut u8) = tl.free[c];
        tl.free[c] = p;
    }
}
