//! C22 — catalog updates never disturb unrelated entries.
//!
//! Complete explicit-state search of `HashMapTreeCatalog<HashMapTreeZone, u32>`
//! driven by insert / remove, with lookup / get / iter compared against a
//! reference map after every transition. The visited-set key is the complete
//! internal tree (every node, with or without an entry) read from the derived
//! `Debug` output, so two histories are merged only when the trees are
//! identical. `SingleZoneCatalog` lookup / get is checked by plain enumeration.

use std::collections::BTreeSet;
use std::sync::atomic::{AtomicU64, Ordering};
use std::sync::Arc;

use quandary::class::Class;
use quandary::db::catalog::Entry;
use quandary::db::zone::GluePolicy;
use quandary::db::{Catalog, HashMapTreeCatalog, HashMapTreeZone, SingleZoneCatalog, Zone};
use quandary::name::Name;
use qvlib::qd::{qname, wn};
use qvlib::wire::{self, WName};
use qvlib::{catch, hex, json, panic_key, unhex, Ctx, Local, Value};

use crate::bfs;
use crate::dbg;
use crate::refmodel::{RefCatalog, RefEntry};

type Cat = HashMapTreeCatalog<HashMapTreeZone, u32>;

const KIND_NAMES: [&str; 3] = ["Loaded", "NotYetLoaded", "FailedToLoad"];

fn class_text(c: u16) -> &'static str {
    match c {
        1 => "IN",
        3 => "CH",
        4 => "HS",
        _ => "?",
    }
}

// ---------------------------------------------------------------- operations

#[derive(Clone, Debug, PartialEq, Eq)]
pub enum Op {
    Insert(RefEntry),
    Remove(WName, u16),
}

impl Op {
    fn to_json(&self) -> Value {
        match self {
            Op::Insert(e) => json!({"op": "insert", "name": wire::name_text(&e.name), "name_wire": hex(&e.name), "class": e.class, "kind": KIND_NAMES[e.kind as usize], "tag": e.tag}),
            Op::Remove(n, c) => json!({"op": "remove", "name": wire::name_text(n), "name_wire": hex(n), "class": c}),
        }
    }
    fn from_json(v: &Value) -> Option<Op> {
        let name = unhex(v.get("name_wire")?.as_str()?);
        let class = v.get("class")?.as_u64()? as u16;
        match v.get("op")?.as_str()? {
            "insert" => {
                let kind = KIND_NAMES.iter().position(|k| Some(*k) == v.get("kind").and_then(|k| k.as_str()))? as u8;
                Some(Op::Insert(RefEntry { kind, name, class, tag: v.get("tag")?.as_u64()? as u32 }))
            }
            "remove" => Some(Op::Remove(name, class)),
            _ => None,
        }
    }
}

fn make_entry(e: &RefEntry) -> Entry<HashMapTreeZone, u32> {
    let name = qname(&e.name);
    let class = Class::from(e.class);
    match e.kind {
        0 => Entry::Loaded(Arc::new(HashMapTreeZone::new(name, class, GluePolicy::Narrow)), e.tag),
        1 => Entry::NotYetLoaded(name, class, e.tag),
        _ => Entry::FailedToLoad(name, class, e.tag),
    }
}

/// What the harness can see of an implementation entry.
fn ident(e: &Entry<HashMapTreeZone, u32>) -> RefEntry {
    let kind = match e {
        Entry::Loaded(..) => 0,
        Entry::NotYetLoaded(..) => 1,
        Entry::FailedToLoad(..) => 2,
    };
    // For Loaded entries also read name/class straight from the zone.
    if let Entry::Loaded(z, _) = e {
        debug_assert!(z.name() == e.name());
    }
    RefEntry { kind, name: wire::lower(&wn(e.name())), class: u16::from(e.class()), tag: *e.metadata() }
}

fn lower_entry(e: &RefEntry) -> RefEntry {
    RefEntry { name: wire::lower(&e.name), ..e.clone() }
}

fn opt_text(e: &Option<RefEntry>) -> String {
    e.as_ref().map(|e| e.text()).unwrap_or_else(|| "None".into())
}

fn apply(cat: &mut Cat, op: &Op) -> Result<Option<RefEntry>, String> {
    match op {
        Op::Insert(e) => {
            let entry = make_entry(e);
            catch(move || cat.insert(entry).as_ref().map(ident))
        }
        Op::Remove(n, c) => {
            let name = qname(n);
            let class = Class::from(*c);
            catch(move || cat.remove(&name, class).as_ref().map(ident))
        }
    }
}

// --------------------------------------------------- complete internal state

/// The complete tree of the catalog from its derived Debug output: one line
/// per class root (sorted), one item per node (sorted): the key label under
/// which the parent holds it, the node's own name, its entry (or `-`).
/// Returns (key, number of nodes).
fn concrete_state(cat: &Cat) -> Result<(String, usize), String> {
    let text = format!("{cat:?}");
    let prefix = "HashMapTreeCatalog { roots_by_class: {";
    if !text.starts_with(prefix) {
        return Err(format!("unexpected Debug output: {}", &text[..text.len().min(60)]));
    }
    let mut p = prefix.len();
    let mut classes: Vec<String> = Vec::new();
    let mut n_nodes = 0;
    let mut nodes: Vec<dbg::RawNode> = Vec::new();
    loop {
        if text[p..].starts_with('}') {
            break;
        }
        let colon = text[p..].find(": ").ok_or("roots_by_class item without key")?;
        let class = &text[p..p + colon];
        nodes.clear();
        p = dbg::scan_node(&text, p + colon + 2, None, &mut nodes)?;
        if text[p..].starts_with(", ") {
            p += 2;
        }
        n_nodes += nodes.len();
        // Sort the nodes (hash-map order is arbitrary) by name, then label.
        nodes.sort_by(|x, y| (x.1, x.0).cmp(&(y.1, y.0)));
        let mut line = String::with_capacity(64 + nodes.len() * 48);
        line.push_str(class);
        line.push_str(":[");
        for (key, name, data) in &nodes {
            line.push_str(key.unwrap_or("^"));
            line.push('>');
            line.push_str(name);
            line.push('=');
            // The entry verbatim (a Loaded entry shows its whole, empty, zone).
            line.push_str(if *data == "None" { "-" } else { data });
            line.push(';');
        }
        line.push(']');
        classes.push(line);
    }
    if &text[p..] != "} }" {
        return Err(format!("unexpected tail of Debug output: {}", &text[p..]));
    }
    classes.sort();
    Ok((classes.join("|"), n_nodes))
}

// ------------------------------------------------------------------ universe

pub struct Universe {
    pub label: &'static str,
    names: Vec<WName>,
    classes: Vec<u16>,
    kinds: Vec<u8>,
    /// (name index, class) of every key.
    keys: Vec<(usize, u16)>,
    ops: Vec<Op>,
    /// For insert/remove on a key: index into `keys`; None for the extra
    /// remove-only operations on names that are never inserted.
    op_key: Vec<Option<usize>>,
    probes: Vec<(WName, u16)>,
    /// Per probe: key indices whose name is a suffix of the probe name and
    /// whose class is the probe's, longest name first.
    probe_chain: Vec<Vec<usize>>,
    /// Per probe: key index with exactly the probe's name and class.
    probe_exact: Vec<Option<usize>>,
    /// Probe names as quandary names (built once).
    probe_qnames: Vec<Box<Name>>,
    /// entry_table[key][value]: the reference entry for value != 0.
    entry_table: Vec<Vec<Option<RefEntry>>>,
}

fn tag_of(key: usize, kind: u8) -> u32 {
    (key as u32 + 1) * 10 + kind as u32
}

impl Universe {
    pub fn new(label: &'static str, names: &[&str], classes: &[u16], kinds: &[u8]) -> Universe {
        let names: Vec<WName> = names.iter().map(|n| wire::wname(n)).collect();
        let mut keys = Vec::new();
        for c in classes {
            for i in 0..names.len() {
                keys.push((i, *c));
            }
        }
        let mut ops = Vec::new();
        let mut op_key = Vec::new();
        for (k, (ni, c)) in keys.iter().enumerate() {
            for kind in kinds {
                ops.push(Op::Insert(RefEntry { kind: *kind, name: names[*ni].clone(), class: *c, tag: tag_of(k, *kind) }));
                op_key.push(Some(k));
            }
            ops.push(Op::Remove(names[*ni].clone(), *c));
            op_key.push(Some(k));
        }
        // Removals of names that never hold an entry: a name below / beside
        // the keys, a key name in a class that has no tree at all, and an
        // upper-case spelling of a key (must hit the same entry).
        ops.push(Op::Remove(wire::wname("x.a."), classes[0]));
        op_key.push(None);
        ops.push(Op::Remove(wire::wname("a."), wire::c::HS));
        op_key.push(None);
        // Probe names: every key name, plus names below, beside and above
        // them, and case variants.
        let mut probe_names: Vec<WName> = names.clone();
        for extra in ["x.", "x.a.", "x.b.a.", "x.c.b.a.", "y.x.c.b.a.", "b.", "a.b.", "A.", "C.B.a.", "x.E."] {
            let w = wire::wname(extra);
            if !probe_names.contains(&w) {
                probe_names.push(w);
            }
        }
        // Label-boundary confusers: names that end, octet for octet, with a
        // key's wire form although they are not below it (the key's labels,
        // length octets included, sit inside one longer label): `x\001a.`,
        // `x\001b.a.`, `y\001b\001a.`, one name below a confuser.
        for (label, parent) in [(&b"x\x01a"[..], "."), (&b"x\x01b"[..], "a."), (&b"y\x01b\x01a"[..], "."), (&b"X\x01E"[..], ".")] {
            let w = wire::child(label, &wire::wname(parent));
            probe_names.push(wire::child(b"w", &w));
            probe_names.push(w);
        }
        let mut probe_classes: Vec<u16> = classes.to_vec();
        for c in [wire::c::IN, wire::c::CH, wire::c::HS] {
            if !probe_classes.contains(&c) {
                probe_classes.push(c);
            }
        }
        let mut probes = Vec::new();
        for c in &probe_classes {
            for n in &probe_names {
                probes.push((n.clone(), *c));
            }
        }
        let mut probe_chain = Vec::new();
        let mut probe_exact = Vec::new();
        for (pn, pc) in &probes {
            let mut chain: Vec<usize> = (0..keys.len()).filter(|k| keys[*k].1 == *pc && wire::eq_or_subdomain(pn, &names[keys[*k].0])).collect();
            chain.sort_by_key(|k| std::cmp::Reverse(wire::labels(&names[keys[*k].0]).len()));
            probe_exact.push(chain.iter().copied().find(|k| wire::eq_ci(pn, &names[keys[*k].0])));
            probe_chain.push(chain);
        }
        let probe_qnames = probes.iter().map(|(n, _)| qname(n)).collect();
        let entry_table = (0..keys.len())
            .map(|k| {
                (0..4u8)
                    .map(|val| {
                        if val == 0 {
                            None
                        } else {
                            let (ni, c) = keys[k];
                            Some(RefEntry { kind: val - 1, name: wire::lower(&names[ni]), class: c, tag: tag_of(k, val - 1) })
                        }
                    })
                    .collect()
            })
            .collect();
        Universe { label, names, classes: classes.to_vec(), kinds: kinds.to_vec(), keys, ops, op_key, probes, probe_chain, probe_exact, probe_qnames, entry_table }
    }

    fn ref_entry(&self, key: usize, val: u8) -> Option<&RefEntry> {
        self.entry_table[key][val as usize].as_ref()
    }

    pub fn describe(&self) -> Value {
        json!({
            "label": self.label,
            "names": self.names.iter().map(|n| wire::name_text(n)).collect::<Vec<_>>(),
            "classes": self.classes.iter().map(|c| class_text(*c)).collect::<Vec<_>>(),
            "entry_kinds": self.kinds.iter().map(|k| KIND_NAMES[*k as usize]).collect::<Vec<_>>(),
            "operations": self.ops.len(),
            "probes_per_transition": self.probes.len(),
            "abstract_states": (self.kinds.len() as u64 + 1).pow(self.keys.len() as u32),
        })
    }
}

/// One explored state: the real catalog, the reference map in compiled form
/// (value per key: 0 absent, else kind+1), and the node count of the tree.
struct State {
    cat: Cat,
    abs: Vec<u8>,
    nodes: usize,
}

#[derive(Default)]
struct Counters {
    lookup_exact: AtomicU64,
    lookup_ancestor: AtomicU64,
    lookup_none: AtomicU64,
    get_some: AtomicU64,
    get_none: AtomicU64,
    iter_entries: AtomicU64,
    confirmed_by_history_rerun: AtomicU64,
}

fn kind_of(e: &Entry<HashMapTreeZone, u32>) -> u8 {
    match e {
        Entry::Loaded(..) => 0,
        Entry::NotYetLoaded(..) => 1,
        Entry::FailedToLoad(..) => 2,
    }
}

/// Allocation-free comparison of an implementation entry with a reference one.
fn same(got: Option<&Entry<HashMapTreeZone, u32>>, want: Option<&RefEntry>) -> bool {
    match (got, want) {
        (None, None) => true,
        (Some(e), Some(w)) => kind_of(e) == w.kind && *e.metadata() == w.tag && u16::from(e.class()) == w.class && e.name().wire_repr().eq_ignore_ascii_case(&w.name),
        _ => false,
    }
}

/// Fast comparison of one catalog against the compiled reference: lookup and
/// get for every probe, then iter. Returns which comparison failed first (the
/// readable description comes from re-running the history, see `report`).
fn compare_fast(u: &Universe, cat: &Cat, abs: &[u8], cnt: &Counters) -> Result<(), (String, String)> {
    let r = catch(|| {
        let (mut ex, mut an, mut no, mut gs, mut gn) = (0u64, 0u64, 0u64, 0u64, 0u64);
        for pi in 0..u.probes.len() {
            let name = &u.probe_qnames[pi];
            let class = Class::from(u.probes[pi].1);
            let want_lookup = u.probe_chain[pi].iter().find(|k| abs[**k] != 0).and_then(|k| u.ref_entry(*k, abs[*k]));
            let want_get = u.probe_exact[pi].and_then(|k| u.ref_entry(k, abs[k]));
            if !same(cat.lookup(name, class), want_lookup) {
                return Err(("lookup".to_string(), pi));
            }
            if !same(cat.get(name, class), want_get) {
                return Err(("get".to_string(), pi));
            }
            match (want_lookup, want_get) {
                (Some(_), Some(_)) => ex += 1,
                (Some(_), None) => an += 1,
                _ => no += 1,
            }
            if want_get.is_some() {
                gs += 1
            } else {
                gn += 1
            }
        }
        // iter: every current entry exactly once, nothing else.
        let mut seen = 0u64;
        let mut n_got = 0usize;
        for e in cat.iter() {
            n_got += 1;
            let hit = (0..abs.len()).find(|k| abs[*k] != 0 && same(Some(e), u.ref_entry(*k, abs[*k])));
            match hit {
                Some(k) if seen & (1 << k) == 0 => seen |= 1 << k,
                _ => return Err(("iter".to_string(), usize::MAX)),
            }
        }
        let n_want = abs.iter().filter(|v| **v != 0).count();
        if n_got != n_want {
            return Err(("iter".to_string(), usize::MAX));
        }
        Ok((ex, an, no, gs, gn, n_want as u64))
    });
    match r {
        Err(p) => Err((panic_key(&p), p)),
        Ok(Err((kind, pi))) => {
            let what = if pi == usize::MAX { "iter() differs from the reference map".to_string() } else { format!("{kind}({}, {}) differs from the reference map", wire::name_text(&u.probes[pi].0), class_text(u.probes[pi].1)) };
            Err((kind, what))
        }
        Ok(Ok((ex, an, no, gs, gn, ni))) => {
            cnt.lookup_exact.fetch_add(ex, Ordering::Relaxed);
            cnt.lookup_ancestor.fetch_add(an, Ordering::Relaxed);
            cnt.lookup_none.fetch_add(no, Ordering::Relaxed);
            cnt.get_some.fetch_add(gs, Ordering::Relaxed);
            cnt.get_none.fetch_add(gn, Ordering::Relaxed);
            cnt.iter_entries.fetch_add(ni, Ordering::Relaxed);
            Ok(())
        }
    }
}

// ----------------------------------------------------------- history re-run

/// Runs a history from the empty catalog against the plain reference map
/// (`refmodel::RefCatalog`), comparing the returned previous entry, and
/// lookup / get for `probes` and iter after every step. This is the replay
/// path and the confirmation path for anything the search flags.
pub fn run_history(ops: &[Op], probes: &[(WName, u16)]) -> Option<(String, Value)> {
    let mut cat = Cat::new();
    let mut model = RefCatalog::default();
    for (step, op) in ops.iter().enumerate() {
        let fail = |key: &str, what: String| Some((key.to_string(), json!({"failed_at_step": step, "what": what})));
        let got_prev = match apply(&mut cat, op) {
            Ok(p) => p,
            Err(p) => return fail(&panic_key(&p), p),
        };
        let want_prev = match op {
            Op::Insert(e) => model.insert(lower_entry(e)),
            Op::Remove(n, c) => model.remove(n, *c),
        };
        if got_prev != want_prev {
            return fail("returned-entry", format!("{} returned {} but the reference map held {}", op.to_json(), opt_text(&got_prev), opt_text(&want_prev)));
        }
        for (pn, pc) in probes {
            let name = qname(pn);
            let class = Class::from(*pc);
            let got = match catch(|| (cat.lookup(&name, class).map(ident), cat.get(&name, class).map(ident))) {
                Ok(g) => g,
                Err(p) => return fail(&panic_key(&p), p),
            };
            let want_l = model.lookup(pn, *pc).cloned();
            let want_g = model.get(pn, *pc).cloned();
            if got.0 != want_l {
                return fail("lookup", format!("lookup({}, {}) = {} but the reference map says {}", wire::name_text(pn), class_text(*pc), opt_text(&got.0), opt_text(&want_l)));
            }
            if got.1 != want_g {
                return fail("get", format!("get({}, {}) = {} but the reference map says {}", wire::name_text(pn), class_text(*pc), opt_text(&got.1), opt_text(&want_g)));
            }
        }
        let got: Vec<RefEntry> = match catch(|| cat.iter().map(ident).collect::<Vec<_>>()) {
            Ok(g) => g,
            Err(p) => return fail(&panic_key(&p), p),
        };
        let got_set: BTreeSet<RefEntry> = got.iter().cloned().collect();
        if got_set.len() != got.len() || got_set != model.entries() {
            return fail("iter", format!("iter() yields [{}] but the reference map holds [{}]", got.iter().map(|e| e.text()).collect::<Vec<_>>().join(", "), model.entries().iter().map(|e| e.text()).collect::<Vec<_>>().join(", ")));
        }
    }
    None
}

fn probes_json(p: &[(WName, u16)]) -> Value {
    Value::Array(p.iter().map(|(n, c)| json!({"name": wire::name_text(n), "name_wire": hex(n), "class": c})).collect())
}

fn case_json(label: &str, ops: &[Op], probes: &[(WName, u16)], detail: Value) -> Value {
    json!({"family": "history", "universe": label, "ops": ops.iter().map(|o| o.to_json()).collect::<Vec<_>>(), "probes": probes_json(probes), "observed": detail})
}

// -------------------------------------------------------------------- search

fn explore(ctx: &Ctx, u: &Universe, max_depth: Option<usize>, cnt: &Counters) -> bfs::Stats {
    let init = State { cat: Cat::new(), abs: vec![0; u.keys.len()], nodes: 0 };
    let (init_key, _) = concrete_state(&init.cat).expect("Debug output of the empty catalog");
    let n_ops = u.ops.len();
    bfs::run(ctx, init, init_key, n_ops, max_depth, |l: &mut Local, st: &State, opi: usize, hist: &dyn Fn() -> Vec<usize>| {
        l.tick();
        let op = &u.ops[opi];
        let report = |l: &mut Local, key: &str, what: String| {
            // Confirm on a fresh catalog through the plain reference model.
            let ops: Vec<Op> = hist().into_iter().map(|i| u.ops[i].clone()).collect();
            match run_history(&ops, &u.probes) {
                Some((k2, detail)) => {
                    cnt.confirmed_by_history_rerun.fetch_add(1, Ordering::Relaxed);
                    l.violation(&k2, case_json(u.label, &ops, &u.probes, detail));
                }
                None => l.violation(&format!("search-only:{key}"), case_json(u.label, &ops, &u.probes, json!({"what": what, "note": "flagged on the cloned state during the search but not reproduced by re-running the history on a fresh catalog"}))),
            }
        };
        let mut cat = st.cat.clone();
        let got_prev = match apply(&mut cat, op) {
            Ok(p) => p,
            Err(p) => {
                report(l, &panic_key(&p), p);
                return None;
            }
        };
        let mut abs = st.abs.clone();
        let want_prev = match u.op_key[opi] {
            Some(k) => {
                let prev = u.ref_entry(k, abs[k]).cloned();
                abs[k] = match op {
                    Op::Insert(e) => e.kind + 1,
                    Op::Remove(..) => 0,
                };
                prev
            }
            None => None,
        };
        if got_prev != want_prev {
            report(l, "returned-entry", format!("{} returned {} but the reference map held {}", op.to_json(), opt_text(&got_prev), opt_text(&want_prev)));
            return None;
        }
        if let Err((key, what)) = compare_fast(u, &cat, &abs, cnt) {
            report(l, &key, what);
            return None;
        }
        let (key, nodes) = match concrete_state(&cat) {
            Ok(k) => k,
            Err(e) => {
                // Machinery problem, not a verdict about quandary.
                eprintln!("MACHINERY: cannot read the catalog's Debug output: {e}");
                std::process::exit(3);
            }
        };
        let delta = nodes as i64 - st.nodes as i64;
        let class = match op {
            Op::Insert(_) => format!("insert:{}:nodes{:+}", if want_prev.is_some() { "replace" } else { "new" }, delta),
            Op::Remove(..) => format!("remove:{}:nodes{:+}", if want_prev.is_some() { "hit" } else { "miss" }, delta),
        };
        l.outcome(&class, || json!({"universe": u.label, "ops": hist().into_iter().map(|i| u.ops[i].to_json()).collect::<Vec<_>>()}));
        Some((key, State { cat, abs, nodes }))
    })
}

// --------------------------------------------------------- SingleZoneCatalog

fn single_case(e: &RefEntry, probes: &[(WName, u16)]) -> Option<(String, Value)> {
    let cat = SingleZoneCatalog::new(make_entry(e));
    let mut model = RefCatalog::default();
    model.insert(lower_entry(e));
    match catch(|| ident(cat.entry())) {
        Ok(got) if got == lower_entry(e) => {}
        Ok(got) => return Some(("single:entry".into(), json!({"what": format!("entry() = {} but the catalog was built from {}", got.text(), e.text())}))),
        Err(p) => return Some((panic_key(&p), json!({"what": p}))),
    }
    for (pn, pc) in probes {
        let name = qname(pn);
        let class = Class::from(*pc);
        let got = match catch(|| (cat.lookup(&name, class).map(ident), cat.get(&name, class).map(ident))) {
            Ok(g) => g,
            Err(p) => return Some((panic_key(&p), json!({"what": p}))),
        };
        let (wl, wg) = (model.lookup(pn, *pc).cloned(), model.get(pn, *pc).cloned());
        if got.0 != wl {
            return Some(("single:lookup".into(), json!({"what": format!("SingleZoneCatalog[{}].lookup({}, {}) = {} but the reference says {}", e.text(), wire::name_text(pn), class_text(*pc), opt_text(&got.0), opt_text(&wl))})));
        }
        if got.1 != wg {
            return Some(("single:get".into(), json!({"what": format!("SingleZoneCatalog[{}].get({}, {}) = {} but the reference says {}", e.text(), wire::name_text(pn), class_text(*pc), opt_text(&got.1), opt_text(&wg))})));
        }
    }
    None
}

fn single_zone_family(ctx: &Ctx, u: &Universe) {
    let mut entries = Vec::new();
    for (k, (ni, c)) in u.keys.iter().enumerate() {
        for kind in 0..3u8 {
            entries.push(RefEntry { kind, name: u.names[*ni].clone(), class: *c, tag: tag_of(k, kind) });
        }
    }
    // A mixed-case entry name as well.
    entries.push(RefEntry { kind: 1, name: wire::wname("B.a."), class: wire::c::IN, tag: 5 });
    ctx.par_for_each(&entries, |l, e| {
        for (pn, pc) in &u.probes {
            l.tick();
            let one = [(pn.clone(), *pc)];
            let rel = if *pc != e.class {
                "other-class"
            } else if wire::eq_ci(pn, &e.name) {
                "exact"
            } else if wire::eq_or_subdomain(pn, &e.name) {
                "below"
            } else {
                "unrelated"
            };
            l.outcome(&format!("single-zone:{rel}"), || json!({"family": "single", "entry": Op::Insert(e.clone()).to_json(), "probe": wire::name_text(pn), "class": pc}));
            if let Some((key, detail)) = single_case(e, &one) {
                l.violation(&key, json!({"family": "single", "entry": Op::Insert(e.clone()).to_json(), "probes": probes_json(&one), "observed": detail}));
            }
        }
    });
}

// ---------------------------------------------------------------------- main

const ALL_NAMES: [&str; 6] = [".", "a.", "b.a.", "c.b.a.", "d.a.", "e."];

fn replay(ctx: Ctx, case: &Value) -> ! {
    let probes: Vec<(WName, u16)> = case
        .get("probes")
        .and_then(|p| p.as_array())
        .map(|a| a.iter().filter_map(|p| Some((unhex(p.get("name_wire")?.as_str()?), p.get("class")?.as_u64()? as u16))).collect())
        .unwrap_or_default();
    let found = if case.get("family").and_then(|f| f.as_str()) == Some("single") {
        let e = match case.get("entry").and_then(Op::from_json) {
            Some(Op::Insert(e)) => e,
            _ => {
                eprintln!("bad replay case");
                std::process::exit(2)
            }
        };
        single_case(&e, &probes)
    } else {
        let ops: Vec<Op> = case.get("ops").and_then(|o| o.as_array()).map(|a| a.iter().filter_map(Op::from_json).collect()).unwrap_or_default();
        println!("replaying {} operations, {} probes after each", ops.len(), probes.len());
        run_history(&ops, &probes)
    };
    match found {
        Some((key, detail)) => {
            println!("reproduced: {key}: {detail}");
            let mut c = case.clone();
            c["observed"] = detail;
            ctx.violation(&key, c);
        }
        None => println!("not reproduced: the case passes"),
    }
    ctx.finish("model_checking", "replay of one recorded case", false)
}

pub fn main(ctx: Ctx) -> ! {
    if let Some(case) = ctx.replay_case().cloned() {
        replay(ctx, &case);
    }
    let in_ = wire::c::IN;
    let ch = wire::c::CH;
    // Every universe is searched to closure (no depth bound).
    let mut universes = vec![
        // every entry kind, one class: replacement between all three kinds
        Universe::new("6 names x IN x {Loaded,NotYetLoaded,FailedToLoad}", &ALL_NAMES, &[in_], &[0, 1, 2]),
        // two classes side by side (separate trees, removal of a class root)
        Universe::new("4 names x {IN,CH} x {Loaded,FailedToLoad}", &ALL_NAMES[..4], &[in_, ch], &[0, 2]),
    ];
    if !ctx.quick() {
        universes.push(Universe::new("5 names x {IN,CH} x {Loaded,NotYetLoaded}", &ALL_NAMES[..5], &[in_, ch], &[0, 1]));
        // the full key set of DESIGN.md: 3^12 abstract states
        universes.push(Universe::new("6 names x {IN,CH} x {NotYetLoaded,FailedToLoad}", &ALL_NAMES, &[in_, ch], &[1, 2]));
    }
    let cnt = Counters::default();
    let mut described = Vec::new();
    let mut all_complete = true;
    let (mut states, mut transitions) = (0u64, 0u64);
    for u in &universes {
        let t0 = ctx.elapsed_s();
        let st = explore(&ctx, u, None, &cnt);
        let mut d = u.describe();
        d["states_reached"] = json!(st.states);
        d["transitions_executed"] = json!(st.transitions);
        d["states_first_reached_per_depth"] = json!(st.levels);
        d["closure_reached"] = json!(st.complete);
        d["wall_s"] = json!(((ctx.elapsed_s() - t0) * 100.0).round() / 100.0);
        eprintln!("[C22] {}: {} states, {} transitions, closure={} ({:.1}s)", u.label, st.states, st.transitions, st.complete, ctx.elapsed_s() - t0);
        described.push(d);
        states += st.states;
        transitions += st.transitions;
        if !st.complete {
            all_complete = false;
        }
    }
    single_zone_family(&ctx, &universes[1]);
    ctx.set_extra("states", json!(states));
    ctx.set_extra("transitions", json!(transitions));
    // Every transition is one execution of the real insert/remove on a real
    // catalog, followed by the comparisons.
    ctx.set_extra("traces_validated_against_impl", json!(transitions));
    ctx.set_extra("universes", Value::Array(described));
    ctx.set_extra(
        "comparisons",
        json!({
            "lookup_expected_exact_entry": cnt.lookup_exact.load(Ordering::Relaxed),
            "lookup_expected_ancestor_entry": cnt.lookup_ancestor.load(Ordering::Relaxed),
            "lookup_expected_none": cnt.lookup_none.load(Ordering::Relaxed),
            "get_expected_some": cnt.get_some.load(Ordering::Relaxed),
            "get_expected_none": cnt.get_none.load(Ordering::Relaxed),
            "iter_entries_compared": cnt.iter_entries.load(Ordering::Relaxed),
            "violations_confirmed_by_history_rerun": cnt.confirmed_by_history_rerun.load(Ordering::Relaxed),
        }),
    );
    ctx.set_extra("state_key", json!("complete internal tree per class (every node: parent's key label, node name, entry or none) parsed from the derived Debug output of HashMapTreeCatalog, hash-map items sorted; histories are merged only when this text is identical"));
    ctx.assume("the derived Debug output of HashMapTreeCatalog shows its complete state (all fields are Debug-derived containers; zones behind Arc are immutable and created empty by the harness)");
    ctx.assume("entries are identified by (kind, name, class, metadata tag); the tag is unique per (key, kind)");
    let exhaustive = all_complete;
    ctx.finish(
        "model_checking",
        "explicit-state search from the empty HashMapTreeCatalog over all insert(kind)/remove operations on nested names in one or two classes; visited-set key = complete tree from Debug; after every transition the returned previous entry, lookup and get for every probe name x class, and iter are compared with a reference map; plus all SingleZoneCatalog entry x probe pairs. evaluations = transitions + single-zone pairs",
        exhaustive,
    )
}
