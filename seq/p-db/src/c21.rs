//! C21 — zone validation reports exactly the defined semantic issues.
//!
//! Zones = base x every subset of at most k records from a menu x both glue
//! policies x classes IN / CH / HS, built on a real `HashMapTreeZone`;
//! `validate()` is compared, as a set, with a reference checker written from
//! the property statement, the documentation of each issue and of
//! `GluePolicy`, RFC 1034 §4.2.1/§4.3.2 and RFC 4592.

use std::collections::BTreeSet;
use std::sync::atomic::{AtomicU64, Ordering};

use quandary::class::Class;
use quandary::db::zone::{GluePolicy, IteratorByNode, LookupAddrsResult, LookupAllResult, LookupOptions, LookupResult, ValidationIssue};
use quandary::name::Name;
use quandary::db::{HashMapTreeZone, Zone};
use quandary::rr::{Ttl, Type};
use qvlib::qd::{qname, rdata, wn};
use qvlib::wire::{self, c, t, WName};
use qvlib::{catch, json, panic_key, Ctx, Local, Value};

use crate::refmodel::{is_wildcard, RefStore, Resolved, Rr};

/// The apex the menus are written for; the other apexes are reached by
/// rewriting the trailing `t.` of every menu name (see `re_apex`).
const APEX: &str = "t.";
/// Apexes explored: the plain one, an apex that is itself a wildcard name,
/// and a plain apex below a wildcard label.
const APEXES: [&str; 3] = [APEX, "*.z.", "q.*.z."];

/// `name` with its trailing label `t.` replaced by `apex` (upper-cased if the
/// label was `T.`); names outside `t.` are returned unchanged.
fn re_apex(name: &str, apex: &str) -> String {
    if apex == APEX {
        return name.to_string();
    }
    let (head, upper) = if let Some(h) = name.strip_suffix("t.") {
        (h, false)
    } else if let Some(h) = name.strip_suffix("T.") {
        (h, true)
    } else {
        return name.to_string();
    };
    if !(head.is_empty() || head.ends_with('.')) {
        return name.to_string();
    }
    format!("{head}{}", if upper { apex.to_ascii_uppercase() } else { apex.to_string() })
}
const TTL: u32 = 60;

// ---------------------------------------------------------------- the oracle

#[derive(Clone, Debug, PartialEq, Eq, PartialOrd, Ord)]
pub struct Issue {
    kind: &'static str,
    /// Lower-cased wire name; empty for the three apex-level kinds.
    name: WName,
}

impl Issue {
    fn text(&self) -> String {
        if self.name.is_empty() {
            self.kind.to_string()
        } else {
            format!("{}({})", self.kind, wire::name_text(&self.name))
        }
    }
}

const WARNINGS: [&str; 2] = ["MissingMxAddress", "NsAtWildcard"];

#[derive(Default)]
struct Expect {
    /// Issues every reading of the statement demands.
    must: BTreeSet<Issue>,
    /// Issues on which the statement is silent (accepted present or absent).
    may: BTreeSet<Issue>,
    /// Which under-determined situations occurred in this zone.
    decisions: BTreeSet<&'static str>,
    /// RDATA that must be parsed is malformed: `Err(InvalidRdata)` is accepted.
    malformed: bool,
}

fn class_has_addresses(class: u16) -> bool {
    // Address types are defined for the Internet class (A, AAAA) and for
    // Chaosnet (A); no address type is defined for other classes.
    class == c::IN || class == c::CH
}

fn has_address(z: &RefStore, node: &[u8]) -> bool {
    z.has(node, t::A) || (z.class == c::IN && z.has(node, t::AAAA))
}

fn name_field(rd: &[u8], skip: usize) -> Option<WName> {
    let f = rd.get(skip..)?;
    if wire::is_valid_uncompressed_all(f) {
        Some(wire::lower(f))
    } else {
        None
    }
}

/// "In-zone name server / mail exchanger without an address": the target is
/// authoritative data of this zone (at or below the apex, not at or below a
/// zone cut) and a lookup of it finds no address record.
fn check_in_zone_target(z: &RefStore, target: &[u8], kind: &'static str, e: &mut Expect) {
    match z.resolve(target, false) {
        Resolved::Outside | Resolved::Cut(_) => {}
        Resolved::NxDomain => {
            e.must.insert(Issue { kind, name: target.to_vec() });
        }
        Resolved::Node { node, synthesized } => {
            if !has_address(z, &node) {
                if synthesized && z.has(&node, t::NS) {
                    // RFC 4592 §4.2 leaves an NS RRset at a wildcard undefined:
                    // read as a cut there would be nothing to report.
                    e.decisions.insert("target synthesised from a wildcard that owns NS");
                    e.may.insert(Issue { kind, name: target.to_vec() });
                } else {
                    e.must.insert(Issue { kind, name: target.to_vec() });
                }
            }
        }
    }
}

fn check_delegation_target(z: &RefStore, wide: bool, owner: &[u8], target: &[u8], e: &mut Expect) {
    match z.resolve(target, false) {
        Resolved::Outside => {}
        Resolved::NxDomain | Resolved::Node { .. } => check_in_zone_target(z, target, "MissingNsAddress", e),
        Resolved::Cut(cut) => {
            // The name server lives in a child zone (`cut` is the topmost cut
            // above it). Wide: glue always required. Narrow: required iff that
            // child zone is the one this NS RRset delegates.
            let required = wide || cut == owner;
            let unclear = !required && wire::eq_or_subdomain(target, owner);
            if unclear {
                // Narrow policy, the NS owner is itself below another cut and
                // the server is below the owner: "in the child zone named by
                // the owner" can be read either way.
                e.decisions.insert("narrow policy, delegation occluded by a higher cut");
            }
            if !(required || unclear) {
                return;
            }
            let (missing, certain) = match z.resolve(target, true) {
                Resolved::Node { node, synthesized } => {
                    let ok = has_address(z, &node);
                    if ok && synthesized {
                        // An address synthesised from a wildcard below the cut:
                        // the statement does not say whether that is glue.
                        e.decisions.insert("glue only by wildcard synthesis below a cut");
                        (true, false)
                    } else {
                        (!ok, true)
                    }
                }
                _ => (true, true),
            };
            if missing {
                let issue = Issue { kind: "MissingGlue", name: target.to_vec() };
                if required && certain {
                    e.must.insert(issue);
                } else {
                    e.may.insert(issue);
                }
            }
        }
    }
}

/// The reference checker.
fn reference(z: &RefStore, wide: bool) -> Expect {
    let mut e = Expect::default();
    let addrs = class_has_addresses(z.class);
    match z.rrset(&z.apex, t::SOA) {
        None => {
            e.must.insert(Issue { kind: "MissingApexSoa", name: vec![] });
        }
        Some(set) if set.1.len() > 1 => {
            e.must.insert(Issue { kind: "TooManyApexSoas", name: vec![] });
        }
        _ => {}
    }
    if !z.has(&z.apex, t::NS) {
        e.must.insert(Issue { kind: "MissingApexNs", name: vec![] });
    }
    for (owner, node) in &z.nodes {
        let at_apex = *owner == z.apex;
        if let Some(cn) = node.get(&t::CNAME) {
            if node.len() > 1 {
                e.must.insert(Issue { kind: "OtherRecordsAtCname", name: owner.clone() });
            }
            if cn.1.len() > 1 {
                e.must.insert(Issue { kind: "DuplicateCname", name: owner.clone() });
            }
        }
        if let Some(ns) = node.get(&t::NS) {
            if is_wildcard(owner) {
                e.must.insert(Issue { kind: "NsAtWildcard", name: owner.clone() });
            }
            if addrs {
                for rd in &ns.1 {
                    match name_field(rd, 0) {
                        None => e.malformed = true,
                        Some(target) => {
                            if at_apex {
                                check_in_zone_target(z, &target, "MissingNsAddress", &mut e);
                            } else {
                                check_delegation_target(z, wide, owner, &target, &mut e);
                            }
                        }
                    }
                }
            }
        }
        if let Some(mx) = node.get(&t::MX) {
            if addrs {
                for rd in &mx.1 {
                    match name_field(rd, 2) {
                        None => e.malformed = true,
                        Some(target) => check_in_zone_target(z, &target, "MissingMxAddress", &mut e),
                    }
                }
            }
        }
    }
    let must = e.must.clone();
    e.may.retain(|i| !must.contains(i));
    e
}

// ------------------------------------------------------------------ the menu

#[derive(Clone, Debug)]
enum Rd {
    Addr4,
    Addr6,
    Name(&'static str),
    Mx(&'static str),
    Soa(u32),
    Txt,
    Raw(&'static [u8]),
}

#[derive(Clone, Debug)]
struct Item {
    owner: &'static str,
    typ: u16,
    rd: Rd,
}

fn it(owner: &'static str, typ: u16, rd: Rd) -> Item {
    Item { owner, typ, rd }
}

fn materialize(item: &Item, class: u16, apex: &str) -> Rr {
    let wn_of = |n: &str| wire::wname(&re_apex(n, apex));
    let rd: Vec<u8> = match &item.rd {
        Rd::Addr4 => {
            if class == c::CH {
                // Chaosnet A: a domain name and a 16-bit address.
                let mut v = wire::wname("ch-net.");
                v.extend_from_slice(&[0, 7]);
                v
            } else {
                vec![192, 0, 2, 1]
            }
        }
        Rd::Addr6 => vec![0x20, 1, 0xd, 0xb8, 0, 0, 0, 0, 0, 0, 0, 0, 0, 0, 0, 1],
        Rd::Name(n) => wn_of(n),
        Rd::Mx(n) => {
            let mut v = vec![0, 10];
            v.extend_from_slice(&wn_of(n));
            v
        }
        Rd::Soa(serial) => {
            let mut v = wn_of("ns.t.");
            v.extend_from_slice(&wn_of("hm.t."));
            for x in [*serial, 2, 3, 4, 5] {
                v.extend_from_slice(&x.to_be_bytes());
            }
            v
        }
        Rd::Txt => b"\x01x".to_vec(),
        Rd::Raw(b) => b.to_vec(),
    };
    Rr { owner: wn_of(item.owner), typ: item.typ, class, ttl: TTL, rdata: rd }
}

/// The healthy base: one SOA, one apex NS whose server has an address.
fn healthy_base() -> Vec<Item> {
    vec![it("t.", t::SOA, Rd::Soa(1)), it("t.", t::NS, Rd::Name("ns.t.")), it("ns.t.", t::A, Rd::Addr4)]
}

fn menu() -> Vec<Item> {
    use Rd::*;
    vec![
        // apex
        it("t.", t::SOA, Soa(1)),
        it("t.", t::SOA, Soa(2)),
        it("t.", t::NS, Name("ns.t.")),
        it("T.", t::NS, Name("NS.T.")), // same record by case
        it("t.", t::NS, Name("ns.a.t.")), // server possibly below a cut
        it("t.", t::NS, Name("ns.u.")),   // server outside the zone
        it("t.", t::NS, Name("e.t.")),    // server name: missing or an empty non-terminal
        it("t.", t::MX, Mx("mx.t.")),
        it("t.", t::MX, Mx("ns.a.t.")),
        it("t.", t::MX, Mx("mx.u.")),
        it("t.", t::CNAME, Name("w.t.")),
        // addresses of the apex servers / exchangers
        it("ns.t.", t::A, Addr4),
        it("ns.t.", t::AAAA, Addr6),
        it("mx.t.", t::A, Addr4),
        it("MX.t.", t::AAAA, Addr6),
        it("mx.t.", t::CNAME, Name("w.t.")),
        // delegation a.t.
        it("a.t.", t::NS, Name("ns.a.t.")), // server inside the child
        it("a.t.", t::NS, Name("ns.b.t.")), // server inside a sibling child (if b.t. is delegated)
        it("a.t.", t::NS, Name("ns.t.")),   // server in the parent zone
        it("a.t.", t::NS, Name("ns.u.")),   // server outside
        it("a.t.", t::NS, Name("a.t.")),    // the cut itself as server
        it("a.t.", t::NS, Name("nx.t.")),   // in-zone name that may not exist
        it("ns.a.t.", t::A, Addr4),         // glue
        it("NS.a.t.", t::AAAA, Addr6),      // glue, IPv6 only
        it("a.t.", t::A, Addr4),            // glue at the cut
        it("*.a.t.", t::A, Addr4),          // wildcard below the cut
        // delegation b.t.
        it("b.t.", t::NS, Name("ns.b.t.")),
        it("b.t.", t::NS, Name("ns.a.t.")),
        it("ns.b.t.", t::A, Addr4),
        // delegation below a delegation (occluded)
        it("c.a.t.", t::NS, Name("ns.c.a.t.")),
        it("c.a.t.", t::NS, Name("ns.t.")),
        it("ns.c.a.t.", t::A, Addr4),
        it("c.a.t.", t::MX, Mx("mx.t.")),
        // wildcards
        it("*.t.", t::NS, Name("ns.t.")),
        it("*.t.", t::NS, Name("ns.a.t.")),
        it("*.t.", t::A, Addr4),
        it("*.t.", t::MX, Mx("mx.t.")),
        it("*.b.t.", t::NS, Name("ns.u.")),
        // CNAMEs
        it("w.t.", t::CNAME, Name("x.t.")),
        it("w.t.", t::CNAME, Name("y.t.")),
        it("W.t.", t::CNAME, Name("X.T.")), // same record by case
        it("w.t.", t::A, Addr4),
        it("w.t.", t::TXT, Txt),
        it("w.t.", t::NS, Name("ns.t.")),
        it("nx.t.", t::CNAME, Name("ns.t.")), // server name that is an alias
        // empty non-terminal
        it("x.e.t.", t::A, Addr4),
        it("e.t.", t::AAAA, Addr6),
        it("mx.t.", t::TXT, Txt),
    ]
}

/// Malformed NS / MX RDATA, checked in a small separate family.
fn malformed_menu() -> Vec<Item> {
    use Rd::*;
    vec![
        it("t.", t::NS, Raw(b"\x02ns\x01t\x00junk")),
        it("t.", t::NS, Raw(b"\x02ns\x01t")),
        it("a.t.", t::NS, Raw(b"")),
        it("a.t.", t::NS, Raw(b"\xc0\x0c")),
        it("t.", t::MX, Raw(b"\x00")),
        it("t.", t::MX, Raw(b"\x00\x0a\x02mx\x01t\x00\x00")),
        it("w.t.", t::MX, Raw(b"\x00\x0a\x40")),
    ]
}

// ------------------------------------------------------------------ checking

fn issue_of(i: &ValidationIssue) -> Issue {
    let low = |n: &quandary::name::Name| wire::lower(&wn(n));
    match i {
        ValidationIssue::MissingApexSoa => Issue { kind: "MissingApexSoa", name: vec![] },
        ValidationIssue::TooManyApexSoas => Issue { kind: "TooManyApexSoas", name: vec![] },
        ValidationIssue::MissingApexNs => Issue { kind: "MissingApexNs", name: vec![] },
        ValidationIssue::MissingNsAddress(n) => Issue { kind: "MissingNsAddress", name: low(n) },
        ValidationIssue::MissingMxAddress(n) => Issue { kind: "MissingMxAddress", name: low(n) },
        ValidationIssue::MissingGlue(n) => Issue { kind: "MissingGlue", name: low(n) },
        ValidationIssue::DuplicateCname(n) => Issue { kind: "DuplicateCname", name: low(n) },
        ValidationIssue::OtherRecordsAtCname(n) => Issue { kind: "OtherRecordsAtCname", name: low(n) },
        ValidationIssue::NsAtWildcard(n) => Issue { kind: "NsAtWildcard", name: low(n) },
    }
}

struct Verdict {
    class: String,
    /// (key, what) of a violation.
    bad: Option<(String, String)>,
    got: Vec<String>,
    must: Vec<String>,
    may: Vec<String>,
    decisions: Vec<&'static str>,
}

/// The same zone behind another `Zone` implementation, one that builds
/// `lookup_addrs` from per-type lookups and therefore fills in the AAAA RRset
/// whatever the class (the trait documentation leaves it to the *caller* to
/// ignore that field outside class IN). Validation is written against the
/// trait, so what it reports must not depend on which implementation holds
/// the records.
struct PerTypeAddrs<'a>(&'a HashMapTreeZone);

impl Zone for PerTypeAddrs<'_> {
    fn name(&self) -> &Name {
        self.0.name()
    }
    fn class(&self) -> Class {
        self.0.class()
    }
    fn glue_policy(&self) -> GluePolicy {
        self.0.glue_policy()
    }
    fn lookup(&self, name: &Name, rr_type: Type, options: LookupOptions) -> LookupResult {
        self.0.lookup(name, rr_type, options)
    }
    fn lookup_addrs(&self, name: &Name, options: LookupOptions) -> LookupAddrsResult {
        match self.0.lookup_addrs(name, options.clone()) {
            LookupAddrsResult::Found(mut found) => {
                if found.data.aaaa_rrset.is_none() {
                    if let LookupResult::Found(aaaa) = self.0.lookup(name, Type::AAAA, options) {
                        found.data.aaaa_rrset = Some(aaaa.data);
                    }
                }
                LookupAddrsResult::Found(found)
            }
            other => other,
        }
    }
    fn lookup_all(&self, name: &Name, options: LookupOptions) -> LookupAllResult {
        self.0.lookup_all(name, options)
    }
    fn iter_by_node(&self) -> IteratorByNode {
        self.0.iter_by_node()
    }
}

fn judge(zone: &HashMapTreeZone, model: &RefStore, wide: bool) -> Verdict {
    let mut v = judge_impl(zone, model, wide, false);
    if v.bad.is_none() {
        let v2 = judge_impl(zone, model, wide, true);
        if let Some((k, d)) = v2.bad {
            v.bad = Some((format!("other-zone-impl:{k}"), format!("validated through a Zone implementation whose lookup_addrs reports AAAA in every class: {d}")));
            v.got = v2.got;
        }
    }
    v
}

fn judge_impl(zone: &HashMapTreeZone, model: &RefStore, wide: bool, wrapped: bool) -> Verdict {
    let exp = reference(model, wide);
    let texts = |s: &BTreeSet<Issue>| s.iter().map(|i| i.text()).collect::<Vec<_>>();
    let mut v = Verdict { class: String::new(), bad: None, got: vec![], must: texts(&exp.must), may: texts(&exp.may), decisions: exp.decisions.iter().copied().collect() };
    let res = if wrapped {
        let w = PerTypeAddrs(zone);
        catch(|| w.validate().map(|issues| issues.iter().map(|i| (issue_of(i), i.is_error())).collect::<Vec<_>>()))
    } else {
        catch(|| zone.validate().map(|issues| issues.iter().map(|i| (issue_of(i), i.is_error())).collect::<Vec<_>>()))
    };
    let issues = match res {
        Err(p) => {
            v.class = "panic".into();
            v.bad = Some((panic_key(&p), p));
            return v;
        }
        Ok(Err(e)) => {
            v.class = format!("Err({e:?})");
            v.got = vec![format!("Err({e:?})")];
            if !(exp.malformed && e == quandary::db::Error::InvalidRdata) {
                v.bad = Some(("unexpected-error".into(), format!("validate() returned Err({e:?}) for a zone whose NS/MX RDATA is all well formed")));
            }
            return v;
        }
        Ok(Ok(i)) => i,
    };
    let got: BTreeSet<Issue> = issues.iter().map(|(i, _)| i.clone()).collect();
    v.got = texts(&got);
    let mut kinds: BTreeSet<&str> = got.iter().map(|i| i.kind).collect();
    if kinds.is_empty() {
        kinds.insert("clean");
    }
    v.class = kinds.into_iter().collect::<Vec<_>>().join("+");
    if exp.malformed {
        v.class = format!("malformed-rdata-not-parsed:{}", v.class);
    }
    if !exp.may.is_empty() {
        let taken = exp.may.iter().filter(|i| got.contains(*i)).count();
        v.class.push_str(&format!(" [undetermined:{}of{}reported]", taken, exp.may.len()));
    }
    for (i, is_err) in &issues {
        if *is_err == WARNINGS.contains(&i.kind) {
            v.bad = Some((format!("severity:{}", i.kind), format!("{} has is_error() = {is_err}; only MissingMxAddress and NsAtWildcard are warnings", i.text())));
            return v;
        }
    }
    if let Some(m) = exp.must.iter().find(|i| !got.contains(*i)) {
        v.bad = Some((format!("missing:{}", m.kind), format!("the reference checker finds {} but validate() does not report it", m.text())));
    } else if let Some(s) = got.iter().find(|i| !exp.must.contains(*i) && !exp.may.contains(*i)) {
        v.bad = Some((format!("spurious:{}", s.kind), format!("validate() reports {} but the reference checker finds no such issue", s.text())));
    }
    v
}

fn policy_text(wide: bool) -> &'static str {
    if wide {
        "Wide"
    } else {
        "Narrow"
    }
}

fn case_json(apex: &str, class: u16, wide: bool, recs: &[Rr], v: &Verdict) -> Value {
    json!({
        "apex": apex, "class": class, "glue_policy": policy_text(wide),
        "records": recs.iter().map(|r| r.to_json()).collect::<Vec<_>>(),
        "validate_reported": v.got, "reference_requires": v.must, "reference_accepts_either_way": v.may, "undetermined_because": v.decisions,
        "what": v.bad.as_ref().map(|b| b.1.clone()),
    })
}

fn build(apex: &str, class: u16, wide: bool, recs: &[Rr]) -> Result<(HashMapTreeZone, RefStore), String> {
    let mut zone = HashMapTreeZone::new(qname(&wire::wname(apex)), Class::from(class), if wide { GluePolicy::Wide } else { GluePolicy::Narrow });
    let mut model = RefStore::new(&wire::wname(apex), class);
    for r in recs {
        add(&mut zone, &mut model, r)?;
    }
    Ok((zone, model))
}

fn add(zone: &mut HashMapTreeZone, model: &mut RefStore, r: &Rr) -> Result<(), String> {
    let got = catch(|| zone.add(&qname(&r.owner), Type::from(r.typ), Class::from(r.class), Ttl::from(r.ttl), rdata(&r.rdata)))?;
    let want = model.add(r);
    match (got, want) {
        (Ok(()), Ok(_)) => Ok(()),
        (g, w) => Err(format!("harness: add of {} gave {g:?} / model {w:?}", r.to_json())),
    }
}

const DECISIONS: [&str; 3] = ["target synthesised from a wildcard that owns NS", "narrow policy, delegation occluded by a higher cut", "glue only by wildcard synthesis below a cut"];
static DECISION_ZONES: [AtomicU64; 3] = [AtomicU64::new(0), AtomicU64::new(0), AtomicU64::new(0)];

struct Walk<'a> {
    apex: &'static str,
    class: u16,
    wide: bool,
    menu: &'a [Rr],
    max: usize,
    chosen: Vec<usize>,
    base: &'a [Rr],
    zones: u64,
    undetermined: u64,
}

impl Walk<'_> {
    fn visit(&mut self, l: &mut Local, zone: &HashMapTreeZone, model: &RefStore) {
        l.tick();
        self.zones += 1;
        let v = judge(zone, model, self.wide);
        if !v.may.is_empty() {
            self.undetermined += 1;
        }
        for d in &v.decisions {
            if let Some(i) = DECISIONS.iter().position(|x| x == d) {
                DECISION_ZONES[i].fetch_add(1, Ordering::Relaxed);
            }
        }
        let recs = || -> Vec<Rr> { self.base.iter().cloned().chain(self.chosen.iter().map(|i| self.menu[*i].clone())).collect() };
        l.outcome(&v.class, || case_json(self.apex, self.class, self.wide, &recs(), &v));
        if let Some((key, _)) = &v.bad {
            l.violation(key, case_json(self.apex, self.class, self.wide, &recs(), &v));
        }
    }

    /// Visits every extension of the current subset by records with a larger
    /// menu index (each subset exactly once).
    fn extend(&mut self, l: &mut Local, zone: &HashMapTreeZone, model: &RefStore) {
        if self.chosen.len() >= self.max {
            return;
        }
        let start = self.chosen.last().map(|x| x + 1).unwrap_or(0);
        for i in start..self.menu.len() {
            let mut z = zone.clone();
            let mut m = model.clone();
            if let Err(e) = add(&mut z, &mut m, &self.menu[i]) {
                eprintln!("MACHINERY: {e}");
                std::process::exit(3);
            }
            self.chosen.push(i);
            self.visit(l, &z, &m);
            self.extend(l, &z, &m);
            self.chosen.pop();
        }
    }
}

struct Family {
    label: &'static str,
    apex: &'static str,
    class: u16,
    wide: bool,
    healthy: bool,
    max: usize,
    malformed: bool,
}

fn class_text(cl: u16) -> &'static str {
    match cl {
        1 => "IN",
        3 => "CH",
        4 => "HS",
        _ => "?",
    }
}

fn replay(ctx: Ctx, case: &Value) -> ! {
    let apex = case.get("apex").and_then(|a| a.as_str()).unwrap_or(APEX).to_string();
    let apex = apex.as_str();
    let class = case.get("class").and_then(|c| c.as_u64()).unwrap_or(1) as u16;
    let wide = case.get("glue_policy").and_then(|p| p.as_str()) == Some("Wide");
    let recs: Vec<Rr> = case.get("records").and_then(|o| o.as_array()).map(|a| a.iter().filter_map(Rr::from_json).collect()).unwrap_or_default();
    println!("replaying a zone of {} records, class {}, glue policy {}", recs.len(), class_text(class), policy_text(wide));
    match build(apex, class, wide, &recs) {
        Err(e) => {
            eprintln!("bad replay case: {e}");
            std::process::exit(2);
        }
        Ok((zone, model)) => {
            let v = judge(&zone, &model, wide);
            println!("validate(): {:?}\nreference requires: {:?}\nreference accepts either way: {:?}", v.got, v.must, v.may);
            match &v.bad {
                Some((key, what)) => {
                    println!("reproduced: {key}: {what}");
                    ctx.violation(key, case_json(apex, class, wide, &recs, &v));
                }
                None => println!("not reproduced: the case passes"),
            }
        }
    }
    ctx.finish("exploration", "replay of one recorded case", false)
}

pub fn main(ctx: Ctx) -> ! {
    if let Some(case) = ctx.replay_case().cloned() {
        replay(ctx, &case);
    }
    // Subset bounds: empty base; healthy base for CH; healthy base for IN.
    let (k_all, k_deep_ch, k_deep_in) = ctx.pick((3, 4, 5), (4, 5, 6));
    let mut families = Vec::new();
    for class in [c::IN, c::CH, c::HS] {
        for wide in [false, true] {
            families.push(Family { label: "empty base", apex: APEX, class, wide, healthy: false, max: k_all, malformed: false });
            // One more record on top of the healthy base for the classes that
            // have address types (that is where glue and address issues live).
            let deep = match class {
                c::IN => k_deep_in,
                c::CH => k_deep_ch,
                _ => k_all,
            };
            families.push(Family { label: "healthy base (SOA, NS ns.t., ns.t. A)", apex: APEX, class, wide, healthy: true, max: deep, malformed: false });
            families.push(Family { label: "malformed NS/MX RDATA on the healthy base", apex: APEX, class, wide, healthy: true, max: 2, malformed: true });
        }
    }
    // The same menus under the other apexes (names rewritten), one record
    // shallower.
    for apex in &APEXES[1..] {
        for class in [c::IN, c::CH] {
            for wide in [false, true] {
                families.push(Family { label: "empty base, other apex", apex, class, wide, healthy: false, max: k_all - 1, malformed: false });
                families.push(Family { label: "healthy base, other apex", apex, class, wide, healthy: true, max: k_all, malformed: false });
            }
        }
    }
    // Shards: (family, first chosen menu index or none).
    let menus: Vec<(Vec<Rr>, Vec<Rr>)> = families
        .iter()
        .map(|f| {
            let base: Vec<Rr> = if f.healthy { healthy_base().iter().map(|i| materialize(i, f.class, f.apex)).collect() } else { vec![] };
            let items = if f.malformed {
                let mut m = malformed_menu();
                m.extend(menu().into_iter().filter(|i| matches!(i.owner, "a.t." | "ns.a.t.") || i.typ == t::MX).take(8));
                m
            } else {
                menu()
            };
            (base, items.iter().map(|i| materialize(i, f.class, f.apex)).collect())
        })
        .collect();
    let mut shards: Vec<(usize, Option<usize>)> = Vec::new();
    for (fi, _) in families.iter().enumerate() {
        shards.push((fi, None));
        for first in 0..menus[fi].1.len() {
            shards.push((fi, Some(first)));
        }
    }
    // Rotate by the seed (order only).
    let rot = (ctx.seed as usize) % shards.len();
    shards.rotate_left(rot);
    let per_family: Vec<(AtomicU64, AtomicU64)> = families.iter().map(|_| (AtomicU64::new(0), AtomicU64::new(0))).collect();
    ctx.par_for_each(&shards, |l, (fi, first)| {
        let f = &families[*fi];
        let (base, menu) = &menus[*fi];
        let (zone, model) = build(f.apex, f.class, f.wide, base).unwrap_or_else(|e| {
            eprintln!("MACHINERY: {e}");
            std::process::exit(3)
        });
        let mut w = Walk { apex: f.apex, class: f.class, wide: f.wide, menu, max: f.max, chosen: vec![], base, zones: 0, undetermined: 0 };
        match first {
            None => w.visit(l, &zone, &model),
            Some(i) => {
                let mut z = zone.clone();
                let mut m = model.clone();
                if let Err(e) = add(&mut z, &mut m, &menu[*i]) {
                    eprintln!("MACHINERY: {e}");
                    std::process::exit(3);
                }
                w.chosen.push(*i);
                w.visit(l, &z, &m);
                w.extend(l, &z, &m);
            }
        }
        per_family[*fi].0.fetch_add(w.zones, Ordering::Relaxed);
        per_family[*fi].1.fetch_add(w.undetermined, Ordering::Relaxed);
    });
    // is_error() of every variant, directly.
    {
        let mut l = ctx.local();
        let n = qname(&wire::wname("n.t."));
        let all = [
            ValidationIssue::MissingApexSoa,
            ValidationIssue::TooManyApexSoas,
            ValidationIssue::MissingApexNs,
            ValidationIssue::MissingNsAddress(n.clone()),
            ValidationIssue::MissingMxAddress(n.clone()),
            ValidationIssue::MissingGlue(n.clone()),
            ValidationIssue::DuplicateCname(&n),
            ValidationIssue::OtherRecordsAtCname(&n),
            ValidationIssue::NsAtWildcard(&n),
        ];
        for i in &all {
            l.tick();
            let r = issue_of(i);
            if i.is_error() == WARNINGS.contains(&r.kind) {
                l.violation(&format!("severity:{}", r.kind), json!({"issue": r.kind, "is_error": i.is_error()}));
            }
        }
    }
    ctx.set_extra(
        "families",
        Value::Array(
            families
                .iter()
                .enumerate()
                .map(|(i, f)| json!({"base": f.label, "apex": f.apex, "class": class_text(f.class), "glue_policy": policy_text(f.wide), "menu_records": menus[i].1.len(), "max_added_records": f.max, "zones": per_family[i].0.load(Ordering::Relaxed), "zones_with_undetermined_issue": per_family[i].1.load(Ordering::Relaxed)}))
                .collect(),
        ),
    );
    ctx.set_extra("zones_touching_an_oracle_decision", json!(DECISIONS.iter().enumerate().map(|(i, d)| json!({"decision": d, "zones": DECISION_ZONES[i].load(Ordering::Relaxed)})).collect::<Vec<_>>()));
    ctx.set_extra("menu", Value::Array(menu().iter().map(|i| materialize(i, c::IN, APEX).to_json()).collect()));
    ctx.set_extra(
        "oracle_decisions",
        json!([
            "every NS, MX and CNAME RRset stored in the zone is checked, including those below a zone cut (occluded): the statement and the module documentation speak of 'any' NS/MX records and say that occluded data is not treated specially",
            "a name 'has an address' if resolving it in the zone (RFC 1034 §4.3.2, RFC 4592 synthesis included) ends at a node owning A, or AAAA in class IN; in-zone means authoritative (not at or below a cut)",
            "address types exist for IN (A, AAAA) and CH (A); for other classes no address or glue issue is ever expected",
            "narrow policy: glue is required iff the topmost cut above the server is the owner of the NS RRset; when the owner is itself below another cut and the server is below the owner, MissingGlue is accepted either way",
            "an address found for a glue name only by wildcard synthesis below the cut: MissingGlue accepted either way",
            "a server or exchanger name synthesised from a wildcard that owns NS (semantics undefined by RFC 4592 §4.2): the address issue is accepted either way",
            "zones whose NS/MX RDATA is not a well-formed name may be answered with Err(InvalidRdata) (not covered by the statement); otherwise Err is a violation",
            "issues are compared as sets with names lower-cased",
            "every zone is validated twice: as the HashMapTreeZone itself and through a wrapper Zone implementation whose lookup_addrs fills in the AAAA RRset in every class; both must satisfy the reference",
        ]),
    );
    ctx.finish(
        "exploration",
        "zones = apex (t. | *.z. | q.*.z., menu names rewritten) x base (empty | healthy) + every subset of <= max_added_records from the menu, x glue policy {Narrow, Wide} x class {IN, CH, HS}; oracle = independent reference checker (required set must be reported, nothing outside required + undetermined may be reported, warnings exactly MissingMxAddress and NsAtWildcard); evaluations = zones validated",
        true,
    )
}
