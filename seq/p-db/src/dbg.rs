//! Reader for the text that `#[derive(Debug)]` produces (`{:?}`, not
//! pretty-printed), used to recover the *complete* internal state of
//! quandary's `HashMapTreeZone` / `HashMapTreeCatalog` — including tree nodes
//! that no public accessor shows — from their derived `Debug` output.
//!
//! Grammar accepted (enough for derived Debug plus the hand-written Debug
//! impls of `Name`, `Label`, `Rdata`, `Ttl`, `Type`, `Class`):
//!
//!   term   := string | atom [group] | group
//!   group  := '{' items '}' | '[' items ']' | '(' items ')'
//!   items  := [ item (',' item)* ]
//!   item   := term [ ':' term ]
//!   string := '"' any-octets-but-quote '"'     (quandary writes names and
//!             RDATA between quotes *without* escaping; the harness never uses
//!             a quote inside a name)
//!   atom   := run of characters other than `{}[](),:"` and blanks
//!
//! A `{}` group without a head is a `HashMap`/`HashSet` rendering: its item
//! order depends on the hasher, so `canon()` sorts the items of such groups.
//! Everything else keeps its order (Vec order is state).

#[derive(Clone, Debug, PartialEq, Eq)]
pub struct Dv<'a> {
    /// Identifier in front of a group (`Node`, `Some`, `Loaded`), or the atom
    /// / string itself for a leaf. Borrowed from the parsed text.
    pub head: &'a str,
    /// true if `head` was written between quotes.
    pub quoted: bool,
    /// 0 for a leaf, else the opening bracket.
    pub kind: u8,
    pub items: Vec<(Option<Dv<'a>>, Dv<'a>)>,
}

struct P<'a> {
    s: &'a str,
    b: &'a [u8],
    i: usize,
}

impl<'a> P<'a> {
    fn ws(&mut self) {
        while self.i < self.b.len() && self.b[self.i] == b' ' {
            self.i += 1;
        }
    }
    fn peek(&mut self) -> u8 {
        self.ws();
        if self.i < self.b.len() {
            self.b[self.i]
        } else {
            0
        }
    }
    fn term(&mut self) -> Result<Dv<'a>, String> {
        let c = self.peek();
        match c {
            b'"' => {
                let start = self.i + 1;
                let mut j = start;
                while j < self.b.len() && self.b[j] != b'"' {
                    j += 1;
                }
                if j >= self.b.len() {
                    return Err(format!("unterminated string at {}", self.i));
                }
                self.i = j + 1;
                Ok(Dv { head: &self.s[start..j], quoted: true, kind: 0, items: Vec::new() })
            }
            b'{' | b'[' | b'(' => self.group(""),
            0 => Err("unexpected end".into()),
            _ => {
                let start = self.i;
                while self.i < self.b.len() && !b"{}[](),:\" ".contains(&self.b[self.i]) {
                    self.i += 1;
                }
                if self.i == start {
                    return Err(format!("unexpected '{}' at {}", c as char, self.i));
                }
                let head = &self.s[start..self.i];
                match self.peek() {
                    b'{' | b'(' => self.group(head),
                    _ => Ok(Dv { head, quoted: false, kind: 0, items: Vec::new() }),
                }
            }
        }
    }
    fn group(&mut self, head: &'a str) -> Result<Dv<'a>, String> {
        let open = self.b[self.i];
        let close = match open {
            b'{' => b'}',
            b'[' => b']',
            _ => b')',
        };
        self.i += 1;
        let mut items = Vec::new();
        loop {
            if self.peek() == close {
                self.i += 1;
                break;
            }
            let first = self.term()?;
            if self.peek() == b':' {
                self.i += 1;
                let v = self.term()?;
                items.push((Some(first), v));
            } else {
                items.push((None, first));
            }
            match self.peek() {
                b',' => self.i += 1,
                x if x == close => {}
                x => return Err(format!("expected ',' or close at {}, found '{}'", self.i, x as char)),
            }
        }
        Ok(Dv { head, quoted: false, kind: open, items })
    }
}

pub fn parse(s: &str) -> Result<Dv<'_>, String> {
    let mut p = P { s, b: s.as_bytes(), i: 0 };
    let v = p.term()?;
    if p.peek() != 0 {
        return Err(format!("trailing text at {}", p.i));
    }
    Ok(v)
}

impl<'a> Dv<'a> {
    /// Field of a struct-like group.
    pub fn field(&self, name: &str) -> Option<&Dv<'a>> {
        self.items.iter().find(|(k, _)| k.as_ref().map(|k| k.head == name && k.kind == 0).unwrap_or(false)).map(|(_, v)| v)
    }

    /// Canonical text: like the input, but the items of head-less `{}` groups
    /// (hash maps / hash sets) are sorted.
    pub fn canon(&self) -> String {
        let mut s = String::new();
        self.canon_into(&mut s);
        s
    }

    fn canon_into(&self, out: &mut String) {
        if self.kind == 0 {
            if self.quoted {
                out.push('"');
                out.push_str(self.head);
                out.push('"');
            } else {
                out.push_str(self.head);
            }
            return;
        }
        out.push_str(self.head);
        let (o, c) = match self.kind {
            b'{' => ('{', '}'),
            b'[' => ('[', ']'),
            _ => ('(', ')'),
        };
        out.push(o);
        let mut parts: Vec<String> = self
            .items
            .iter()
            .map(|(k, v)| {
                let mut s = String::new();
                if let Some(k) = k {
                    k.canon_into(&mut s);
                    s.push(':');
                }
                v.canon_into(&mut s);
                s
            })
            .collect();
        if self.kind == b'{' && self.head.is_empty() {
            parts.sort();
        }
        for (i, p) in parts.iter().enumerate() {
            if i > 0 {
                out.push(',');
            }
            out.push_str(p);
        }
        out.push(c);
    }
}

/// One tree node as rendered by `hash_map_tree::node::Node`'s derived Debug:
/// `Node { name: "..", children: {"label": Node {..}, ..}, data: .. }`.
pub struct TreeNode<'a, 'b> {
    /// Label under which the parent's map holds this node (None for a root).
    pub key: Option<&'a str>,
    pub name: &'a str,
    #[allow(dead_code)]
    pub data: &'b Dv<'a>,
}

/// Walks a `Node { .. }` rendering depth-first and reports every node.
pub fn walk_nodes<'a, 'b>(node: &'b Dv<'a>, key: Option<&'a str>, out: &mut Vec<TreeNode<'a, 'b>>) -> Result<(), String> {
    if node.head != "Node" || node.kind != b'{' {
        return Err(format!("expected Node {{..}}, found head '{}'", node.head));
    }
    let name = node.field("name").ok_or("Node without name")?;
    let children = node.field("children").ok_or("Node without children")?;
    let data = node.field("data").ok_or("Node without data")?;
    out.push(TreeNode { key, name: name.head, data });
    for (k, v) in &children.items {
        let k = k.as_ref().ok_or("children map item without key")?;
        walk_nodes(v, Some(k.head), out)?;
    }
    Ok(())
}

#[cfg(test)]
mod tests {
    use super::*;
    #[test]
    fn parses_and_sorts() {
        let a = parse(r#"X { m: {"b": N { v: [2, 1] }, "a": N { v: ["\# 1 00"] }}, d: Some(L("a.", IN, 7)) }"#).unwrap();
        let b = parse(r#"X { m: {"a": N { v: ["\# 1 00"] }, "b": N { v: [2, 1] }}, d: Some(L("a.", IN, 7)) }"#).unwrap();
        assert_eq!(a.canon(), b.canon());
        assert!(a.canon().contains("[2,1]"));
    }
}

// ------------------------------------------------------------------------
// Allocation-light scanner for the same `Node { name, children, data }`
// rendering, used where the generic tree is too slow (C22's 20 M states).

/// One node found by `scan_node`: (label under which the parent holds it,
/// node name, verbatim text of its `data` field).
pub type RawNode<'a> = (Option<&'a str>, &'a str, &'a str);

fn expect<'a>(s: &'a str, pos: usize, lit: &str) -> Result<usize, String> {
    if s[pos..].starts_with(lit) {
        Ok(pos + lit.len())
    } else {
        Err(format!("expected `{lit}` at {pos}, found `{}`", &s[pos..(pos + 24).min(s.len())]))
    }
}

fn quoted<'a>(s: &'a str, pos: usize) -> Result<(&'a str, usize), String> {
    let p = expect(s, pos, "\"")?;
    match s[p..].find('"') {
        Some(n) => Ok((&s[p..p + n], p + n + 1)),
        None => Err(format!("unterminated string at {pos}")),
    }
}

/// Skips one balanced term (atoms, strings, nested groups) up to the next
/// top-level `,` / closing bracket / ` }`.
fn skip_term(s: &str, pos: usize) -> Result<usize, String> {
    let b = s.as_bytes();
    let mut depth = 0usize;
    let mut i = pos;
    while i < b.len() {
        match b[i] {
            b'"' => {
                i += 1;
                while i < b.len() && b[i] != b'"' {
                    i += 1;
                }
            }
            b'{' | b'[' | b'(' => depth += 1,
            b'}' | b']' | b')' => {
                if depth == 0 {
                    return Ok(i);
                }
                depth -= 1;
            }
            b',' if depth == 0 => return Ok(i),
            b' ' if depth == 0 && b.get(i + 1) == Some(&b'}') => return Ok(i),
            _ => {}
        }
        i += 1;
    }
    Err("unbalanced term".into())
}

/// Parses `Node { name: "..", children: {..}, data: .. }` at `pos`, pushing
/// every node of the subtree; returns the position after the closing brace.
pub fn scan_node<'a>(s: &'a str, pos: usize, key: Option<&'a str>, out: &mut Vec<RawNode<'a>>) -> Result<usize, String> {
    let p = expect(s, pos, "Node { name: ")?;
    let (name, p) = quoted(s, p)?;
    let mut p = expect(s, p, ", children: {")?;
    let slot = out.len();
    out.push((key, name, ""));
    loop {
        if s[p..].starts_with('}') {
            p += 1;
            break;
        }
        let (label, q) = quoted(s, p)?;
        let q = expect(s, q, ": ")?;
        p = scan_node(s, q, Some(label), out)?;
        if s[p..].starts_with(", ") {
            p += 2;
        }
    }
    let p = expect(s, p, ", data: ")?;
    let e = skip_term(s, p)?;
    out[slot].2 = &s[p..e];
    expect(s, e, " }")
}

#[cfg(test)]
mod scan_tests {
    use super::*;
    #[test]
    fn scans() {
        let t = r#"Node { name: ".", children: {"a": Node { name: "a.", children: {}, data: Some(NotYetLoaded("a.", IN, 7)) }, "b": Node { name: "b.", children: {}, data: None }}, data: None }"#;
        let mut v = Vec::new();
        let end = scan_node(t, 0, None, &mut v).unwrap();
        assert_eq!(end, t.len());
        assert_eq!(v.len(), 3);
        assert_eq!(v[1], (Some("a"), "a.", r#"Some(NotYetLoaded("a.", IN, 7))"#));
        assert_eq!(v[2].2, "None");
    }
}
