//! Reference model shared by C14 and C16. Written from RFC 1035 §3.1, §4.1.4,
//! §5.1, RFC 4343 §2.1 and RFC 4034 §6.1; it never calls quandary.
//!
//! A domain name is a plain `Vec<Vec<u8>>`: the non-root labels, leftmost
//! first. The root name is the empty vector.

use std::cmp::Ordering;

pub type Labels = Vec<Vec<u8>>;

pub const MAX_LABEL: usize = 63;
pub const MAX_NAME: usize = 255;

// ------------------------------------------------------------------ basics

/// Wire length (RFC 1035 §3.1): one length octet per label plus the root.
pub fn wire_len(n: &[Vec<u8>]) -> usize {
    n.iter().map(|l| 1 + l.len()).sum::<usize>() + 1
}

pub fn valid(n: &[Vec<u8>]) -> bool {
    n.iter().all(|l| !l.is_empty() && l.len() <= MAX_LABEL) && wire_len(n) <= MAX_NAME
}

pub fn to_wire(n: &[Vec<u8>]) -> Vec<u8> {
    let mut w = Vec::with_capacity(wire_len(n));
    for l in n {
        w.push(l.len() as u8);
        w.extend_from_slice(l);
    }
    w.push(0);
    w
}

/// Offsets of every label (the root included) in the wire form.
pub fn label_offsets(n: &[Vec<u8>]) -> Vec<usize> {
    let mut out = Vec::with_capacity(n.len() + 1);
    let mut o = 0;
    for l in n {
        out.push(o);
        o += 1 + l.len();
    }
    out.push(o);
    out
}

fn lc(b: u8) -> u8 {
    if (b'A'..=b'Z').contains(&b) {
        b + 32
    } else {
        b
    }
}

pub fn lower(n: &[Vec<u8>]) -> Labels {
    n.iter().map(|l| l.iter().map(|b| lc(*b)).collect()).collect()
}

pub fn label_eq(a: &[u8], b: &[u8]) -> bool {
    a.len() == b.len() && a.iter().zip(b).all(|(x, y)| lc(*x) == lc(*y))
}

/// Equality: same number of labels, each pair equal ignoring ASCII case.
pub fn name_eq(a: &[Vec<u8>], b: &[Vec<u8>]) -> bool {
    a.len() == b.len() && a.iter().zip(b).all(|(x, y)| label_eq(x, y))
}

/// RFC 4034 §6.1 label order: unsigned left-justified octet strings,
/// upper-case US-ASCII letters treated as lower-case; absence of an octet
/// sorts before a zero octet.
pub fn label_cmp(a: &[u8], b: &[u8]) -> Ordering {
    let la: Vec<u8> = a.iter().map(|x| lc(*x)).collect();
    let lb: Vec<u8> = b.iter().map(|x| lc(*x)).collect();
    la.cmp(&lb)
}

/// RFC 4034 §6.1 canonical name order: sort by the most significant
/// (rightmost) label first; a name that is a proper suffix sorts first.
pub fn name_cmp(a: &[Vec<u8>], b: &[Vec<u8>]) -> Ordering {
    let mut i = a.len();
    let mut j = b.len();
    while i > 0 && j > 0 {
        i -= 1;
        j -= 1;
        match label_cmp(&a[i], &b[j]) {
            Ordering::Equal => {}
            o => return o,
        }
    }
    // One ran out: the shorter (the ancestor) sorts first.
    a.len().cmp(&b.len())
}

/// `a` equals `b` or lies below it.
pub fn eq_or_subdomain(a: &[Vec<u8>], b: &[Vec<u8>]) -> bool {
    a.len() >= b.len() && name_eq(&a[a.len() - b.len()..], b)
}

/// Name left after removing the first `skip` labels. The root counts as a
/// label (quandary's `len()` counts it), so `skip == labels` yields the root
/// and anything larger yields `None`.
pub fn superdomain(n: &[Vec<u8>], skip: usize) -> Option<Labels> {
    if skip <= n.len() {
        Some(n[skip..].to_vec())
    } else {
        None
    }
}

// ----------------------------------------------------------- text (§5.1)

/// Master-file text of one label: `.` and `\` get a backslash, printable
/// ASCII (0x21..=0x7e) is literal, everything else is `\DDD`.
pub fn label_text(l: &[u8]) -> String {
    let mut s = String::new();
    for &b in l {
        match b {
            b'.' => s.push_str("\\."),
            b'\\' => s.push_str("\\\\"),
            0x21..=0x7e => s.push(b as char),
            _ => {
                s.push('\\');
                s.push((b'0' + b / 100) as char);
                s.push((b'0' + (b / 10) % 10) as char);
                s.push((b'0' + b % 10) as char);
            }
        }
    }
    s
}

pub fn name_text(n: &[Vec<u8>]) -> String {
    if n.is_empty() {
        return ".".to_string();
    }
    let mut s = String::new();
    for l in n {
        s.push_str(&label_text(l));
        s.push('.');
    }
    s
}

#[derive(Clone, Copy, Debug, PartialEq, Eq)]
pub enum TextErr {
    Empty,
    NotAscii,
    BadEscape,
    EmptyLabel,
    NotAbsolute,
    LabelTooLong,
    NameTooLong,
}

/// Independent parser of the text form of an absolute domain name.
///
/// Two passes: tokenise the whole string into label octets and separators,
/// then judge the structure. Accepts exactly: "." or one or more non-empty
/// labels each followed by an unescaped dot, every label <= 63 octets, wire
/// length <= 255, ASCII only, escapes `\DDD` (000..255) or `\c` (c not a
/// digit).
pub fn parse_text(s: &str) -> Result<Labels, TextErr> {
    if s.is_empty() {
        return Err(TextErr::Empty);
    }
    if !s.is_ascii() {
        return Err(TextErr::NotAscii);
    }
    #[derive(PartialEq)]
    enum Tok {
        Octet(u8),
        Dot,
    }
    let b = s.as_bytes();
    let mut toks = Vec::new();
    let mut i = 0;
    while i < b.len() {
        if b[i] == b'\\' {
            let rest = &b[i + 1..];
            if rest.is_empty() {
                return Err(TextErr::BadEscape);
            }
            if rest[0].is_ascii_digit() {
                if rest.len() < 3 || !rest[1].is_ascii_digit() || !rest[2].is_ascii_digit() {
                    return Err(TextErr::BadEscape);
                }
                let v = std::str::from_utf8(&rest[..3]).unwrap().parse::<u32>().unwrap();
                if v > 255 {
                    return Err(TextErr::BadEscape);
                }
                toks.push(Tok::Octet(v as u8));
                i += 4;
            } else {
                toks.push(Tok::Octet(rest[0]));
                i += 2;
            }
        } else if b[i] == b'.' {
            toks.push(Tok::Dot);
            i += 1;
        } else {
            toks.push(Tok::Octet(b[i]));
            i += 1;
        }
    }
    if toks.len() == 1 && toks[0] == Tok::Dot {
        return Ok(vec![]);
    }
    let mut labels: Labels = Vec::new();
    let mut cur: Vec<u8> = Vec::new();
    for t in &toks {
        match t {
            Tok::Octet(o) => cur.push(*o),
            Tok::Dot => {
                if cur.is_empty() {
                    return Err(TextErr::EmptyLabel);
                }
                labels.push(std::mem::take(&mut cur));
            }
        }
    }
    // Limits are judged on everything written, complete or not, so that an
    // over-long relative name is also "too long"; only Ok/Err is compared.
    let mut all = labels.clone();
    if !cur.is_empty() {
        all.push(cur.clone());
    }
    if all.iter().any(|l| l.len() > MAX_LABEL) {
        return Err(TextErr::LabelTooLong);
    }
    if wire_len(&all) > MAX_NAME {
        return Err(TextErr::NameTooLong);
    }
    if !cur.is_empty() {
        return Err(TextErr::NotAbsolute);
    }
    Ok(labels)
}

// ------------------------------------------------- wire decoding (§4.1.4)

#[derive(Clone, Copy, Debug, PartialEq, Eq)]
pub enum WireErr {
    /// The buffer ends inside the name.
    Eom,
    /// Length octet 64..=191 (label longer than 63 / reserved label types).
    BadLabel,
    /// More than 255 octets.
    TooLong,
    /// Pointer not strictly backwards (target >= start of its chunk).
    BadPointer,
    /// Octets remain after the name (the `_all` variants only).
    Extra,
}

enum Term {
    Root,
    Pointer(usize),
}

/// One contiguous chunk: literal labels up to a root label or a pointer.
struct Chunk {
    labels: Labels,
    term: Term,
    len: usize,
}

fn read_chunk(msg: &[u8], at: usize) -> Result<Chunk, WireErr> {
    let mut labels = Vec::new();
    let mut p = at;
    loop {
        if p >= msg.len() {
            return Err(WireErr::Eom);
        }
        let o = msg[p] as usize;
        match o >> 6 {
            0b11 => {
                if p + 1 >= msg.len() {
                    return Err(WireErr::Eom);
                }
                let target = ((o & 0x3f) << 8) | msg[p + 1] as usize;
                return Ok(Chunk { labels, term: Term::Pointer(target), len: p + 2 - at });
            }
            0b00 => {
                if o == 0 {
                    return Ok(Chunk { labels, term: Term::Root, len: p + 1 - at });
                }
                if p + 1 + o > msg.len() {
                    return Err(WireErr::Eom);
                }
                labels.push(msg[p + 1..p + 1 + o].to_vec());
                p += 1 + o;
            }
            _ => return Err(WireErr::BadLabel),
        }
    }
}

pub struct Decoded {
    pub name: Labels,
    pub first_chunk_len: usize,
    pub pointers: usize,
}

/// Decodes the possibly compressed name at `msg[start..]`. A pointer must
/// target an offset strictly before the start of the chunk containing it
/// (DESIGN.md §7a); chunk starts therefore decrease strictly and the walk
/// terminates.
pub fn decode_compressed(msg: &[u8], start: usize) -> Result<Decoded, WireErr> {
    let mut name: Labels = Vec::new();
    let mut total = 0usize; // octets of the labels so far, length octets included
    let mut at = start;
    let mut first = None;
    let mut pointers = 0;
    loop {
        let c = read_chunk(msg, at)?;
        total += c.labels.iter().map(|l| 1 + l.len()).sum::<usize>();
        if total + 1 > MAX_NAME {
            return Err(WireErr::TooLong);
        }
        name.extend(c.labels);
        if first.is_none() {
            first = Some(c.len);
        }
        match c.term {
            Term::Root => {
                return Ok(Decoded { name, first_chunk_len: first.unwrap(), pointers });
            }
            Term::Pointer(t) => {
                if t >= at {
                    return Err(WireErr::BadPointer);
                }
                pointers += 1;
                at = t;
            }
        }
    }
}

/// What `skip_compressed` must do, by the first chunk alone: every label of
/// the chunk <= 63 and inside the buffer, the terminator (root octet or both
/// pointer octets) inside the buffer, and the smallest name the chunk can
/// belong to (its labels plus a root) within 255 octets. Returns the chunk
/// length.
pub fn skip_first_chunk(buf: &[u8]) -> Result<usize, WireErr> {
    let c = read_chunk(buf, 0)?;
    let labels: usize = c.labels.iter().map(|l| 1 + l.len()).sum();
    if labels + 1 > MAX_NAME {
        return Err(WireErr::TooLong);
    }
    Ok(c.len)
}

/// Uncompressed name at the start of `buf` (no pointers allowed: a pointer
/// octet is an invalid label length here). `all`: nothing may follow.
pub fn decode_uncompressed(buf: &[u8], all: bool) -> Result<(Labels, usize), WireErr> {
    let mut labels = Vec::new();
    let mut p = 0;
    loop {
        if p >= buf.len() {
            // Ran off the end; if what we have is already over-long both
            // errors apply, acceptance is the same.
            return Err(if p > MAX_NAME { WireErr::TooLong } else { WireErr::Eom });
        }
        let o = buf[p] as usize;
        if o > MAX_LABEL {
            return Err(WireErr::BadLabel);
        }
        if o == 0 {
            p += 1;
            break;
        }
        if p + 1 + o > buf.len() {
            return Err(if p + 1 + o > MAX_NAME { WireErr::TooLong } else { WireErr::Eom });
        }
        labels.push(buf[p + 1..p + 1 + o].to_vec());
        p += 1 + o;
    }
    if p > MAX_NAME {
        return Err(WireErr::TooLong);
    }
    if all && p != buf.len() {
        return Err(WireErr::Extra);
    }
    Ok((labels, p))
}

// ------------------------------------------------------ builder model

/// Model of a label-by-label name builder: `labels` are the finished labels,
/// `cur` the label being written (empty = the name currently ends in the
/// null label, i.e. is fully qualified).
#[derive(Clone, Debug, Default)]
pub struct BuilderModel {
    pub labels: Labels,
    pub cur: Vec<u8>,
}

#[derive(Clone, Copy, Debug, PartialEq, Eq)]
pub enum BuildErr {
    LabelTooLong,
    NameTooLong,
    NullNonTerminal,
    NonNullTerminal,
}

impl BuilderModel {
    /// Octets used so far: finished labels with their length octets, plus
    /// the length octet and content of the current label. The current
    /// label's length octet doubles as the root octet when `cur` is empty.
    fn used(&self) -> usize {
        self.labels.iter().map(|l| 1 + l.len()).sum::<usize>() + 1 + self.cur.len()
    }

    pub fn fully_qualified(&self) -> bool {
        self.cur.is_empty()
    }

    /// Appends octets to the current label; all or nothing.
    pub fn push(&mut self, octets: &[u8]) -> Result<(), BuildErr> {
        if self.cur.len() + octets.len() > MAX_LABEL {
            return Err(BuildErr::LabelTooLong);
        }
        if self.used() + octets.len() > MAX_NAME {
            return Err(BuildErr::NameTooLong);
        }
        self.cur.extend_from_slice(octets);
        Ok(())
    }

    pub fn next_label(&mut self) -> Result<(), BuildErr> {
        if self.cur.is_empty() {
            return Err(BuildErr::NullNonTerminal);
        }
        // The new (so far null) label needs its own length octet.
        if self.used() + 1 > MAX_NAME {
            return Err(BuildErr::NameTooLong);
        }
        self.labels.push(std::mem::take(&mut self.cur));
        Ok(())
    }

    pub fn finish(&self) -> Result<Labels, BuildErr> {
        if !self.cur.is_empty() {
            return Err(BuildErr::NonNullTerminal);
        }
        Ok(self.labels.clone())
    }

    pub fn finish_with_suffix(&self, suffix: &[Vec<u8>]) -> Result<Labels, BuildErr> {
        if self.cur.is_empty() {
            return Err(BuildErr::NullNonTerminal);
        }
        let mut n = self.labels.clone();
        n.push(self.cur.clone());
        n.extend(suffix.iter().cloned());
        if wire_len(&n) > MAX_NAME {
            return Err(BuildErr::NameTooLong);
        }
        Ok(n)
    }
}

// ------------------------------------------------------------ self test

/// Sanity checks of the model on RFC examples; a failure is a machinery
/// error (exit 2), never a verdict.
pub fn self_test() {
    fn n(s: &str) -> Labels {
        parse_text(s).unwrap_or_else(|e| panic!("model self-test: {s:?}: {e:?}"))
    }
    // RFC 4034 §6.1 example order.
    let order = [
        "example.", "a.example.", "yljkjljk.a.example.", "Z.a.example.", "zABC.a.EXAMPLE.",
        "z.example.", "\\001.z.example.", "*.z.example.", "\\200.z.example.",
    ];
    for i in 0..order.len() {
        for j in 0..order.len() {
            assert_eq!(name_cmp(&n(order[i]), &n(order[j])), i.cmp(&j), "model order {i} {j}");
        }
    }
    // RFC 1035 §4.1.4 example: F.ISI.ARPA at 20, FOO.F.ISI.ARPA at 40, ARPA at 64, root at 92.
    let mut m = vec![0u8; 93];
    m[20..32].copy_from_slice(b"\x01F\x03ISI\x04ARPA\x00");
    m[40..46].copy_from_slice(b"\x03FOO\xc0\x14");
    m[64..66].copy_from_slice(b"\xc0\x1a");
    m[92] = 0;
    let d = decode_compressed(&m, 40).unwrap();
    assert_eq!(name_text(&d.name), "FOO.F.ISI.ARPA.");
    assert_eq!(d.first_chunk_len, 6);
    let d = decode_compressed(&m, 64).unwrap();
    assert_eq!((name_text(&d.name).as_str(), d.first_chunk_len), ("ARPA.", 2));
    assert_eq!(decode_compressed(&m, 92).unwrap().name.len(), 0);
    assert!(decode_compressed(b"\xc0\x00", 0).is_err());
    assert_eq!(name_text(&n("\\000.\\\\\\..")), "\\000.\\\\\\..");
    assert_eq!(to_wire(&n("\\000.\\\\\\..")), b"\x01\x00\x02\\.\x00");
    assert!(parse_text("a..").is_err() && parse_text("a").is_err() && parse_text("\\256.").is_err());
    assert!(name_eq(&n("aB."), &n("Ab.")) && !name_eq(&n("a.b."), &n("ab.")));
}
