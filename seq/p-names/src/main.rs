//! p-names: C14 (wire-format name decoding) and C16 (text form, equality,
//! ordering of names). One binary, dispatching on the property id.

mod c14;
mod c16;
mod model;
mod watchdog;

fn main() {
    let ctx = qvlib::Ctx::from_args(&["C14", "C16"]);
    match ctx.id.as_str() {
        "C14" => c14::run(ctx),
        _ => c16::run(ctx),
    }
}
