//! Non-termination watchdog. The code under test is called on the worker
//! threads; a call that never returns cannot be caught like a panic. Every
//! worker publishes the case it is about to run in its own slot and bumps a
//! counter; a monitor thread reports a violation (replay file, VIOLATION
//! line, exit 1) when a worker has been inside the same case for longer than
//! the limit. The limit is generous (the slowest legitimate case takes
//! microseconds) so that a heavily loaded machine does not trip it.

use qvlib::{hex, json, Value};
use std::sync::atomic::{AtomicBool, AtomicU64, AtomicUsize, Ordering};
use std::sync::{Arc, Mutex, OnceLock};
use std::time::{Duration, Instant};

pub struct Slot {
    seq: AtomicU64,
    active: AtomicBool,
    start: AtomicUsize,
    buf: Mutex<(String, Vec<u8>)>,
}

fn registry() -> &'static Mutex<Vec<Arc<Slot>>> {
    static R: OnceLock<Mutex<Vec<Arc<Slot>>>> = OnceLock::new();
    R.get_or_init(|| Mutex::new(Vec::new()))
}

thread_local! {
    static SLOT: Arc<Slot> = {
        let s = Arc::new(Slot { seq: AtomicU64::new(0), active: AtomicBool::new(false), start: AtomicUsize::new(0), buf: Mutex::new((String::new(), Vec::new())) });
        registry().lock().unwrap().push(s.clone());
        s
    };
}

/// Publishes the buffer the calling worker is going to work on.
pub fn enter_buffer(fam: &str, buf: &[u8]) {
    SLOT.with(|s| {
        let mut g = s.buf.lock().unwrap();
        if g.0 != fam {
            g.0.clear();
            g.0.push_str(fam);
        }
        g.1.clear();
        g.1.extend_from_slice(buf);
        s.seq.fetch_add(1, Ordering::Relaxed);
        s.active.store(true, Ordering::Relaxed);
    });
}

/// Publishes the start offset about to be evaluated.
#[inline]
pub fn enter_start(start: usize) {
    SLOT.with(|s| {
        s.start.store(start, Ordering::Relaxed);
        s.seq.fetch_add(1, Ordering::Relaxed);
    });
}

pub fn leave() {
    SLOT.with(|s| s.active.store(false, Ordering::Relaxed));
}

/// Starts the monitor thread (once per process).
pub fn spawn_monitor(property: &'static str, limit: Duration) {
    std::thread::spawn(move || {
        let mut last: Vec<(u64, Instant)> = Vec::new();
        // A stall must persist over this many of the monitor's own polls as
        // well as over `limit` of wall time: a frozen VM or a starved machine
        // stops the monitor together with the workers and must not count.
        let need_polls = (limit.as_millis() / 200) as u32;
        let mut polls: Vec<u32> = Vec::new();
        loop {
            std::thread::sleep(Duration::from_millis(200));
            let slots: Vec<Arc<Slot>> = registry().lock().unwrap().clone();
            last.resize(slots.len(), (u64::MAX, Instant::now()));
            polls.resize(slots.len(), 0);
            for (i, s) in slots.iter().enumerate() {
                let seq = s.seq.load(Ordering::Relaxed);
                if !s.active.load(Ordering::Relaxed) || seq != last[i].0 {
                    last[i] = (seq, Instant::now());
                    polls[i] = 0;
                    continue;
                }
                polls[i] += 1;
                if last[i].1.elapsed() >= limit && polls[i] >= need_polls {
                    let g = s.buf.lock().unwrap();
                    let case = json!({"fam": g.0, "buf": hex(&g.1), "start": s.start.load(Ordering::Relaxed), "fn": "(a call did not return)", "expected": "terminates", "got": format!("no progress for {:.1}s", limit.as_secs_f64())});
                    report_and_exit(property, "nontermination", case);
                }
            }
        }
    });
}

fn report_and_exit(property: &str, key: &str, case: Value) -> ! {
    let dir = qvlib::runner::verif_dir().join("replays").join(property);
    let _ = std::fs::create_dir_all(&dir);
    let path = dir.join("hang.json");
    let doc = json!({"property": property, "key": key, "occurrences": 1, "case": case});
    let _ = std::fs::write(&path, serde_json_pretty(&doc));
    println!("VIOLATION property={property} replay={} key={key} occurrences=1", path.display());
    eprintln!("[{property}] a call into the library did not return; run aborted by the watchdog");
    std::process::exit(1);
}

fn serde_json_pretty(v: &Value) -> String {
    // qvlib re-exports serde_json's Value; Display with {:#} pretty-prints.
    format!("{v:#}\n")
}
