//! C16 — text form, equality, hashing, ordering, subdomain tests, label
//! access, lower-casing and NameBuilder agree with a plain reference model
//! (`model`: names as `Vec<Vec<u8>>`).
//!
//! Families (all exhaustive over an explicit finite space):
//!  names    every name of <= 3 labels of <= 2 octets over 10 awkward octets
//!  pairs    every ordered pair of the names of <= 2 labels of <= 2 octets
//!           over a case-boundary alphabet (+ long/boundary names), every
//!           ordered pair of their labels, every triple of a subset
//!  text     every string of <= N characters over {a . \ 0 2 5 9 é}
//!  boundary label-length vectors around 63 / 255 / 127 labels, through
//!           FromStr (3 renderings), wire parsing and NameBuilder
//!  builder  every NameBuilder operation history up to a depth, x finishers

use crate::model::{self, BuildErr, BuilderModel, Labels, TextErr};
use qvlib::{catch, hex, json, panic_key, unhex, Ctx, Local, Value};
use quandary::name::{Error, Label, LabelBuf, LowercaseName, Name, NameBuilder};
use std::cmp::Ordering;
use std::collections::hash_map::DefaultHasher;
use std::convert::TryFrom;
use std::hash::{Hash, Hasher};
use std::sync::atomic::{AtomicU64, Ordering as AO};

fn ek(e: Error) -> &'static str {
    match e {
        Error::ExtraData => "ExtraData",
        Error::InvalidEscape => "InvalidEscape",
        Error::InvalidPointer => "InvalidPointer",
        Error::LabelTooLong => "LabelTooLong",
        Error::NameTooLong => "NameTooLong",
        Error::NonNullTerminal => "NonNullTerminal",
        Error::NullNonTerminal => "NullNonTerminal",
        Error::StrEmpty => "StrEmpty",
        Error::StrNotAscii => "StrNotAscii",
        Error::UnexpectedEom => "UnexpectedEom",
    }
}

fn labels_json(n: &[Vec<u8>]) -> Value {
    json!(n.iter().map(|l| hex(l)).collect::<Vec<_>>())
}

fn labels_from_json(v: &Value) -> Labels {
    v.as_array().map(|a| a.iter().map(|x| unhex(x.as_str().unwrap_or(""))).collect()).unwrap_or_default()
}

fn hash_of<T: Hash + ?Sized>(x: &T) -> u64 {
    let mut h = DefaultHasher::new();
    x.hash(&mut h);
    h.finish()
}

/// Builds the library's Name for a (valid) reference name from its wire form.
fn mk(n: &[Vec<u8>]) -> Result<Box<Name>, String> {
    let w = model::to_wire(n);
    match catch(|| Name::try_from_uncompressed_all(&w)) {
        Ok(Ok(x)) => Ok(x),
        Ok(Err(e)) => Err(format!("Err({})", ek(e))),
        Err(p) => Err(p),
    }
}

// =================================================================== names

/// Everything that can be asked of a single valid name.
fn check_name(l: &mut Local, fam: &str, n: &Labels) {
    l.tick();
    let case = |what: &str, exp: Value, got: Value| json!({"kind": "name", "fam": fam, "labels": labels_json(n), "what": what, "expected": exp, "got": got});
    macro_rules! bad {
        ($key:expr, $what:expr, $exp:expr, $got:expr) => {{
            l.violation($key, case($what, json!($exp), json!($got)));
        }};
    }
    let r = catch(|| check_name_inner(n));
    match r {
        Err(p) => bad!(&format!("name:{}", panic_key(&p)), "panic", "no panic", p),
        Ok(Err((key, what, exp, got))) => bad!(&format!("name:{key}"), &what, exp, got),
        Ok(Ok(class)) => l.outcome(&class, || json!({"labels": labels_json(n), "text": model::name_text(n)})),
    }
}

type Fail = (&'static str, String, String, String);

fn fail<T>(key: &'static str, what: &str, exp: impl std::fmt::Debug, got: impl std::fmt::Debug) -> Result<T, Fail> {
    Err((key, what.to_string(), format!("{exp:?}"), format!("{got:?}")))
}

fn check_name_inner(n: &Labels) -> Result<String, Fail> {
    let wire = model::to_wire(n);
    let name = match Name::try_from_uncompressed_all(&wire) {
        Ok(x) => x,
        Err(e) => return fail("construct", "try_from_uncompressed_all(valid wire)", "Ok", ek(e)),
    };
    if name.wire_repr() != &wire[..] {
        return fail("wire", "wire_repr", hex(&wire), hex(name.wire_repr()));
    }

    // ---- text round trip
    let text = name.to_string();
    match model::parse_text(&text) {
        Ok(p) if p == *n => {}
        other => return fail("display", &format!("Display output {text:?} read by the reference parser"), n, other),
    }
    match text.parse::<Box<Name>>() {
        Ok(back) if back.wire_repr() == &wire[..] => {}
        Ok(back) => return fail("roundtrip", &format!("parse(Display) of {text:?}"), hex(&wire), hex(back.wire_repr())),
        Err(e) => return fail("roundtrip", &format!("parse(Display) of {text:?}"), "Ok", ek(e)),
    }
    let mtext = model::name_text(n);
    match mtext.parse::<Box<Name>>() {
        Ok(back) if back.wire_repr() == &wire[..] => {}
        Ok(back) => return fail("parse-ref-text", &format!("parse of reference rendering {mtext:?}"), hex(&wire), hex(back.wire_repr())),
        Err(e) => return fail("parse-ref-text", &format!("parse of reference rendering {mtext:?}"), "Ok", ek(e)),
    }
    if format!("{name:?}") != format!("\"{text}\"") {
        return fail("debug", "Debug = quoted Display", &text, format!("{name:?}"));
    }

    // ---- counts, label access
    if name.len() != n.len() + 1 {
        return fail("len", "len()", n.len() + 1, name.len());
    }
    if name.is_root() != n.is_empty() {
        return fail("is_root", "is_root()", n.is_empty(), name.is_root());
    }
    let wild = n.first().map(|l| l == b"*").unwrap_or(false);
    if name.is_wildcard() != wild {
        return fail("is_wildcard", "is_wildcard()", wild, name.is_wildcard());
    }
    let mut with_root: Vec<&[u8]> = n.iter().map(|l| &l[..]).collect();
    with_root.push(&[]);
    let fwd: Vec<&[u8]> = name.labels().map(|l| l.octets()).collect();
    if fwd != with_root {
        return fail("labels", "labels()", &with_root, &fwd);
    }
    let mut back: Vec<&[u8]> = name.labels().rev().map(|l| l.octets()).collect();
    back.reverse();
    if back != with_root {
        return fail("labels", "labels().rev()", &with_root, &back);
    }
    if name.labels().len() != with_root.len() {
        return fail("labels", "labels().len()", with_root.len(), name.labels().len());
    }
    // meet-in-the-middle iteration
    {
        let mut it = name.labels();
        let mut seen = 0;
        loop {
            let a = it.next();
            if a.is_some() {
                seen += 1;
            }
            let b = it.next_back();
            if b.is_some() {
                seen += 1;
            }
            if a.is_none() && b.is_none() {
                break;
            }
        }
        if seen != with_root.len() {
            return fail("labels", "alternating next/next_back count", with_root.len(), seen);
        }
    }
    let offs = model::label_offsets(n);
    for (i, exp) in with_root.iter().enumerate() {
        let lab: &Label = &name[i];
        if lab.octets() != *exp || lab.len() != exp.len() || lab.is_null() != exp.is_empty() || lab.is_asterisk() != (*exp == b"*") {
            return fail("index", &format!("name[{i}] octets/len/is_null/is_asterisk"), hex(exp), hex(lab.octets()));
        }
        // Label text, LabelBuf, <&Label>::try_from
        let lt = lab.to_string();
        if !exp.is_empty() {
            match model::parse_text(&format!("{lt}.")) {
                Ok(p) if p.len() == 1 && p[0] == *exp => {}
                other => return fail("label-display", &format!("Label Display {lt:?}"), hex(exp), other),
            }
        } else if !lt.is_empty() {
            return fail("label-display", "null label Display", "", lt);
        }
        let lb = match LabelBuf::try_from(*exp) {
            Ok(x) => x,
            Err(e) => return fail("labelbuf", "LabelBuf::try_from", "Ok", ek(e)),
        };
        if lb.octets() != *exp || lb.to_string() != lt || lab.to_owned().octets() != *exp || format!("{lb:?}") != format!("{lab:?}") {
            return fail("labelbuf", "LabelBuf octets/Display/to_owned", hex(exp), hex(lb.octets()));
        }
        if *lb != *lab || hash_of(&lb) != hash_of(lab) || lb.cmp(&lab.to_owned()) != Ordering::Equal {
            return fail("labelbuf", "LabelBuf == / hash / cmp with its Label", "equal", "different");
        }
        match <&Label>::try_from(*exp) {
            Ok(x) if x.octets() == *exp => {}
            _ => return fail("label-try-from", "<&Label>::try_from", hex(exp), "differs"),
        }
        // wire slices
        if name.wire_repr_to(i) != &wire[..offs[i]] {
            return fail("wire_repr_to", &format!("wire_repr_to({i})"), hex(&wire[..offs[i]]), hex(name.wire_repr_to(i)));
        }
        if name.wire_repr_from(i) != &wire[offs[i]..] {
            return fail("wire_repr_from", &format!("wire_repr_from({i})"), hex(&wire[offs[i]..]), hex(name.wire_repr_from(i)));
        }
    }
    let nl = with_root.len();
    if name.wire_repr_to(nl) != &wire[..] || !name.wire_repr_from(nl).is_empty() {
        return fail("wire_repr_to", "wire_repr_to/from(len)", hex(&wire), hex(name.wire_repr_to(nl)));
    }

    // ---- superdomains and subdomain tests
    for skip in 0..=nl + 1 {
        let exp = model::superdomain(n, skip);
        let got = name.superdomain(skip);
        match (&exp, &got) {
            (None, None) => {}
            (Some(e), Some(g)) => {
                let ew = model::to_wire(e);
                if g.wire_repr() != &ew[..] || g.len() != e.len() + 1 {
                    return fail("superdomain", &format!("superdomain({skip})"), hex(&ew), hex(g.wire_repr()));
                }
                for (i, lab) in e.iter().enumerate() {
                    if g[i].octets() != &lab[..] {
                        return fail("superdomain", &format!("superdomain({skip})[{i}]"), hex(lab), hex(g[i].octets()));
                    }
                }
                if !name.eq_or_subdomain_of(g) {
                    return fail("subdomain", &format!("eq_or_subdomain_of(superdomain({skip}))"), true, false);
                }
                if g.eq_or_subdomain_of(&name) != (skip == 0) {
                    return fail("subdomain", &format!("superdomain({skip}).eq_or_subdomain_of(self)"), skip == 0, skip != 0);
                }
                if (**g == *name) != (skip == 0) {
                    return fail("eq", &format!("superdomain({skip}) == self"), skip == 0, skip != 0);
                }
            }
            _ => return fail("superdomain", &format!("superdomain({skip})"), exp.as_ref().map(|e| hex(&model::to_wire(e))), got.as_ref().map(|g| hex(g.wire_repr()))),
        }
    }
    if !name.eq_or_subdomain_of(Name::root()) {
        return fail("subdomain", "eq_or_subdomain_of(root)", true, false);
    }

    // ---- lower-casing
    let lwire = model::to_wire(&model::lower(n));
    let mut lc = name.clone();
    lc.make_ascii_lowercase();
    if lc.wire_repr() != &lwire[..] || lc.len() != name.len() {
        return fail("lowercase", "make_ascii_lowercase", hex(&lwire), hex(lc.wire_repr()));
    }
    let ln: Box<LowercaseName> = name.clone().into();
    if ln.wire_repr() != &lwire[..] {
        return fail("lowercase", "Box<LowercaseName>::from", hex(&lwire), hex(ln.wire_repr()));
    }
    match text.parse::<Box<LowercaseName>>() {
        Ok(x) if x.wire_repr() == &lwire[..] => {}
        Ok(x) => return fail("lowercase", "LowercaseName::from_str", hex(&lwire), hex(x.wire_repr())),
        Err(e) => return fail("lowercase", "LowercaseName::from_str", "Ok", ek(e)),
    }
    let ln_ref: &Name = &ln;
    if *ln_ref != *name || hash_of(ln_ref) != hash_of(&*name) || hash_of(&*ln) != hash_of(&*name) || ln_ref.cmp(&name) != Ordering::Equal || *lc != *name {
        return fail("case-insensitive", "lower-cased name ==/hash/cmp original", "equal", "different");
    }
    let back: Box<Name> = ln.clone().into();
    if back.wire_repr() != &lwire[..] || ln.to_string() != lc.to_string() {
        return fail("lowercase", "LowercaseName -> Name / Display", hex(&lwire), hex(back.wire_repr()));
    }

    // ---- NameBuilder: octet by octet, by slices, and with every suffix split
    let mut b1 = NameBuilder::new();
    let mut b2 = NameBuilder::default();
    for lab in n {
        for &o in lab {
            if let Err(e) = b1.try_push(o) {
                return fail("builder", "try_push on a valid name", "Ok", ek(e));
            }
        }
        if let Err(e) = b2.try_push_slice(lab) {
            return fail("builder", "try_push_slice on a valid name", "Ok", ek(e));
        }
        if b1.is_fully_qualified() || b2.is_fully_qualified() {
            return fail("builder", "is_fully_qualified inside a label", false, true);
        }
        if let Err(e) = b1.next_label().and(b2.next_label()) {
            return fail("builder", "next_label on a valid name", "Ok", ek(e));
        }
    }
    for (which, b) in [("try_push", b1), ("try_push_slice", b2)] {
        match b.finish() {
            Ok(x) if x.wire_repr() == &wire[..] && x.len() == nl => {}
            Ok(x) => return fail("builder", &format!("{which}.. finish"), hex(&wire), hex(x.wire_repr())),
            Err(e) => return fail("builder", &format!("{which}.. finish"), "Ok", ek(e)),
        }
    }
    for split in 1..=n.len() {
        let mut b = NameBuilder::new();
        for (i, lab) in n[..split].iter().enumerate() {
            if i > 0 {
                let _ = b.next_label();
            }
            let _ = b.try_push_slice(lab);
        }
        let suffix = name.superdomain(split).unwrap();
        match b.finish_with_suffix(&suffix) {
            Ok(x) if x.wire_repr() == &wire[..] && x.len() == nl && (0..nl).all(|i| x[i].octets() == with_root[i]) => {}
            Ok(x) => return fail("builder-suffix", &format!("finish_with_suffix split={split}"), hex(&wire), hex(x.wire_repr())),
            Err(e) => return fail("builder-suffix", &format!("finish_with_suffix split={split}"), "Ok", ek(e)),
        }
    }

    let escapes = if text == mtext { if text.contains('\\') { "escaped" } else { "plain" } } else { "other-rendering" };
    let upper = n.iter().flatten().any(|b| b.is_ascii_uppercase());
    Ok(format!("name:labels={} {} upper={} wildcard={} wire={}", n.len().min(4), escapes, upper, wild, match wire.len() { 1 => "1", 2..=200 => "2-200", 201..=254 => "201-254", _ => "255" }))
}

/// All names with `<= max_labels` labels drawn from `labels`.
fn names_over(labels: &[Vec<u8>], max_labels: usize) -> Vec<Labels> {
    let mut out: Vec<Labels> = vec![vec![]];
    let mut frontier: Vec<Labels> = vec![vec![]];
    for _ in 0..max_labels {
        let mut next = Vec::with_capacity(frontier.len() * labels.len());
        for f in &frontier {
            for l in labels {
                let mut n = f.clone();
                n.push(l.clone());
                next.push(n);
            }
        }
        out.extend(next.iter().cloned());
        frontier = next;
    }
    out
}

/// All labels of length 1..=max_len over `alphabet`.
fn labels_over(alphabet: &[u8], max_len: usize) -> Vec<Vec<u8>> {
    let mut out = Vec::new();
    for len in 1..=max_len {
        qvlib::enumerate::for_each_bytes_exact(alphabet, len, |b| out.push(b.to_vec()));
    }
    out
}

const NAME_ALPHA: [u8; 10] = [b'a', b'A', b'z', b'.', b'\\', b' ', 0x00, 0xff, b'*', b'0'];

fn family_names(ctx: &Ctx) {
    let labels = labels_over(&NAME_ALPHA, 2); // 110
    // <= 3 labels of <= 2 octets: enumerate by the first label (shards).
    let two = names_over(&labels, 2);
    let count = AtomicU64::new(0);
    ctx.par_shards(labels.len() + 1, |l, shard| {
        let mut c = 0u64;
        if shard == labels.len() {
            for n in &two {
                check_name(l, "names<=2", n);
                c += 1;
            }
        } else {
            for rest in two.iter().filter(|r| r.len() == 2) {
                let mut n = vec![labels[shard].clone()];
                n.extend(rest.iter().cloned());
                check_name(l, "names=3", &n);
                c += 1;
            }
        }
        count.fetch_add(c, AO::Relaxed);
    });
    if !ctx.quick() {
        // thorough: <= 2 labels of <= 3 octets, and <= 5 labels of 1 octet
        let l3 = labels_over(&NAME_ALPHA, 3); // 1110
        ctx.par_shards(l3.len(), |l, shard| {
            let mut c = 0u64;
            for second in &l3 {
                check_name(l, "names 2x<=3", &vec![l3[shard].clone(), second.clone()]);
                c += 1;
            }
            count.fetch_add(c, AO::Relaxed);
        });
        let l1 = labels_over(&NAME_ALPHA, 1);
        let five = names_over(&l1, 5);
        ctx.par_shards(16, |l, shard| {
            let mut c = 0u64;
            for n in five.iter().skip(shard).step_by(16) {
                check_name(l, "names 5x1", n);
                c += 1;
            }
            count.fetch_add(c, AO::Relaxed);
        });
    }
    ctx.set_extra("names_checked", json!(count.into_inner()));
}

// =================================================================== pairs

const PAIR_ALPHA_Q: [u8; 8] = [b'a', b'A', b'Z', b'[', b'@', b'`', 0xc1, 0xe1];
const PAIR_ALPHA_T: [u8; 12] = [b'a', b'A', b'z', b'Z', b'[', b'{', b'@', b'`', 0xc1, 0xe1, 0x00, b'-'];

/// Long and boundary names added to the pair universe.
fn extra_names() -> Vec<Labels> {
    let mut v: Vec<Labels> = Vec::new();
    let l63 = |c: u8, last: u8| {
        let mut x = vec![c; 63];
        x[62] = last;
        x
    };
    for (c, last) in [(b'a', b'a'), (b'a', b'A'), (b'A', b'a'), (b'a', b'b'), (b'a', 0x00), (b'a', 0xff)] {
        v.push(vec![l63(c, last)]);
        v.push(vec![l63(c, last), b"a".to_vec()]);
        // 255-octet names: 3 x 63 + 61
        let mut l61 = vec![c; 61];
        l61[60] = last;
        v.push(vec![l63(b'a', b'a'), l63(b'a', b'a'), l63(c, last), l61.clone()]);
        v.push(vec![l61, l63(b'a', b'a'), l63(b'a', b'a'), l63(c, last)]);
    }
    v.push(vec![vec![b'a'; 62]]);
    v.push(vec![vec![b'a'; 62], b"a".to_vec()]);
    for (fill, last) in [(b'a', b'a'), (b'A', b'a'), (b'a', b'Z'), (b'a', b'[')] {
        let mut n: Labels = vec![vec![fill]; 127];
        n[0] = vec![last];
        v.push(n.clone());
        n[126] = vec![last];
        v.push(n);
        v.push(vec![vec![fill]; 126]);
    }
    // RFC 4034 §6.1 list
    for s in ["example.", "a.example.", "yljkjljk.a.example.", "Z.a.example.", "zABC.a.EXAMPLE.", "z.example.", "\\001.z.example.", "*.z.example.", "\\200.z.example."] {
        v.push(model::parse_text(s).unwrap());
    }
    // prefix / concatenation traps
    for s in ["ab.", "a.b.", "a.ab.", "aa.b.", "a.a.b.", "aab.", "\\001a.", "\\001.a.", "a\\.b.", "a\\.b.c.", "*.", "*.a.", "\\042.a."] {
        v.push(model::parse_text(s).unwrap());
    }
    v
}

struct Prepared {
    labels: Labels,
    name: Box<Name>,
    hash: u64,
    lower_wire: Vec<u8>,
}

fn class_pair(eq: bool, cmp: Ordering, sub: bool, case_only: bool) -> &'static str {
    match (eq, cmp, sub, case_only) {
        (true, Ordering::Equal, true, false) => "pair:identical",
        (true, Ordering::Equal, true, true) => "pair:equal-differing-in-case",
        (false, Ordering::Less, false, _) => "pair:less unrelated",
        (false, Ordering::Greater, false, _) => "pair:greater unrelated",
        (false, Ordering::Greater, true, _) => "pair:greater proper-subdomain",
        (false, Ordering::Less, true, _) => "pair:IMPOSSIBLE less+subdomain",
        _ => "pair:IMPOSSIBLE",
    }
}

fn check_pair(l: &mut Local, a: &Prepared, b: &Prepared) {
    l.tick();
    let req = model::name_eq(&a.labels, &b.labels);
    let rcmp = model::name_cmp(&a.labels, &b.labels);
    let rsub = model::eq_or_subdomain(&a.labels, &b.labels);
    let got = catch(|| {
        let eq = *a.name == *b.name;
        let ne = *a.name != *b.name;
        let cmp = a.name.cmp(&b.name);
        let pcmp = a.name.partial_cmp(&b.name);
        let sub = a.name.eq_or_subdomain_of(&b.name);
        (eq, ne, cmp, pcmp, sub)
    });
    let case = |what: &str, exp: String, got: String| json!({"kind": "pair", "a": labels_json(&a.labels), "b": labels_json(&b.labels), "a_text": model::name_text(&a.labels), "b_text": model::name_text(&b.labels), "what": what, "expected": exp, "got": got});
    match got {
        Err(p) => l.violation(&format!("pair:{}", panic_key(&p)), case("panic", "no panic".into(), p)),
        Ok((eq, ne, cmp, pcmp, sub)) => {
            if eq != req || ne == eq {
                l.violation("pair:eq", case("==", format!("{req}"), format!("eq={eq} ne={ne}")));
            }
            if (a.hash == b.hash) != req {
                l.violation("pair:hash", case("hash equality", format!("{req}"), format!("{}", a.hash == b.hash)));
            }
            if cmp != rcmp || pcmp != Some(cmp) {
                l.violation("pair:cmp", case("cmp", format!("{rcmp:?}"), format!("{cmp:?} partial={pcmp:?}")));
            }
            if sub != rsub {
                l.violation("pair:subdomain", case("eq_or_subdomain_of", format!("{rsub}"), format!("{sub}")));
            }
            // consistency of the three relations among themselves
            if (cmp == Ordering::Equal) != eq {
                l.violation("pair:cmp-vs-eq", case("cmp==Equal <=> ==", format!("{eq}"), format!("{cmp:?}")));
            }
            let case_only = req && a.labels != b.labels;
            if req && a.lower_wire != b.lower_wire {
                l.violation("ORACLE:eq-vs-lowercase", case("oracle", "same lower-case wire".into(), "different".into()));
            }
            l.outcome(class_pair(req, rcmp, rsub, case_only), || json!({"a": model::name_text(&a.labels), "b": model::name_text(&b.labels)}));
        }
    }
}

fn prepare(names: &[Labels]) -> Result<Vec<Prepared>, (Labels, String)> {
    let mut out = Vec::with_capacity(names.len());
    for n in names {
        let name = mk(n).map_err(|e| (n.clone(), e))?;
        let hash = hash_of(&*name);
        out.push(Prepared { labels: n.clone(), name, hash, lower_wire: model::to_wire(&model::lower(n)) });
    }
    Ok(out)
}

fn check_label_pair(l: &mut Local, a: &[u8], b: &[u8]) {
    l.tick();
    let req = model::label_eq(a, b);
    let rcmp = model::label_cmp(a, b);
    let r = catch(|| {
        let la = <&Label>::try_from(a).unwrap();
        let lb = <&Label>::try_from(b).unwrap();
        let (ba, bb) = (LabelBuf::try_from(a).unwrap(), LabelBuf::try_from(b).unwrap());
        (la == lb, la.cmp(lb), la.partial_cmp(lb), hash_of(la) == hash_of(lb), ba == bb, ba.cmp(&bb), ba.partial_cmp(&bb), hash_of(&ba) == hash_of(&bb))
    });
    let case = |what: &str, exp: String, got: String| json!({"kind": "labelpair", "a": hex(a), "b": hex(b), "what": what, "expected": exp, "got": got});
    match r {
        Err(p) => l.violation(&format!("label:{}", panic_key(&p)), case("panic", "no panic".into(), p)),
        Ok((eq, cmp, pcmp, heq, beq, bcmp, bpcmp, bheq)) => {
            if eq != req || beq != req {
                l.violation("label:eq", case("Label/LabelBuf ==", format!("{req}"), format!("{eq}/{beq}")));
            }
            if heq != req || bheq != req {
                l.violation("label:hash", case("Label/LabelBuf hash equality", format!("{req}"), format!("{heq}/{bheq}")));
            }
            if cmp != rcmp || bcmp != rcmp || pcmp != Some(rcmp) || bpcmp != Some(rcmp) {
                l.violation("label:cmp", case("Label/LabelBuf cmp", format!("{rcmp:?}"), format!("{cmp:?}/{bcmp:?}")));
            }
            l.outcome(
                match (req, rcmp, a == b) {
                    (true, _, true) => "label:identical",
                    (true, _, false) => "label:equal-differing-in-case",
                    (false, Ordering::Less, _) => "label:less",
                    _ => "label:greater",
                },
                || json!({"a": hex(a), "b": hex(b)}),
            );
        }
    }
}

fn check_triple(l: &mut Local, a: &Prepared, b: &Prepared, c: &Prepared) {
    l.tick();
    let r = catch(|| {
        let le = |x: &Prepared, y: &Prepared| x.name.cmp(&y.name) != Ordering::Greater;
        let eq = |x: &Prepared, y: &Prepared| *x.name == *y.name;
        let trans_le = !(le(a, b) && le(b, c)) || le(a, c);
        let trans_eq = !(eq(a, b) && eq(b, c)) || eq(a, c);
        let trans_sub = !(a.name.eq_or_subdomain_of(&b.name) && b.name.eq_or_subdomain_of(&c.name)) || a.name.eq_or_subdomain_of(&c.name);
        (trans_le, trans_eq, trans_sub, le(a, b) && le(b, c), eq(a, b) && eq(b, c))
    });
    let case = |what: &str| json!({"kind": "triple", "a": labels_json(&a.labels), "b": labels_json(&b.labels), "c": labels_json(&c.labels), "what": what});
    match r {
        Err(p) => l.violation(&format!("triple:{}", panic_key(&p)), case(&p)),
        Ok((t_le, t_eq, t_sub, chain, eqchain)) => {
            if !t_le {
                l.violation("triple:order-not-transitive", case("a<=b<=c but a>c"));
            }
            if !t_eq {
                l.violation("triple:eq-not-transitive", case("a==b==c but a!=c"));
            }
            if !t_sub {
                l.violation("triple:subdomain-not-transitive", case("a under b under c but a not under c"));
            }
            l.outcome(if eqchain { "triple:all-equal" } else if chain { "triple:chain a<=b<=c" } else { "triple:no-chain" }, || case("sample"));
        }
    }
}

fn family_pairs(ctx: &Ctx) {
    let alpha: &[u8] = if ctx.quick() { &PAIR_ALPHA_Q } else { &PAIR_ALPHA_T };
    let labs = labels_over(alpha, 2);
    let mut names = names_over(&labs, 2);
    names.extend(extra_names());
    let prepared = match prepare(&names) {
        Ok(p) => p,
        Err((n, e)) => {
            ctx.violation("pair:construct", json!({"kind": "name", "fam": "pairs", "labels": labels_json(&n), "what": "try_from_uncompressed_all(valid wire)", "got": e}));
            return;
        }
    };
    let n = prepared.len();
    ctx.set_extra("pair_universe_names", json!(n));
    ctx.set_extra("pairs_checked", json!((n as u64) * (n as u64)));
    // shards: blocks of rows
    let block = 32;
    ctx.par_shards((n + block - 1) / block, |l, s| {
        for i in s * block..((s + 1) * block).min(n) {
            for j in 0..n {
                check_pair(l, &prepared[i], &prepared[j]);
            }
        }
    });

    // labels: every ordered pair of the labels of <= 3 octets (quick: <= 2) + long ones
    let mut lab_universe = labels_over(alpha, ctx.pick(2, 3));
    lab_universe.push(vec![]);
    for (c, last) in [(b'a', b'a'), (b'a', b'A'), (b'A', b'b'), (b'a', 0x00)] {
        let mut x = vec![c; 63];
        x[62] = last;
        lab_universe.push(x.clone());
        lab_universe.push(x[..62].to_vec());
    }
    let m = lab_universe.len();
    ctx.set_extra("label_pairs_checked", json!((m as u64) * (m as u64)));
    ctx.par_shards((m + 15) / 16, |l, s| {
        for i in s * 16..((s + 1) * 16).min(m) {
            for j in 0..m {
                check_label_pair(l, &lab_universe[i], &lab_universe[j]);
            }
        }
    });

    // triples of a subset: names of <= 2 labels of 1 octet over the alphabet + extras
    let l1 = labels_over(alpha, 1);
    let mut sub = names_over(&l1, 2);
    sub.extend(extra_names().into_iter().take(ctx.pick(20, 60)));
    if let Ok(sp) = prepare(&sub) {
        let k = sp.len();
        ctx.set_extra("triples_checked", json!((k as u64).pow(3)));
        ctx.par_shards(k, |l, i| {
            for j in 0..k {
                for m in 0..k {
                    check_triple(l, &sp[i], &sp[j], &sp[m]);
                }
            }
        });
    }
    ctx.assume("hash: DefaultHasher (SipHash-1-3, fixed key) — unequal names are required to hash differently; a chance 64-bit collision among <= 6e8 pairs (p < 1e-10) would be reported as a violation");
}

// ==================================================================== text

const TEXT_ALPHA: [char; 8] = ['a', '.', '\\', '0', '2', '5', '9', 'é'];

fn tk(e: TextErr) -> &'static str {
    match e {
        TextErr::Empty => "Empty",
        TextErr::NotAscii => "NotAscii",
        TextErr::BadEscape => "BadEscape",
        TextErr::EmptyLabel => "EmptyLabel",
        TextErr::NotAbsolute => "NotAbsolute",
        TextErr::LabelTooLong => "LabelTooLong",
        TextErr::NameTooLong => "NameTooLong",
    }
}

fn check_text(l: &mut Local, fam: &str, s: &str) {
    l.tick();
    let exp = model::parse_text(s);
    let case = |what: &str, exp: String, got: String| json!({"kind": "text", "fam": fam, "text": s, "what": what, "expected": exp, "got": got});
    let got = catch(|| (s.parse::<Box<Name>>(), s.parse::<Box<LowercaseName>>()));
    match got {
        Err(p) => l.violation(&format!("text:{}", panic_key(&p)), case("panic", "no panic".into(), p)),
        Ok((r, rl)) => {
            match (&r, &exp) {
                (Ok(name), Ok(n)) => {
                    let w = model::to_wire(n);
                    if name.wire_repr() != &w[..] || name.len() != n.len() + 1 || (0..n.len()).any(|i| name[i].octets() != &n[i][..]) {
                        l.violation("text:value", case("parsed name", hex(&w), hex(name.wire_repr())));
                    }
                    // rendering what was parsed and parsing again is stable
                    let again = name.to_string();
                    match again.parse::<Box<Name>>() {
                        Ok(x) if x.wire_repr() == &w[..] => {}
                        other => l.violation("text:reparse", case(&format!("parse(Display(parse(s))) via {again:?}"), hex(&w), format!("{:?}", other.map(|x| hex(x.wire_repr())).map_err(ek)))),
                    }
                    let esc = s.contains('\\');
                    l.outcome(&format!("text:ok labels={} escapes={}", n.len().min(4), esc), || json!({"text": s}));
                }
                (Err(e), Err(re)) => l.outcome(&format!("text:err ref={} impl={}", tk(*re), ek(*e)), || json!({"text": s})),
                (Ok(name), Err(re)) => l.violation(&format!("text:accepts-{}", tk(*re)), case("FromStr", format!("Err({})", tk(*re)), format!("Ok({})", hex(name.wire_repr())))),
                (Err(e), Ok(n)) => l.violation(&format!("text:rejects-{}", ek(*e)), case("FromStr", format!("Ok({})", hex(&model::to_wire(n))), format!("Err({})", ek(*e)))),
            }
            match (&rl, &exp) {
                (Ok(x), Ok(n)) => {
                    let lw = model::to_wire(&model::lower(n));
                    if x.wire_repr() != &lw[..] {
                        l.violation("text:lowercase-value", case("LowercaseName::from_str", hex(&lw), hex(x.wire_repr())));
                    }
                }
                (Err(_), Err(_)) => {}
                _ => l.violation("text:lowercase-acceptance", case("LowercaseName::from_str acceptance", format!("{}", exp.is_ok()), format!("{}", rl.is_ok()))),
            }
        }
    }
}

fn family_text(ctx: &Ctx) {
    let max_len = ctx.pick(6, 8);
    let a = TEXT_ALPHA.len();
    let count = AtomicU64::new(0);
    ctx.par_shards(1 + a * a, |l, shard| {
        let mut c = 0u64;
        let mut s = String::new();
        if shard == 0 {
            check_text(l, "text", "");
            c += 1;
            for ch in TEXT_ALPHA {
                check_text(l, "text", &ch.to_string());
                c += 1;
            }
        } else {
            let p = shard - 1;
            for len in 2..=max_len {
                qvlib::enumerate::for_each_seq_exact(a, len - 2, |idx| {
                    s.clear();
                    s.push(TEXT_ALPHA[p / a]);
                    s.push(TEXT_ALPHA[p % a]);
                    for k in idx {
                        s.push(TEXT_ALPHA[*k]);
                    }
                    check_text(l, "text", &s);
                    c += 1;
                    true
                });
            }
        }
        count.fetch_add(c, AO::Relaxed);
    });
    ctx.set_extra("text_strings_checked", json!(count.into_inner()));
    ctx.set_extra("text_max_chars", json!(max_len));
}

// ================================================================ boundary

/// A possibly invalid label-length vector pushed through every constructor.
fn check_boundary(l: &mut Local, lens: &[usize], fill: u8) {
    l.tick();
    let n: Labels = lens.iter().enumerate().map(|(i, k)| vec![if i % 2 == 0 { fill } else { fill.to_ascii_uppercase() }; *k]).collect();
    let ok = model::valid(&n);
    let case = |what: &str, exp: String, got: String| json!({"kind": "boundary", "lens": lens, "fill": fill, "what": what, "expected": exp, "got": got});
    let expect = if ok { "Ok" } else { "Err" };
    // three renderings: reference text, everything as \DDD, alternate
    let plain = model::name_text(&n);
    let all_esc: String = n.iter().map(|lab| lab.iter().map(|b| format!("\\{b:03}")).collect::<String>() + ".").collect();
    let mixed: String = n.iter().map(|lab| lab.iter().enumerate().map(|(i, b)| if i % 2 == 0 { format!("\\{b:03}") } else { format!("\\{}", *b as char) }).collect::<String>() + ".").collect();
    let w = model::to_wire(&n);
    for (how, text) in [("plain", &plain), ("all-escaped", &all_esc), ("mixed-escapes", &mixed)] {
        if n.is_empty() {
            continue;
        }
        match catch(|| text.parse::<Box<Name>>()) {
            Err(p) => l.violation(&format!("boundary:{}", panic_key(&p)), case(&format!("FromStr {how}"), "no panic".into(), p)),
            Ok(Ok(x)) => {
                if !ok || x.wire_repr() != &w[..] {
                    l.violation("boundary:fromstr-accepts", case(&format!("FromStr {how}"), expect.into(), format!("Ok({})", hex(x.wire_repr()))));
                }
            }
            Ok(Err(e)) => {
                if ok {
                    l.violation("boundary:fromstr-rejects", case(&format!("FromStr {how}"), expect.into(), format!("Err({})", ek(e))));
                }
            }
        }
    }
    // wire form (lengths up to 255 fit a length octet only below 64; larger
    // "labels" are simply invalid length octets, which is the point)
    if lens.iter().all(|k| *k <= 255) {
        match catch(|| Name::try_from_uncompressed_all(&w)) {
            Err(p) => l.violation(&format!("boundary:{}", panic_key(&p)), case("try_from_uncompressed_all", "no panic".into(), p)),
            Ok(r) => {
                if r.is_ok() != ok {
                    l.violation("boundary:wire-acceptance", case("try_from_uncompressed_all", expect.into(), format!("{:?}", r.map(|x| hex(x.wire_repr())).map_err(ek))));
                }
            }
        }
    }
    // builder, octet by octet and by slices: the first failing step must be
    // the one where the reference builder fails
    for by_slice in [false, true] {
        let r = catch(|| {
            let mut b = NameBuilder::new();
            let mut m = BuilderModel::default();
            for lab in &n {
                if by_slice {
                    let (g, e) = (b.try_push_slice(lab), m.push(lab));
                    if g.is_ok() != e.is_ok() {
                        return Err(format!("try_push_slice({} octets): expected {e:?}, got {g:?}", lab.len()));
                    }
                } else {
                    for &o in lab {
                        let (g, e) = (b.try_push(o), m.push(&[o]));
                        if g.is_ok() != e.is_ok() {
                            return Err(format!("try_push: expected {e:?}, got {g:?} (label so far {} octets)", m.cur.len()));
                        }
                    }
                }
                let (g, e) = (b.next_label(), m.next_label());
                if g.is_ok() != e.is_ok() {
                    return Err(format!("next_label: expected {e:?}, got {g:?}"));
                }
                if b.is_fully_qualified() != m.fully_qualified() {
                    return Err("is_fully_qualified differs".into());
                }
            }
            let e = m.finish();
            match (b.finish(), &e) {
                (Ok(x), Ok(en)) if x.wire_repr() == &model::to_wire(en)[..] => Ok(()),
                (Err(_), Err(_)) => Ok(()),
                (g, _) => Err(format!("finish: expected {:?}, got {:?}", e.map(|x| hex(&model::to_wire(&x))), g.map(|x| hex(x.wire_repr())))),
            }
        });
        match r {
            Err(p) => l.violation(&format!("boundary:{}", panic_key(&p)), case("NameBuilder", "no panic".into(), p)),
            Ok(Err(why)) => l.violation("boundary:builder", case(if by_slice { "NameBuilder by slices" } else { "NameBuilder by octets" }, "reference builder".into(), why)),
            Ok(Ok(())) => {}
        }
    }
    // finish_with_suffix at the first / middle / last split
    if !n.is_empty() && n.iter().all(|lab| !lab.is_empty() && lab.len() <= 63) {
        for split in [1, (n.len() + 1) / 2, n.len()] {
            let suffix = &n[split..];
            if !model::valid(&suffix.to_vec()) {
                continue;
            }
            let r = catch(|| {
                let sname = Name::try_from_uncompressed_all(&model::to_wire(suffix)).map_err(|e| format!("suffix: {}", ek(e)))?;
                let mut b = NameBuilder::new();
                let mut m = BuilderModel::default();
                for (i, lab) in n[..split].iter().enumerate() {
                    if i > 0 {
                        let (g, e) = (b.next_label(), m.next_label());
                        if g.is_ok() != e.is_ok() {
                            return Err(format!("next_label: expected {e:?}, got {g:?}"));
                        }
                    }
                    let (g, e) = (b.try_push_slice(lab), m.push(lab));
                    if g.is_ok() != e.is_ok() {
                        return Err(format!("try_push_slice: expected {e:?}, got {g:?}"));
                    }
                }
                let e = m.finish_with_suffix(suffix);
                match (b.finish_with_suffix(&sname), &e) {
                    (Ok(x), Ok(en)) if x.wire_repr() == &model::to_wire(en)[..] && x.len() == en.len() + 1 && (0..en.len()).all(|i| x[i].octets() == &en[i][..]) => Ok(()),
                    (Err(_), Err(_)) => Ok(()),
                    (g, _) => Err(format!("finish_with_suffix: expected {:?}, got {:?}", e.map(|x| hex(&model::to_wire(&x))), g.map(|x| hex(x.wire_repr())))),
                }
            });
            match r {
                Err(p) => l.violation(&format!("boundary:{}", panic_key(&p)), case("finish_with_suffix", "no panic".into(), p)),
                Ok(Err(why)) => l.violation("boundary:builder-suffix", case(&format!("finish_with_suffix split={split}"), "reference builder".into(), why)),
                Ok(Ok(())) => {}
            }
        }
    }
    let maxl = lens.iter().copied().max().unwrap_or(0);
    let wl = model::wire_len(&n);
    l.outcome(
        &format!("boundary:{} maxlabel={} wire={}", if ok { "valid" } else { "invalid" }, match maxl { 0..=61 => "<=61", 62 => "62", 63 => "63", 64 => "64", _ => ">64" }, match wl { 0..=253 => "<=253", 254 => "254", 255 => "255", 256 => "256", _ => ">256" }),
        || json!({"lens": lens}),
    );
    if ok {
        check_name(l, "boundary", &n);
    }
}

fn boundary_vectors() -> Vec<Vec<usize>> {
    let mut v: Vec<Vec<usize>> = Vec::new();
    // single labels 1..=70
    for k in 1..=70 {
        v.push(vec![k]);
        v.push(vec![k, 1]);
        v.push(vec![1, k]);
    }
    // names of wire length 250..=258 out of labels of m octets + one odd label, odd label first or last
    for m in [1usize, 2, 3, 7, 31, 61, 62, 63, 64] {
        for total in 250..=258usize {
            let body = total - 1;
            let q = body / (m + 1);
            let rem = body - q * (m + 1);
            let base = vec![m; q];
            match rem {
                0 => v.push(base),
                1 => {
                    let mut a = base.clone();
                    a[0] = m + 1;
                    v.push(a);
                    let mut b = base;
                    let last = b.len() - 1;
                    b[last] = m + 1;
                    v.push(b);
                }
                r => {
                    let mut a = vec![r - 1];
                    a.extend(base.iter());
                    v.push(a);
                    let mut b = base;
                    b.push(r - 1);
                    v.push(b);
                }
            }
        }
    }
    // 125..=129 one-octet labels
    for k in 125..=129 {
        v.push(vec![1; k]);
    }
    v.sort();
    v.dedup();
    v
}

fn family_boundary(ctx: &Ctx) {
    let vs = boundary_vectors();
    let mut items: Vec<(Vec<usize>, u8)> = Vec::new();
    for v in &vs {
        for fill in [b'x', b'.', 0x00] {
            items.push((v.clone(), fill));
        }
    }
    ctx.set_extra("boundary_vectors", json!(items.len()));
    ctx.par_for_each(&items, |l, (v, fill)| check_boundary(l, v, *fill));
}

// ================================================================= builder

#[derive(Clone, Copy, Debug, PartialEq)]
enum Op {
    Push,
    Slice0,
    Slice2,
    Slice61,
    Slice63,
    Next,
}
const OPS: [Op; 6] = [Op::Push, Op::Slice0, Op::Slice2, Op::Slice61, Op::Slice63, Op::Next];
const FINISHERS: [&str; 4] = ["finish", "suffix:.", "suffix:s.", "suffix:60"];

fn op_name(o: Op) -> &'static str {
    match o {
        Op::Push => "push",
        Op::Slice0 => "slice0",
        Op::Slice2 => "slice2",
        Op::Slice61 => "slice61",
        Op::Slice63 => "slice63",
        Op::Next => "next",
    }
}

fn op_from(s: &str) -> Option<Op> {
    OPS.iter().copied().find(|o| op_name(*o) == s)
}

fn suffix_labels(fin: &str) -> Labels {
    match fin {
        "suffix:." => vec![],
        "suffix:s." => vec![b"s".to_vec()],
        _ => vec![vec![b'T'; 60]],
    }
}

fn bk(e: BuildErr) -> &'static str {
    match e {
        BuildErr::LabelTooLong => "LabelTooLong",
        BuildErr::NameTooLong => "NameTooLong",
        BuildErr::NullNonTerminal => "NullNonTerminal",
        BuildErr::NonNullTerminal => "NonNullTerminal",
    }
}

static D61: [u8; 61] = [b'd'; 61];
static E63: [u8; 63] = [b'E'; 63];

/// One history + finisher on a fresh builder, against the model. Returns the
/// outcome class or the first divergence.
fn run_history(ops: &[Op], fin: &str) -> Result<(String, u64), String> {
    let mut b = NameBuilder::new();
    let mut m = BuilderModel::default();
    let mut transitions = 0u64;
    let mut errs = 0;
    let mut kind_mismatch = false;
    for (i, op) in ops.iter().enumerate() {
        let (g, e) = match op {
            Op::Push => (b.try_push(b'a'), m.push(b"a")),
            Op::Slice0 => (b.try_push_slice(b""), m.push(b"")),
            Op::Slice2 => (b.try_push_slice(b"bC"), m.push(b"bC")),
            Op::Slice61 => (b.try_push_slice(&D61), m.push(&D61)),
            Op::Slice63 => (b.try_push_slice(&E63), m.push(&E63)),
            Op::Next => (b.next_label(), m.next_label()),
        };
        transitions += 1;
        if g.is_ok() != e.is_ok() {
            return Err(format!("step {i} ({}): expected {e:?}, got {g:?}", op_name(*op)));
        }
        if let (Err(ge), Err(ee)) = (g, e) {
            errs += 1;
            if ek(ge) != bk(ee) {
                kind_mismatch = true;
            }
        }
        if b.is_fully_qualified() != m.fully_qualified() {
            return Err(format!("step {i} ({}): is_fully_qualified expected {}, got {}", op_name(*op), m.fully_qualified(), b.is_fully_qualified()));
        }
    }
    transitions += 1;
    let (g, e) = if fin == "finish" {
        (b.finish(), m.finish())
    } else {
        let s = suffix_labels(fin);
        let sname = Name::try_from_uncompressed_all(&model::to_wire(&s)).map_err(|e| format!("suffix construction: {}", ek(e)))?;
        (b.finish_with_suffix(&sname), m.finish_with_suffix(&s))
    };
    let class = match (&g, &e) {
        (Ok(x), Ok(en)) => {
            let w = model::to_wire(en);
            if x.wire_repr() != &w[..] || x.len() != en.len() + 1 || (0..en.len()).any(|i| x[i].octets() != &en[i][..]) || !x[en.len()].is_null() {
                return Err(format!("{fin}: expected {}, got {}", hex(&w), hex(x.wire_repr())));
            }
            format!("builder:{} ok labels={} wire={} rejected-steps={}", if fin == "finish" { "finish" } else { "suffix" }, en.len().min(5), match w.len() { 0..=199 => "<200", 200..=254 => "200-254", _ => "255" }, errs.min(3))
        }
        (Err(ge), Err(ee)) => {
            if ek(*ge) != bk(*ee) {
                kind_mismatch = true;
            }
            format!("builder:{} err ref={} impl={} rejected-steps={}", if fin == "finish" { "finish" } else { "suffix" }, bk(*ee), ek(*ge), errs.min(3))
        }
        _ => return Err(format!("{fin}: expected {:?}, got {:?}", e.map(|x| hex(&model::to_wire(&x))), g.map(|x| hex(x.wire_repr())))),
    };
    Ok((if kind_mismatch { format!("{class} (error kinds differ)") } else { class }, transitions))
}

fn check_history(l: &mut Local, ops: &[Op], fin: &str, transitions: &mut u64) {
    l.tick();
    let case = |got: String| json!({"kind": "builder", "ops": ops.iter().map(|o| op_name(*o)).collect::<Vec<_>>(), "finisher": fin, "got": got});
    match catch(|| run_history(ops, fin)) {
        Err(p) => l.violation(&format!("builder:{}", panic_key(&p)), case(p)),
        Ok(Err(why)) => {
            let key = format!("builder:diverges-at-{}", why.split(':').next().unwrap_or("").split(' ').last().unwrap_or("").trim_matches(|c| c == '(' || c == ')'));
            l.violation(&key, case(why));
        }
        Ok(Ok((class, t))) => {
            *transitions += t;
            l.outcome(&class, || case("as the reference".into()));
        }
    }
}

fn family_builder(ctx: &Ctx) {
    let depth = ctx.pick(8, 10);
    let a = OPS.len();
    let histories = AtomicU64::new(0);
    let transitions = AtomicU64::new(0);
    ctx.par_shards(1 + a * a, |l, shard| {
        let (mut h, mut t) = (0u64, 0u64);
        let mut run = |l: &mut Local, ops: &[Op]| {
            for fin in FINISHERS {
                check_history(l, ops, fin, &mut t);
                h += 1;
            }
        };
        if shard == 0 {
            run(l, &[]);
            for o in OPS {
                run(l, &[o]);
            }
        } else {
            let p = shard - 1;
            for len in 2..=depth {
                let mut ops = vec![OPS[p / a], OPS[p % a]];
                ops.resize(len, Op::Push);
                qvlib::enumerate::for_each_seq_exact(a, len - 2, |idx| {
                    for (i, k) in idx.iter().enumerate() {
                        ops[2 + i] = OPS[*k];
                    }
                    run(l, &ops);
                    true
                });
            }
        }
        histories.fetch_add(h, AO::Relaxed);
        transitions.fetch_add(t, AO::Relaxed);
    });
    ctx.set_extra("builder_history_depth", json!(depth));
    ctx.set_extra("builder_histories", json!(histories.into_inner()));
    ctx.set_extra("builder_transitions", json!(transitions.into_inner()));
}

// =================================================================== entry

const RULE: &str = "names: every name of <= 3 labels of <= 2 octets over {a A z . \\ space 00 ff * 0} (thorough: also 2 labels of <= 3 octets, 5 labels of 1 octet): Display -> reference parser and FromStr round trip to the identical wire form, label access, wire slices, superdomains, lower-casing, LowercaseName, NameBuilder incl. finish_with_suffix at every split | pairs: every ordered pair of all names of <= 2 labels of <= 2 octets over a case-boundary alphabet (a A Z [ @ ` c1 e1; thorough 12 octets) plus 63-octet-label / 255-octet / 127-label names: ==, hash equality, cmp (RFC 4034 §6.1 reference), eq_or_subdomain_of; every ordered pair of labels (Label and LabelBuf); every triple of a subset (transitivity) | text: every string of <= 6 (thorough 8) characters over {a . \\ 0 2 5 9 é} against an independent text parser | boundary: label-length vectors around 63-octet labels, 250..258-octet names, 125..129 labels through FromStr (3 renderings), wire parsing, NameBuilder | builder: every NameBuilder operation history of depth <= 8 (thorough 10) over {push, slice0, slice2, slice61, slice63, next_label} x {finish, finish_with_suffix(. | s. | 60-octet label)} against a reference builder";

fn replay(ctx: &Ctx, case: &Value) {
    let mut l = ctx.local();
    match case["kind"].as_str().unwrap_or("") {
        "name" => {
            let n = labels_from_json(&case["labels"]);
            if model::valid(&n) {
                check_name(&mut l, "replay", &n);
            } else {
                eprintln!("replay: not a valid name");
            }
        }
        "pair" => {
            let names = vec![labels_from_json(&case["a"]), labels_from_json(&case["b"])];
            match prepare(&names) {
                Ok(p) => {
                    check_pair(&mut l, &p[0], &p[1]);
                    check_pair(&mut l, &p[1], &p[0]);
                }
                Err((n, e)) => l.violation("pair:construct", json!({"kind": "name", "labels": labels_json(&n), "got": e})),
            }
        }
        "labelpair" => {
            let (a, b) = (unhex(case["a"].as_str().unwrap_or("")), unhex(case["b"].as_str().unwrap_or("")));
            check_label_pair(&mut l, &a, &b);
            check_label_pair(&mut l, &b, &a);
        }
        "triple" => {
            let names = vec![labels_from_json(&case["a"]), labels_from_json(&case["b"]), labels_from_json(&case["c"])];
            if let Ok(p) = prepare(&names) {
                check_triple(&mut l, &p[0], &p[1], &p[2]);
            }
        }
        "text" => check_text(&mut l, "replay", case["text"].as_str().unwrap_or("")),
        "boundary" => {
            let lens: Vec<usize> = case["lens"].as_array().map(|a| a.iter().map(|x| x.as_u64().unwrap_or(0) as usize).collect()).unwrap_or_default();
            check_boundary(&mut l, &lens, case["fill"].as_u64().unwrap_or(120) as u8);
        }
        "builder" => {
            let ops: Vec<Op> = case["ops"].as_array().map(|a| a.iter().filter_map(|x| op_from(x.as_str().unwrap_or(""))).collect()).unwrap_or_default();
            let mut t = 0;
            check_history(&mut l, &ops, case["finisher"].as_str().unwrap_or("finish"), &mut t);
        }
        other => eprintln!("replay: unknown case kind {other:?}"),
    }
}

pub fn run(ctx: Ctx) -> ! {
    model::self_test();
    if let Some(case) = ctx.replay_case() {
        let case = case.clone();
        replay(&ctx, &case);
        eprintln!("replayed {}: {} violation(s)", case["kind"], ctx.violation_count());
        ctx.finish("exploration", RULE, false);
    }
    let fams: [(&str, fn(&Ctx)); 5] = [("names", family_names), ("pairs", family_pairs), ("text", family_text), ("boundary", family_boundary), ("builder", family_builder)];
    for (name, f) in fams {
        let t0 = ctx.elapsed_s();
        f(&ctx);
        ctx.set_extra(&format!("wall_s_{name}"), json!(((ctx.elapsed_s() - t0) * 100.0).round() / 100.0));
    }
    ctx.assume("text: exact escaping style is not prescribed; Display output must be read back by the reference RFC 1035 §5.1 parser to the same labels and by FromStr to the same wire form");
    ctx.assume("text: strings containing any non-ASCII character are rejected (documented: strictly ASCII); \\DDD needs exactly three digits <= 255");
    ctx.assume("builder/FromStr error kinds are not compared, only Ok/Err and values; the root counts as a label for len()/superdomain()");
    ctx.finish("exploration", RULE, true);
}
